#!/bin/sh
# usage: tools/verify_mutant.sh C17 A   -> confirms in the scratch worktree /tmp/mut_C17 and stores /verif/seeded/C17_A
P=$1; V=$2; R=${3:-}; W=/tmp/mut${R}_$P; O=$W/out/$V
[ -f $O/patch.diff ] || { echo "no patch"; exit 2; }
cd $W && git checkout -q -- symmray && git apply $O/patch.diff || { echo "apply failed"; exit 2; }
T=$(PYTHONPATH=$W /venv/bin/python -m pytest -q -p no:cacheprovider 2>&1 | tail -1)
PYTHONPATH=$W /venv/bin/python $O/demo.py > /tmp/demo_$P$V$R.with 2>&1; RW=$?
git checkout -q -- symmray
PYTHONPATH=$W /venv/bin/python $O/demo.py > /tmp/demo_$P$V$R.without 2>&1; RO=$?
echo "$P $V tests: $T | demo with patch rc=$RW | without rc=$RO"
case "$T" in *"1213 passed"*) ;; *) echo "TESTS NOT PASSING"; exit 1;; esac
[ $RW -ne 0 ] && [ $RO -eq 0 ] || { echo "DEMO NOT DISCRIMINATING"; exit 1; }
D=/verif/seeded/${P}_$V$R; mkdir -p $D; cp $O/patch.diff $O/demo.py $D/
python3 - <<PY
import json
m=json.load(open('$O/meta.json'))
m['confirmed']={'tests_with_patch':'''$T''','demo_rc_with_patch':$RW,'demo_rc_without_patch':$RO,'how':'tools/verify_mutant.sh in scratch worktree $W (git apply; full pytest; demo; checkout; demo)'}
json.dump(m,open('$D/meta.json','w'),indent=1)
PY
echo stored $D
