#!/bin/sh
# runs every quick check on /repo (default seed), rewrites evidence/*.json, validates them and MANIFEST.json against the schemas
V=$(cd "$(dirname "$0")/.." && pwd); cd $V
for i in 01 02 03 04 05 06 07 08 09 10 11 12 13 14 15 16 17 18 19 20; do
  S=$(date +%s); ./check C$i > /tmp/refresh_C$i.log 2>&1; RC=$?
  echo "C$i rc=$RC $(( $(date +%s) - S ))s violations=$(grep -c VIOLATION /tmp/refresh_C$i.log) known=$(grep -c KNOWN-FINDING /tmp/refresh_C$i.log)"
done
/opt/veriftools/pyvenv/bin/python - <<'PY'
import json, jsonschema, glob
es = json.load(open('/root/.vp/EVIDENCE.schema.json')); ms = json.load(open('/root/.vp/MANIFEST.schema.json'))
jsonschema.validate(json.load(open('MANIFEST.json')), ms)
for f in sorted(glob.glob('evidence/C*.json')):
    jsonschema.validate(json.load(open(f)), es)
print('manifest and', len(glob.glob('evidence/C*.json')), 'evidence files valid')
PY
