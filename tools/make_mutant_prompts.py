#!/usr/bin/env python3
"""usage: tools/make_mutant_prompts.py <round-tag> <Cxx> [<Cxx> ...]
Creates one scratch worktree /tmp/mut<tag>_<Cxx> of /repo per property with PROPERTY.txt and PROMPT.txt
(the mutant author gets ONLY the property text and the worktree; nothing from /verif)."""
import json, subprocess, sys, os
tag, pids = sys.argv[1], sys.argv[2:]
props = {json.loads(l)['id']: json.loads(l) for l in open('/verif/properties.jsonl')}
base = """You are helping to evaluate a verification framework by seeding realistic bugs. Work ONLY inside the directory WDIR, which is a scratch git worktree of the Python library `symmray` (block-sparse abelian-symmetric and fermionic tensors). Do not read or write anything under /verif or /repo. The property you target is in WDIR/PROPERTY.txt — read it first, then read the relevant source files under WDIR/symmray/ and the tests under WDIR/tests/.

Task: produce TWO different, independent changes (call them A and B) to the library source (files under symmray/ only, never tests) such that each change
  (1) breaks the property in PROPERTY.txt,
  (2) still imports fine and passes the ENTIRE existing test suite:  cd WDIR && PYTHONPATH=WDIR /venv/bin/python -m pytest -q -p no:cacheprovider   (baseline: 1213 passed, 90 skipped; ~15 s),
  (3) needs something SPECIFIC to manifest — a particular multi-step sequence of operations, an unusual but legal input (odd total charge, missing blocks, mixed dualness, a particular symmetry such as Z2Z2/U1U1/Z4, pre-fused or nested-fused legs, a size-one axis, operands whose stored sectors differ, a warm cache, a particular cutoff/limit, complex or float32 data, tuple or string odd-position labels, ...), or two cooperating edits that each look fine alone. A change that ordinary use or a trivial smoke test exposes at once is NOT wanted. Prefer small, plausible edits a maintainer could make by mistake (wrong branch condition, dropped sort, swapped flag, stale copy, off-by-one, lost argument, an 'optimisation' that is wrong in a corner) over sabotage.
  (4) comes with a demonstration: a small standalone script demo.py (numpy + symmray only; run as  PYTHONPATH=WDIR /venv/bin/python demo.py ) that exits 0 and prints PASS on the ORIGINAL code and exits 1 and prints FAIL (with the offending values) WITH the change applied. The demo must check the property as stated (e.g. against a dense numpy computation or another route through the library), not an implementation detail.
An earlier round already used the following ideas for this property — yours must be DIFFERENT in mechanism and location:
PREVIOUS
Procedure for each of A and B: edit the source; run the full test suite (must still be all passing); run your demo (must FAIL); save the change with `git -C WDIR diff > WDIR/out/<A|B>/patch.diff`; revert with `git -C WDIR checkout -- symmray`; run the demo again on the clean tree (must PASS). Write WDIR/out/<A|B>/demo.py and WDIR/out/<A|B>/meta.json with keys: property ("CXX"), title (one line), what_breaks, needs_to_manifest, files_touched, tests_pass (true, with the pytest summary line), demo_fails_with_patch (true), demo_passes_without_patch (true). Leave the worktree clean (no source modifications) when you finish; keep only the out/ directory. Facts: python is /venv/bin/python (numpy 2.x, autoray; no scipy, quimb or torch); tests/conftest.py and symmray/utils.py show how to build random arrays (e.g. symmray.utils.get_rand). In your final message list for A and B: the one-line title, the diff, and what is needed for it to manifest.
"""
for pid in pids:
    w = '/tmp/mut%s_%s' % (tag, pid)
    subprocess.check_call(['git', '-C', '/repo', 'worktree', 'add', '-q', '--detach', w, 'HEAD'])
    os.makedirs(w + '/out/A'); os.makedirs(w + '/out/B')
    d = props[pid]
    prev = []
    for v in ('A', 'B', 'A2', 'B2', 'A3', 'B3', 'A4', 'B4'):
        try:
            prev.append('  - ' + json.load(open('/verif/seeded/%s_%s/meta.json' % (pid, v))).get('title', ''))
        except Exception:
            pass
    open(w + '/PROPERTY.txt', 'w').write("Property %s: %s\n\n%s\n\nQuantified over: %s\n\nRelevant files: %s\n" % (
        pid, d['title'], d['statement'], d['quantifier']['text'], ', '.join(d['anchors']['files'])))
    open(w + '/PROMPT.txt', 'w').write(base.replace('WDIR', w).replace('CXX', pid).replace('PREVIOUS', '\n'.join(prev)))
    print(w)
