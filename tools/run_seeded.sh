#!/bin/sh
# runs every seeded change against the check of the property it targets (and extra checks
# given after the name in seeded/EXTRA), writes seeded/RESULTS.md
# usage: tools/run_seeded.sh            all seeded changes, rewrites RESULTS.md
#        tools/run_seeded.sh C03_A2 …  only these, appended to RESULTS.md
V=$(cd "$(dirname "$0")/.." && pwd)
OUT=$V/seeded/RESULTS.md
if [ $# -eq 0 ]; then
  echo "# Seeded changes vs checks (tools/run_seeded.sh, scratch copies of /repo)" > $OUT
  echo "" >> $OUT
  echo "| seeded change | property | title | checks run -> result |" >> $OUT
  echo "|---|---|---|---|" >> $OUT
  set -- $(cd $V/seeded && ls -d C*_*/ | tr -d /)
fi
for N in "$@"; do D=$V/seeded/$N
  P=${N%_*}
  EXTRA=$(grep "^$N " $V/seeded/EXTRA 2>/dev/null | cut -d' ' -f2-)
  T=$(python3 -c "import json;print(json.load(open('$D/meta.json')).get('title','')[:110].replace('|','/'))")
  RES=""
  for c in $P $EXTRA; do
    [ -f $V/harness/$(echo $c | tr 'A-Z' 'a-z').py ] || { RES="$RES $c:no-check"; continue; }
    L=$($V/tools/try_mutant.sh $N $c 2>&1 | grep "VIOLATION")
    if [ -z "$L" ]; then RES="$RES $c:missed";
    elif echo "$L" | grep -qv no-failing-input-found; then RES="$RES $c:CAUGHT(input)";
    else RES="$RES $c:CAUGHT(no-failing-input-found)"; fi
  done
  echo "| $N | $P | $T |$RES |" >> $OUT
  echo "$N $RES"
done
