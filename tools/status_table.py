#!/usr/bin/env python3
"""Print the per-property status table (markdown) from coq/Props, evidence and seeded/CROSS.tsv."""
import glob, json, os, re
V = os.path.dirname(os.path.dirname(os.path.abspath(__file__)))
props = [json.loads(l) for l in open(os.path.join(V, 'properties.jsonl'))]
print('| id | theorems (partial / refuted) | generated files the theorems mention | correspondence cases (quick) | quick wall s | known findings |')
print('|---|---|---|---|---|---|')
kf = json.load(open(os.path.join(V, 'known_findings.json')))
for p in props:
    i = p['id']
    thms, files = [], []
    for f in sorted(glob.glob(os.path.join(V, 'coq', 'Props', i + '*.v'))):
        if not re.fullmatch(i + r'[a-z]?\.v', os.path.basename(f)):
            continue
        src = re.sub(r'\(\*.*?\*\)', '', open(f).read(), flags=re.S)
        thms += re.findall(r'^\s*Theorem\s+(\w+)', src, flags=re.M)
        files += re.findall(r'Gen\.(\w+)', src)
    part = [t for t in thms if 'partial' in t]
    ref = [t for t in thms if 'refuted' in t]
    ev = {}
    try:
        ev = json.load(open(os.path.join(V, 'evidence', i + '.json')))
    except Exception:
        pass
    cov = ev.get('coverage', {})
    tie = cov.get('tie', {})
    ncases = sum(v for v in tie.values() if isinstance(v, int)) if isinstance(tie, dict) else ''
    k = ', '.join(f['id'] for f in kf['findings'] if f['property'] == i)
    print('| %s | %d (%d / %d) | %s | %s | %s | %s |' % (i, len(thms), len(part), len(ref), ', '.join(sorted(set(files))) or '—',
                                                     ncases or cov.get('evaluations', ''), ev.get('wall_s', ''), k or '—'))
