#!/bin/sh
# usage: tools/try_mutant.sh <seeded dir name> <check ids...>
# applies the seeded patch to a SCRATCH copy of /repo (outside /repo and /verif), runs the checks
# against it (SYMMRAY_REPO), removes the copy.  /repo itself is never modified.
V=$(cd "$(dirname "$0")/.." && pwd)
D=$V/seeded/$1; shift
M=/tmp/mrepo_$$
rm -rf $M; mkdir -p $M; git -C /repo archive HEAD | tar -x -C $M
(cd $M && patch -p1 -s < $D/patch.diff) || { echo "patch failed"; rm -rf $M; exit 2; }
for c in "$@"; do echo "== $c"; (cd $V && SYMMRAY_REPO=$M VERIF_EVIDENCE_DIR=$M/.evidence ./check $c 2>&1 | grep -E "VIOLATION|KNOWN|Traceback|Error" | cut -c1-160 | head -5; ); done
rm -rf $M
