#!/bin/sh
# usage: tools/try_mutant.sh <seeded dir name> <check ids...>  : apply to /repo, run checks, revert
D=/verif/seeded/$1; shift
git -C /repo apply $D/patch.diff || exit 2
for c in "$@"; do echo "== $c"; (cd /verif && ./check $c 2>&1 | grep -E "VIOLATION|KNOWN|Traceback|Error" | head -5; ); done
git -C /repo checkout -- .
