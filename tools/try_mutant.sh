#!/bin/sh
# usage: tools/try_mutant.sh <seeded dir name> <check ids...>
# applies the seeded patch to a SCRATCH copy of /repo (outside /repo and /verif), runs the checks
# against it (SYMMRAY_REPO), removes the copy.  /repo itself is never modified.
D=/verif/seeded/$1; shift
M=/tmp/mrepo_$$
rm -rf $M; mkdir -p $M; rsync -a --exclude .git /repo/ $M/
(cd $M && patch -p1 -s < $D/patch.diff) || { echo "patch failed"; rm -rf $M; exit 2; }
for c in "$@"; do echo "== $c"; (cd /verif && SYMMRAY_REPO=$M ./check $c 2>&1 | grep -E "VIOLATION|KNOWN|Traceback|Error" | head -5; ); done
rm -rf $M
