#!/bin/sh
# usage: tools/scan_refactors.sh <dir with R*/patch.diff> <out.tsv>
# Runs every quick check against a scratch copy of /repo with each behaviour-preserving patch applied,
# from a private copy of /verif (so that the working /verif stays usable).  Expected: rc 0 everywhere;
# a `no-failing-input-found` report is tolerated by the brief (a broken tie is not a violation by itself)
# but recorded.
SRC=$1; OUT=$2
VC=/tmp/vcopy_$$; rm -rf $VC; mkdir -p $VC
(cd /verif && git ls-files -z | xargs -0 tar -c) | tar -x -C $VC
(cd $VC && ./setup.sh >/dev/null 2>&1)
: > $OUT
for D in $SRC/R*; do
  N=$(basename $D); M=/tmp/rrepo_$$; rm -rf $M; mkdir -p $M; git -C /repo archive HEAD | tar -x -C $M
  (cd $M && patch -p1 -s < $D/patch.diff) || { echo "$N	patch-failed" >> $OUT; rm -rf $M; continue; }
  for i in 01 02 03 04 05 06 07 08 09 10 11 12 13 14 15 16 17 18 19 20; do
    L=$(cd $VC && SYMMRAY_REPO=$M VERIF_EVIDENCE_DIR=$M/.evidence ./check C$i 2>&1 | grep -E "VIOLATION" | head -1)
    if [ -z "$L" ]; then R=ok; elif echo "$L" | grep -q no-failing-input-found; then R=tie-only; else R=ALARM; fi
    echo "$N	C$i	$R" >> $OUT
  done
  rm -rf $M
done
rm -rf $VC
