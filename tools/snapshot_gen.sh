#!/bin/sh
# Refresh coq/GenSnapshot/ (the model the translator produces for the UNCHANGED /repo).  Run after every
# commit to /repo or to tr/.  The snapshot is used only when the translator refuses a changed source (common.regen).
V=$(cd "$(dirname "$0")/.." && pwd)
cd $V && SYMMRAY_REPO=/repo /venv/bin/python - <<'PY'
import sys, os, importlib
sys.path[:0] = ['harness', 'tr']
import common
os.makedirs(common.SNAP, exist_ok=True)
for g in common.generators():
    for fname, text in importlib.import_module(g).generate_all('/repo').items():
        common.write_if_changed(os.path.join(common.SNAP, fname), text)
print(sorted(os.listdir(common.SNAP)))
PY
