#!/usr/bin/env python3
"""Regenerate /verif/MANIFEST.json from the table below (run after adding a check)."""
import json
import os

V = '/verif'
props = [json.loads(l) for l in open(os.path.join(V, 'properties.jsonl'))]

# id -> (claimed?, level text, technique, level_note)
T = {
 'C01': ('validity (wf_array / wf_fermi, bridged to the audited predicate Model.Valid) is preserved by every modelled operation — fuse with any groups, unfuse, '
         'einsum, contraction in every mode, the fermionic versions, and the decompositions qr/svd/eigh/solve/svd_truncated as instructions (C01c) — and, by '
         'induction, by every finite program; every array (and block vector) the implementation returns in random programs is judged by the Coq predicate (vm_compute)',
         'Coq invariant proof by induction over programs + vm_compute audit of implementation outputs by the Coq predicate'),
 'C02': ('blockwise_sem: for every symmetry, rank, table, sparsity and axes choice the block-sparse contraction equals the dense contraction in (charge, offset) '
         'coordinates and as to_dense(result) = tensordot(to_dense a, to_dense b); charge/index-table theorems, negative axes, matmul, trace, single-array einsum, '
         'scalar and no-aligned-blocks cases; fused = blockwise at value level via C06',
         'Coq refinement proof (block-sparse -> dense) over translated source (_tensordot_blockwise, drop_misaligned_sectors: Gen/BlockwiseGen.v proved Leibniz-equal to the model) + cases.v correspondence + numpy oracle on own dense embedding'),
 'C03': ('the GENERATED Koszul routine equals the odd-odd inversion parity for every permutation; value-level theorems for transpose / phase operations; '
         'contraction sign formula and element-level formula in all modes; matmul/trace/einsum values; independent dense graded reference as oracle',
         'Coq proof over translated source (Koszul routine, sign-table methods, label resolution and the contraction front end tensordot_fermionic/__matmul__: Gen/FtdotGen.v equal to the model) + correspondence + independent graded-tensor oracle'),
 'C04': ('translated label order is a strict total order; the phased sort terminates and returns the sorted merge with the inversion-parity sign; ARRAY level: '
         'operand swap = fermionic transpose of the result, axis re-listing, associativity of a chain in general position with ANY mode on all four contractions, '
         'several pairs in one call = one pair after the other (C04d)',
         'Coq proof over translated source (label order, Koszul routine, and resolve_combined_oddpos itself: Gen/OddposGen.v proved equal to the model) + correspondence + all-routes oracle with independent reference'),
 'C05': ('fused index tables exactly partition the fused charge (sorted, distinct, sizes, signed combination, direction of the first axis); layout and unfuse∘fuse '
         'round trip for ANY list of groups at value level (every original block bit-for-bit, extra blocks zero), for abelian AND fermionic arrays (C05h: the fuse and '
         'unfuse signs cancel); insert = concat strategy (Leibniz equality); generated calc_fuse_group_info and helpers equal the model',
         'Coq round-trip / invariant proofs over translated source (calc_fuse_group_info, calc_fuse_block_info, _fuse_blocks_via_insert, _fuse_blocks_via_concat, unfuse, unfuse_all: generated fuse/unfuse = the model, generated strategies agree) + cases.v correspondence + element-relocation oracle'),
 'C06': ('alignment drops only partner-less blocks; aligned operands get identical fused tables; fused = blockwise FULL (equal charge, indices and value at every '
         'coordinate), all modes agree; record equality refuted by example (fused stores extra zero blocks), so the statement is at value level',
         'Coq proof over translated source (_tensordot_via_fused, tensordot_abelian front end, fuse wrapper: Gen/FusedTdotGen.v equal to the model) + cases.v correspondence + strategy / pre-fusing oracle incl. exhaustive single-block removal'),
 'C07': ('faithful fuel-bounded model of calc_reshape_args; finite-domain theorem (all shapes with <=5 axes of sizes in {1,2,3,4,6}, all reachable targets) by '
         'vm_compute lifted with forallb_forall; unbounded: the routine GENERATED from the source equals the model, plan executor preserves norm and the multiset of '
         'entries, round trip for several merged runs and for dropped size-one axes; three pinned known findings refuted with witnesses',
         'Coq proof over translated source (calc_reshape_args: Gen/ReshapeGen.v proved equal to the model for all inputs) + finite-domain decision (bound in the statement) + unbounded array-level theorems + exhaustive correspondence + array round-trip oracle'),
 'C08': ('every listed structural / elementwise / arithmetic operation commutes with the coordinate semantics and with to_dense for every rank, table, symmetry and '
         'ring; raise conditions characterised; interface functions are plain forwarders (generated table)',
         'Coq refinement proofs over translated source (_binary_blockwise_op, apply_to_arrays and the dunder policy table: Gen/BinopGen.v equal to the model; interface forwarders) + cases.v correspondence + numpy oracle'),
 'C09': ('sync is idempotent and value-preserving; every phase/structural operation and every finite program of them gives equivalent results on a lazy array and its '
         'synchronised copy; tensordot/matmul/trace/fuse/unfuse/einsum, eigh/solve/qr/svd and the reductions item/sum/max/min/abs/clip/norm (C09c) are congruences; '
         'item reads the signed value exactly once; the pre-fix readers refuted',
         'Coq congruence proofs by induction over programs, sign-table methods translated from the source (Gen/PhasesGen.v equal to the model) + cases.v correspondence (strict sign tables, reductions) + lazy-vs-synced oracle'),
 'C10': ('conj∘conj, dagger∘dagger (exact law incl. the dual-leg option), adjoint = conjugate then reversal; NORM: conj(x)·x = Σ|x|² (both orders, general label lists); '
         'conj is an anti-homomorphism of tensordot; two-tensor and chain network norms',
         'Coq algebraic-law proofs + cases.v correspondence + integer norm oracle along random routes'),
 'C11': ('structure of qr/svd/eigh/solve (bond index, directions, charge identity, no overwrite, validity) and reconstruction at every coordinate incl. the fermionic '
         'versions, over LAPACK oracles stated as Section hypotheses; reconstruction / orthonormality / triangularity checked numerically on the implementation',
         'Coq proof over translated source (qr/svd/eigh/solve and fermionic wrappers: Gen/LinalgGen.v equal to the model for every oracle) with LAPACK contracts as hypotheses + structural correspondence with stub oracles + numerical oracle'),
 'C12': ('the block-sparse factors densify to a decomposition of the dense matrix given the per-block LAPACK contract (eigen / singular pairs, solve, norm); partial: '
         'uniqueness of spectra is not formalised; spectra compared with numpy on the dense matrix',
         'Coq proof over oracle contracts (partial) + numpy oracle on own dense embedding'),
 'C13': ('selection logic tied to the code: kept >= discarded, cutoff maximal and monotone (incl. above the total weight), bond limit with exact tie characterisation, '
         'no-cutoff distribution; truncated factors valid, absorb modes equal, truncated product = kept part of the SVD sum, residual = discarded part, error identity',
         'Coq proofs over translated source (selection region of svd_truncated, calc_sub_max_bonds, argsort: Gen/TruncGen.v equal to the model over exact rationals) + bit-exact correspondence with stubbed SVD + real-SVD oracle'),
 'C14': ('frame theorem for a heap language (scripts accepted by an ownership analysis leave every pre-existing dict/buffer unchanged), every operation script '
         'accepted, programs_frame by induction; inplace=True equals the out-of-place result; mutation sites regenerated from the source',
         'Coq frame proof over heap scripts + generated mutation-site scan + alias-graph correspondence'),
 'C15': ('LRU memo machine refines the function for every history/maxsize given key soundness; generated cache key determines everything the plan reads; mode context '
         'manager restores the mode for every body outcome (generated term); every interleaving returns f args and none raises (refuted for the pre-fix script)',
         'Coq refinement + interleaving proofs over generated key/context-manager terms + history correspondence + forced-schedule replay'),
 'C16': ('constructors agree (from_blocks / from_fill_fn / direct, charge inference), to_dense∘from_dense = projection, from_dense∘to_dense = identity; generated defaults '
         'and class symmetry table; construction routes compared on the implementation',
         'Coq round-trip proofs over translated source (constructors, charge inference, from_dense/to_dense: Gen/CtorAlgGen.v equal to the model; defaults) + correspondence + numpy projection oracle'),
 'C17': ('GroupLaws for the five symmetries on definitions regenerated from symmetries.py (all integers / all valid charges); sector enumeration exact '
         '(none missing, extra or repeated) for every symmetry with the laws, every rank',
         'Coq proof over translated source (group operations, gen_valid_sectors, is_valid_sector) + vm_compute correspondence'),
 'C18': ('the library algorithm for local operator elements equals the Jordan-Wigner vacuum expectation value (anticommutation, sort invariance, fuel sufficient); '
         'product formula with the basis sign on complete bases; generated builders Hermitian with parity-correct charge maps',
         'Coq proof over translated source (build_local_fermionic_elements: Gen/LocalAlgGen.v equal to the model; builder data) + independent Jordan-Wigner oracle'),
 'C19': ('coordination = degree for every edge list, factory specs, on-site totals, edge sums equal the lattice Hamiltonian as formal polynomials '
         '(Hubbard, spinless, TFIM), on definitions regenerated from hamiltonians.py; bond-name collision refuted (F15)',
         'Coq proof over translated source + correspondence + independent Jordan-Wigner oracle'),
 'C20': ('dtype tags are preserved by every modelled instruction and program under two named side conditions (full statement refuted with a witness = '
         'pinned known findings F13/F13b); numpy promotion table compared with the installed numpy on every run',
         'Coq invariant proof (partial, side conditions named) + dtype correspondence of every block of every result'),
}


def n_theorems(pid):
    import glob, re
    n = 0
    for f in glob.glob(os.path.join(V, 'coq', 'Props', pid + '*.v')):
        if re.fullmatch(pid + r'[a-z]?\.v', os.path.basename(f)):
            n += len(re.findall(r'^Theorem ', open(f).read(), flags=re.M))
    return n


claimed = set(a for a in os.environ.get('CLAIMED', '').split(',') if a)
NOTE = ('Trusted: Coq 8.16.1 kernel + VM (vm_compute in cases.v and finite-domain theorems), no axioms (Print Assumptions audited per run), '
        'tr/*.py translator, harness serialiser/generators, hand model tied by correspondence only, numpy kernels as Base/Tensor.v defines them; '
        'see evidence trusted_base and DESIGN.md section 5')

checks = []
for p in props:
    i = p['id']
    if i not in claimed:
        continue
    text, tech = T[i]
    text = 'Coq, %d theorems in coq/Props/%s*.v, all closed under the global context (no axioms): %s' % (n_theorems(i), i, text)
    checks.append({
        'property_id': i,
        'quick_cmd': './check %s --tier quick' % i,
        'thorough_cmd': './check %s --tier thorough' % i,
        'evidence_file': '/verif/evidence/%s.json' % i,
        'replay_cmd_template': './check %s --replay {path}' % i,
        'engine': 'coq',
        'level_claimed': {'category': 'proof', 'text': text, 'design_ref': 'DESIGN.md section 7, %s' % i},
        'level_note': NOTE,
        'technique': tech,
    })
hooks_commits = []
m = {
    'version': 1,
    'setup_cmd': './setup.sh',
    'hooks': {'guard': 'SYMMRAY_VERIF',
              'enable': 'no source hooks: checks import the working tree of /repo (or $SYMMRAY_REPO) directly; caches / mode globals / svd are reached by attribute access from the harness',
              'baseline_off_cmd': 'cd /repo && /venv/bin/python -m pytest -q -p no:cacheprovider',
              'source_commits': hooks_commits, 'add_only': True},
    'engines': [{'name': 'coq', 'path': '/verif/coq', 'serves_properties': sorted(claimed),
                 'kind_free_text': 'Coq 8.16.1 development (Base, Gen regenerated by tr/, Model, Proofs, Props) + Python correspondence harness (harness/) evaluating the model by vm_compute in generated cases.v files'}],
    'checks': checks,
    'notes': 'fix: commits in /repo and pinned findings are listed in known_findings.json and DESIGN.md section 0.2.',
    'not_applicable': [{'property_id': p['id'],
                        'reason': 'not claimed yet: the check exists or is under construction but Props/%s.v has no proved theorems at this commit (see DESIGN.md section 7)' % p['id']}
                       for p in props if p['id'] not in claimed],
}
json.dump(m, open(os.path.join(V, 'MANIFEST.json'), 'w'), indent=1)
print('claimed', sorted(claimed))
