#!/usr/bin/env python3
"""Regenerate /verif/MANIFEST.json from the table below (run after adding a check)."""
import json
import os

V = '/verif'
props = [json.loads(l) for l in open(os.path.join(V, 'properties.jsonl'))]

# id -> (claimed?, level text, technique, level_note)
T = {
 'C01': ('Coq: validity (wf_array / wf_fermi) is preserved by each modelled operation and, by induction, by every finite program over them '
         '(Props/C01.v); every array the implementation returns in random programs is judged by the Coq predicate Model.Valid (vm_compute)',
         'Coq invariant proof by induction over programs + vm_compute audit of implementation outputs'),
 'C02': ('Coq theorem blockwise_sem: for every symmetry, rank, table, sparsity and axes choice the blockwise contraction equals the dense '
         'contraction in (charge, offset) coordinates, + charge/index-table theorems, front end with negative axes, matmul; fused mode tied by '
         'correspondence and the dense numpy oracle',
         'Coq refinement proof (block-sparse -> dense) + cases.v correspondence + numpy oracle on own dense embedding'),
 'C03': ('Coq: the GENERATED Koszul routine equals the odd-odd inversion parity for every permutation; value-level theorems for transpose / '
         'phase operations / contraction sign formula on the fermionic model; model tied by correspondence; independent dense graded reference as oracle',
         'Coq proof over translated source + hand model correspondence + independent graded-tensor oracle'),
 'C04': ('Coq: translated label order is a strict total order, the phased sort terminates and returns the sorted merge with the inversion-parity '
         'sign, label-level associativity and operand swap laws, Koszul-sign algebra (K_trans, star_assoc, ...); routes compared on the implementation',
         'Coq proof over translated source (OpOrder, PhasePerm) + correspondence + route-comparison oracle'),
 'C05': ('Coq: the fused index tables exactly partition the fused charge (sorted, distinct, sizes, signed combination, direction of the first axis), '
         'range partition lemma, single-group fuse layout and unfuse∘fuse round trip at value level (every original block bit-for-bit, extra blocks zero); '
         'multi-group / nested / concat strategy by correspondence and the relocation oracle',
         'Coq round-trip / invariant proofs + cases.v correspondence + element-relocation oracle'),
 'C06': ('Coq: aligned operands contract to the same blocks as the originals, aligned operands get identical fused tables, fused = blockwise at value '
         'level (partial); strategies and pre-fusing routes compared on the implementation, model of the fused path tied by correspondence',
         'Coq proof (partial) + cases.v correspondence + strategy-agreement oracle'),
 'C07': ('Coq: faithful fuel-bounded model of calc_reshape_args; finite-domain theorem (all shapes with <=5 axes of sizes in {1,2,3,4,6}, all reachable '
         'targets) by vm_compute lifted with forallb_forall, unbounded same-shape and plan-executor lemmas; three pinned known findings excluded visibly',
         'Coq finite-domain decision (bound in the statement) + unbounded lemmas + exhaustive correspondence'),
 'C08': ('Coq: 26 theorems — every listed structural / arithmetic operation commutes with the coordinate semantics for every rank, table, symmetry and ring; '
         'raise conditions characterised (sub_none, squeeze_none); three entry points compared on the implementation',
         'Coq refinement proofs + cases.v correspondence + numpy oracle'),
 'C09': ('Coq: 33 theorems — sync is idempotent and value-preserving; every phase/structural operation and every finite program of them gives equivalent '
         'results on a lazy array and its synchronised copy; block-reading operations (tensordot, matmul, trace, fuse, unfuse, einsum) are congruences',
         'Coq congruence proofs by induction over programs + cases.v correspondence + lazy-vs-synced oracle'),
 'C10': ('Coq: conj∘conj, dagger∘dagger (exact law incl. the dual-leg option), adjoint = conjugate then fermionic reversal for both option values, '
         'bookkeeping; norms and network norms checked on the implementation with exact integer data along random routes',
         'Coq algebraic-law proofs + cases.v correspondence + integer norm oracle'),
 'C11': ('Coq: structure theorems of the decompositions over LAPACK oracles stated as Section hypotheses (bond index, directions, charge identity, validity, '
         'reconstruction at block level); reconstruction / orthonormality / triangularity checked numerically on the implementation',
         'Coq proof over oracle contracts (partial) + structural correspondence + numerical oracle'),
 'C12': ('Coq: the block-sparse factors densify to a decomposition of the dense matrix given the per-block LAPACK contract (partial: uniqueness of spectra '
         'is not formalised); spectra compared with numpy on the dense matrix',
         'Coq proof over oracle contracts (partial) + numpy oracle'),
 'C13': ('Coq: 13 unbounded theorems about the selection logic tied to the code (kept >= discarded, cutoff maximal and monotone, bond limit with exact tie '
         'characterisation, no-cutoff distribution); stubbed-SVD exact correspondence in all six modes',
         'Coq proofs over exact model + bit-exact correspondence with stubbed SVD + real-SVD oracle'),
 'C14': ('Coq: frame theorem for a heap language (scripts accepted by an ownership analysis leave every pre-existing dict/buffer unchanged), every operation '
         'script accepted, programs_frame by induction; mutation sites regenerated from the source; alias-graph correspondence',
         'Coq frame proof over heap scripts + generated mutation-site scan + alias-graph correspondence'),
 'C15': ('Coq: LRU memo machine refines the function for every history/maxsize given key soundness; generated cache key determines everything the plan reads; '
         'mode context manager restores the mode for every body outcome (on the generated term); every interleaving returns f args and none raises',
         'Coq refinement + interleaving proofs over generated key/context-manager terms + history correspondence + forced-schedule replay'),
 'C16': ('Coq: constructors agree (from_blocks / from_fill_fn / direct), dense round trip on the model; construction routes and defaults compared on the implementation',
         'Coq round-trip proofs (partial) + generated constructor defaults + correspondence'),
 'C17': ('Coq: GroupLaws for the five symmetries on definitions regenerated from symmetries.py (all integers / all valid charges); sector enumeration exact '
         '(none missing, extra or repeated) for every symmetry with the laws, every rank',
         'Coq proof over translated source + vm_compute correspondence'),
 'C18': ('Coq: the library algorithm for local operator elements equals the Jordan-Wigner vacuum expectation value (anticommutation, sort invariance); '
         'builders checked against an independent Fock-space construction',
         'Coq proof over hand model + generated builder data + independent Jordan-Wigner oracle'),
 'C19': ('Coq: coordination = degree for every edge list, factory specs, on-site totals, edge sums equal the lattice Hamiltonian as formal polynomials '
         '(Hubbard, spinless, TFIM), on definitions regenerated from hamiltonians.py',
         'Coq proof over translated source + correspondence + independent Jordan-Wigner oracle'),
 'C20': ('Coq: dtype tags are preserved by every modelled instruction and program under two named side conditions (full statement refuted with a witness = '
         'pinned known findings F13/F13b); numpy promotion table compared with the installed numpy on every run',
         'Coq invariant proof (partial, side conditions named) + dtype correspondence of every block of every result'),
}

claimed = set(a for a in os.environ.get('CLAIMED', '').split(',') if a)
NOTE = ('Trusted: Coq 8.16.1 kernel + VM (vm_compute in cases.v and finite-domain theorems), no axioms (Print Assumptions audited per run), '
        'tr/*.py translator, harness serialiser/generators, hand model tied by correspondence only, numpy kernels as Base/Tensor.v defines them; '
        'see evidence trusted_base and DESIGN.md section 5')

checks = []
for p in props:
    i = p['id']
    if i not in claimed:
        continue
    text, tech = T[i]
    checks.append({
        'property_id': i,
        'quick_cmd': './check %s --tier quick' % i,
        'thorough_cmd': './check %s --tier thorough' % i,
        'evidence_file': '/verif/evidence/%s.json' % i,
        'replay_cmd_template': './check %s --replay {path}' % i,
        'engine': 'coq',
        'level_claimed': {'category': 'proof', 'text': text, 'design_ref': 'DESIGN.md section 7, %s' % i},
        'level_note': NOTE,
        'technique': tech,
    })
hooks_commits = []
m = {
    'version': 1,
    'setup_cmd': './setup.sh',
    'hooks': {'guard': 'SYMMRAY_VERIF',
              'enable': 'no source hooks: checks import the working tree of /repo (or $SYMMRAY_REPO) directly; caches / mode globals / svd are reached by attribute access from the harness',
              'baseline_off_cmd': 'cd /repo && /venv/bin/python -m pytest -q -p no:cacheprovider',
              'source_commits': hooks_commits, 'add_only': True},
    'engines': [{'name': 'coq', 'path': '/verif/coq', 'serves_properties': sorted(claimed),
                 'kind_free_text': 'Coq 8.16.1 development (Base, Gen regenerated by tr/, Model, Proofs, Props) + Python correspondence harness (harness/) evaluating the model by vm_compute in generated cases.v files'}],
    'checks': checks,
    'notes': 'fix: commits in /repo and pinned findings are listed in known_findings.json and DESIGN.md section 8.',
    'not_applicable': [{'property_id': p['id'],
                        'reason': 'not claimed yet: the check exists or is under construction but Props/%s.v has no proved theorems at this commit (see DESIGN.md section 7)' % p['id']}
                       for p in props if p['id'] not in claimed],
}
json.dump(m, open(os.path.join(V, 'MANIFEST.json'), 'w'), indent=1)
print('claimed', sorted(claimed))
