#!/bin/sh
# every seeded change x every check: exit code, #VIOLATION lines, traceback?  -> seeded/CROSS.tsv
V=$(cd "$(dirname "$0")/.." && pwd)
OUT=$V/seeded/CROSS.tsv
echo "mutant	check	exit	violations	no_input	traceback" > $OUT
CHECKS=$(ls $V/harness/c[0-9][0-9].py | sed 's/.*\/c\([0-9][0-9]\).py/C\1/')
for D in $V/seeded/C*_*; do
  N=$(basename $D)
  M=/tmp/mrepo_x$$
  rm -rf $M; mkdir -p $M; git -C /repo archive HEAD | tar -x -C $M
  (cd $M && patch -p1 -s < $D/patch.diff) || { echo "$N	-	patchfail" >> $OUT; rm -rf $M; continue; }
  for c in $CHECKS; do
    L=/tmp/cross_$$.log
    (cd $V && SYMMRAY_REPO=$M timeout 1200 ./check $c > $L 2>&1); RC=$?
    echo "$N	$c	$RC	$(grep -c '^VIOLATION' $L)	$(grep -c 'no-failing-input-found' $L)	$(grep -c 'Traceback' $L)" >> $OUT
  done
  rm -rf $M
done
# and the clean tree
for c in $CHECKS; do
  L=/tmp/cross_$$.log
  (cd $V && timeout 1200 ./check $c > $L 2>&1); RC=$?
  echo "CLEAN	$c	$RC	$(grep -c '^VIOLATION' $L)	$(grep -c 'no-failing-input-found' $L)	$(grep -c 'Traceback' $L)" >> $OUT
done
rm -f /tmp/cross_$$.log
cat $OUT
