"""Run-time tie of Gen/UnfuseGen.v (tr/gen_unfuse.py: the GENERATED `AbelianArray.unfuse`) to the implementation
it was generated from.

For every case (sym, y, axis) — y a fused array the C05 harness produced, axis one of its fused axes — the
working tree's `y.unfuse(axis)` is called and the WHOLE record it returns (index list with every table, charge,
the blocks in dict insertion order, every element) is compared inside Coq (vm_compute) with
`gen_unfuse y axis false`; every other case also with `inplace=True` on a copy; once per fused array
`y.unfuse_all()` is compared in the same way with `gen_unfuse_all y`.  For an axis of y that carries
no sub-index information the implementation has to raise AttributeError exactly where the generated function
returns None.  So the translator itself is tested on every run: a translator bug shows as a disagreement,
never as a silently wrong theorem.

    tie(ctx, sr, cases) -> list of broken-tie strings      cases = [(sym, y, axis), ...]
"""
import os
import sys

sys.path.insert(0, os.path.dirname(os.path.abspath(__file__)))

import common  # noqa: E402
import gen  # noqa: E402

IMPORTS = 'From SV Require Import Base.Sym Base.Tensor Model.SymInst Model.Sectors Model.Array Gen.UnfuseGen.\n'
PREAMBLE = '''Definition aarray_eqb_strict (G : Symmetry) (R : Ring) (a b : aarray G R) : bool :=
  list_eqb (index_eqb G) (indices G R a) (indices G R b) && ceqb G (charge G R a) (charge G R b) &&
  blocks_eqb_strict G R (blocks G R a) (blocks G R b).
Definition unfuse_agrees (G : Symmetry) (R : Ring) (y : aarray G R) (axis : Z) (inplace : bool) (z : aarray G R) : bool :=
  match gen_unfuse G R y axis inplace with Some c => aarray_eqb_strict G R c z | None => false end.
Definition unfuse_all_agrees (G : Symmetry) (R : Ring) (y : aarray G R) (inplace : bool) (z : aarray G R) : bool :=
  aarray_eqb_strict G R (gen_unfuse_all G R y inplace) z.
Definition unfuse_refuses (G : Symmetry) (R : Ring) (y : aarray G R) (axis : Z) : bool :=
  match gen_unfuse G R y axis false with Some _ => false | None => true end.
'''


def tie(ctx, sr, cases, name='unfusegen', shard=40, limit=None):
    broken, exprs, meta = [], [], []
    seen_all = set()
    stats = {'unfuse_cases': 0, 'inplace_cases': 0, 'unfuse_all_cases': 0, 'refused_cases': 0, 'nested': 0, 'multi_piece_blocks': 0, 'complex': 0}
    if not os.path.exists(os.path.join(common.COQ, 'Gen', 'UnfuseGen.vo')):
        ctx.extra['tie_unfusegen'] = {'skipped': 'Gen/UnfuseGen.vo is not built'}
        return ['Gen/UnfuseGen.v (generated AbelianArray.unfuse) is not available: its run-time tie was not evaluated']
    if limit is None:
        limit = 400 if ctx.thorough else 160
    for n, (sym, y, axis) in enumerate(cases):
        if len(exprs) >= limit:
            break
        if not y.blocks:
            continue
        what = 'symmetry %s, axis %d, stored sectors %s' % (sym, axis, list(y.blocks))
        ring = gen.ring_of(y)
        A = '%s %s' % (sym, ring)
        try:
            Y = gen.garray(y, sym, ring)
        except Exception as e:
            broken.append('a fused array cannot be serialised (%s): %s: %s' % (what, type(e).__name__, e))
            continue
        try:
            z = y.unfuse(axis)
            if gen.ring_of(z) != ring:
                raise ValueError('element type changed')
            exprs.append('unfuse_agrees %s %s %s false %s' % (A, Y, gen.gnum(axis), gen.garray(z, sym, ring)))
            meta.append(('unfuse(%d)' % axis, what))
            stats['unfuse_cases'] += 1
            stats['nested'] += any(ix.subinfo is not None for ix in z.indices)
            stats['multi_piece_blocks'] += len(z.blocks) > len(y.blocks)
            stats['complex'] += ring == 'GRing'
            if n % 2 == 0:
                y2 = y.copy()
                z2 = y2.unfuse(axis, inplace=True)
                exprs.append('unfuse_agrees %s %s %s true %s' % (A, Y, gen.gnum(axis), gen.garray(z2, sym, ring)))
                meta.append(('unfuse(%d, inplace=True)' % axis, what))
                stats['inplace_cases'] += 1
        except Exception as e:
            broken.append('unfuse(%d) raised / is not serialisable where the generated function returns an array (%s): %s: %s'
                          % (axis, what, type(e).__name__, e))
            continue
        # unfuse_all of the same fused array (once per array): the GENERATED unfuse_all, whole record
        if id(y) not in seen_all:
            seen_all.add(id(y))
            try:
                inpl = len(seen_all) % 2 == 0
                za = y.copy().unfuse_all(inplace=True) if inpl else y.unfuse_all()
                exprs.append('unfuse_all_agrees %s %s %s %s' % (A, Y, 'true' if inpl else 'false', gen.garray(za, sym, ring)))
                meta.append(('unfuse_all(inplace=%s)' % inpl, what))
                stats['unfuse_all_cases'] += 1
            except Exception as e:
                broken.append('unfuse_all raised / is not serialisable (%s): %s: %s' % (what, type(e).__name__, e))
        # an axis without sub-index information: AttributeError <-> None
        plain = [ax for ax in range(y.ndim) if y.indices[ax].subinfo is None]
        if plain and n % 3 == 0:
            ax = plain[n % len(plain)]
            try:
                y.unfuse(ax)
                broken.append('unfuse(%d) of an axis without sub-index information returns a value (%s)' % (ax, what))
            except AttributeError:
                exprs.append('unfuse_refuses %s %s %s' % (A, Y, gen.gnum(ax)))
                meta.append(('unfuse(%d) of an unfused axis (AttributeError)' % ax, what))
                stats['refused_cases'] += 1
            except Exception as e:
                broken.append('unfuse(%d) of an axis without sub-index information raises %s, not AttributeError (%s)'
                              % (ax, type(e).__name__, what))
    ctx.count(len(exprs))
    bad = common.run_cases(ctx, name, IMPORTS, PREAMBLE, exprs, shard=shard)
    if bad is None:
        broken.append('cases.v (Gen.UnfuseGen vs AbelianArray.unfuse) did not evaluate')
    else:
        broken += ['Gen.UnfuseGen: the generated function disagrees with the implementation: %s (%s)' % meta[i] for i in bad[:10]]
        stats['disagreements'] = len(bad)
        if bad:
            ctx.extra['unfusegen_disagreeing_cases'] = [exprs[i][:3000] for i in bad[:2]]
    ctx.extra['tie_unfusegen'] = stats
    return broken


def main(argv):
    n = int(argv[1]) if len(argv) > 1 else 120
    seed = int(argv[2]) if len(argv) > 2 else 0
    os.environ.setdefault('PYTHONHASHSEED', '0')
    sys.path.insert(0, common.REPO)
    import symmray as sr
    import tie_concat
    ctx = common.Ctx('C05', 'quick', seed)
    ctx.rng.seed(seed * 7919 + 13)
    cases = []
    for sym, x, groups in tie_concat.make_cases(ctx.rng, sr, n):
        groups = [tuple(g) for g in groups if len(g)]
        if not groups or not x.blocks:
            continue
        y = x.fuse(*groups)
        pos = min(min(g) for g in groups)
        for g in range(len(groups)):
            if len(groups[g]) > 1:
                cases.append((sym, y, pos + g))
    broken = tie(ctx, sr, cases, name='unfusegen_selftest', limit=n)
    print('tie_unfusegen self-test: implementation %s' % os.path.dirname(sr.__file__))
    print('stats: %s' % ctx.extra.get('tie_unfusegen'))
    for b in broken:
        print('BROKEN-TIE: ' + b)
    for e in ctx.extra.get('cases_errors', []):
        print('CASES-ERROR: ' + e)
    return 1 if broken else 0


if __name__ == '__main__':
    sys.exit(main(sys.argv))
