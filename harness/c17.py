"""C17 — charges form an abelian group with parity; sector enumeration is exact."""
import itertools
import json

import common
from common import gz, gbool, glist, gcharge
import refsym

IMPORTS = 'From SV Require Import Base.Sym Gen.Symmetries Model.SymInst Model.Sectors.\n'
IMPORTS_GEN = 'From SV Require Import Base.Sym Gen.Symmetries Model.SymInst Model.Sectors Gen.SectorsGen.\n'


def ceq(n):
    return '(pair_eqb Z.eqb Z.eqb)' if refsym.IS_PAIR[n] else 'Z.eqb'


def probe_values(n):
    """charges (valid and invalid) used for the translator tie"""
    if refsym.IS_PAIR[n]:
        r = range(-2, 5)
        return [(a, b) for a in r for b in r]
    return list(range(-7, 8))


def law_search(ctx, sr, names, budget):
    """Search the implementation for a concrete violation of a group law."""
    rng = ctx.rng
    found = []
    for n in names:
        S = sr.get_symmetry(n)
        U = [c for c in refsym.universe(n) if S.valid(c)]
        ref_valid = [c for c in refsym.universe(n)]
        # validity must accept exactly the group's labels inside the box
        for c in ref_valid:
            ctx.count()
            if not S.valid(c):
                found.append({'symmetry': n, 'law': 'valid', 'a': c, 'detail': 'a group element is rejected by valid()'})
        e = S.combine()

        def chk(law, ok, **kw):
            ctx.count()
            if kw.get('a') != refsym.zero(n):
                ctx.nontrivial((n, law, str(kw)))
            if not ok:
                found.append({'symmetry': n, 'law': law, **kw})

        for a in U:
            chk('identity', S.combine(a, e) == a and S.combine(a) == a, a=a)
            chk('sign_false', S.sign(a, False) == a, a=a)
            inv = S.sign(a, True)
            chk('inverse_valid', bool(S.valid(inv)), a=a, got=inv)
            chk('inverse', S.combine(a, inv) == e, a=a, inv=inv)
            chk('default_dual', S.sign(a) == inv, a=a)
            chk('parity_range', S.parity(a) in (0, 1), a=a)
        pairs = list(itertools.product(U, U))
        if len(pairs) > budget:
            pairs = rng.sample(pairs, budget)
        for a, b in pairs:
            ab = S.combine(a, b)
            chk('commutative', ab == S.combine(b, a), a=a, b=b)
            chk('closed', bool(S.valid(ab)), a=a, b=b, got=ab)
            chk('parity_hom', S.parity(ab) == (S.parity(a) + S.parity(b)) % 2, a=a, b=b)
        triples = [tuple(rng.choice(U) for _ in range(3)) for _ in range(budget)] if len(U) ** 3 > budget \
            else list(itertools.product(U, U, U))
        for a, b, c in triples:
            l = S.combine(S.combine(a, b), c)
            r = S.combine(a, S.combine(b, c))
            chk('associative', l == r == S.combine(a, b, c), a=a, b=b, c=c)
        ctx.sample({'symmetry': n, 'law': 'associative', 'a': U[-1], 'b': U[0], 'c': U[len(U) // 2]}, cap=3)
    return found


def sector_cases(ctx, names):
    """(symmetry, charges per index, duals, total charge) — exhaustive over small
    structures, per the property's quantifier."""
    small = {'Z2': [0, 1], 'Z4': [0, 1, 3], 'U1': [-1, 0, 2], 'Z2Z2': [(0, 0), (0, 1), (1, 1)],
             'U1U1': [(0, 0), (1, -1), (0, 1)]}
    totals = {'Z2': [0, 1], 'Z4': [0, 1, 2, 3], 'U1': [-2, -1, 0, 1, 3], 'Z2Z2': refsym.universe('Z2Z2'),
              'U1U1': [(0, 0), (1, 0), (-1, 1), (1, 1)]}
    out = []
    maxnd = 4
    for n in names:
        subsets = []
        base = small[n]
        for r in range(1, len(base) + 1):
            subsets += [list(s) for s in itertools.combinations(base, r)]
        for nd in range(0, maxnd + 1):
            tables = list(itertools.product(subsets, repeat=nd))
            dualss = list(itertools.product([False, True], repeat=nd))
            allc = [(n, list(t), list(d), q) for t in tables for d in dualss for q in totals[n]]
            cap = 4000 if ctx.thorough else 250
            if len(allc) > cap:
                allc = ctx.rng.sample(allc, cap)
            out += allc
    return out


def run(ctx):
    import symmray as sr
    from symmray import AbelianArray, BlockIndex
    names = list(refsym.NAMES)
    ok = common.standard_proof_phase(ctx)

    # ---- tie 1: generated definitions vs the Python methods (translator self-test)
    exprs, meta = [], []
    for n in names:
        S = sr.get_symmetry(n)
        vals = probe_values(n)
        valid_vals = [v for v in vals if refsym.is_valid(n, v)]
        for v in vals:
            exprs.append('Bool.eqb (%s_valid [%s]) %s' % (n, gcharge(v), gbool(bool(S.valid(v)))))
            meta.append((n, 'valid', v))
        for v in valid_vals:
            for d in (False, True):
                exprs.append('%s (%s_sign %s %s) %s' % (ceq(n), n, gcharge(v), gbool(d), gcharge(S.sign(v, d))))
                meta.append((n, 'sign', (v, d)))
            exprs.append('Z.eqb (%s_parity %s) %s' % (n, gcharge(v), gz(S.parity(v))))
            meta.append((n, 'parity', v))
        lists = [[]] + [[a] for a in valid_vals]
        lists += [list(t) for t in itertools.islice(itertools.product(valid_vals, repeat=2), 0, None, 7)]
        lists += [[ctx.rng.choice(valid_vals) for _ in range(ctx.rng.randint(3, 5))] for _ in range(60)]
        for l in lists:
            exprs.append('%s (%s_combine %s) %s' % (ceq(n), n, glist([gcharge(c) for c in l]), gcharge(S.combine(*l))))
            meta.append((n, 'combine', l))
    reg_ok = all(sr.get_symmetry(n).__class__.__name__ == n for n in names)
    ctx.count(len(exprs))
    bad = common.run_cases(ctx, 'gen', IMPORTS, '', exprs)
    tie_broken = []
    if bad is None:
        tie_broken.append('cases.v (generated definitions vs Python) did not evaluate')
    elif bad:
        tie_broken += ['Gen.%s_%s disagrees with Python on %r' % meta[i] for i in bad[:10]]
    if not reg_ok:
        tie_broken.append('get_symmetry registry maps a name to a different class')

    # ---- enumeration after the index tables changed through the library (sync_charges drops the charges no stored block uses; conj):
    #      still exactly the sectors of the CURRENT tables
    import gen as _gen
    import symmray as _sr
    n_sync = 0
    for k in range(300 if ctx.thorough else 60):
        n = names[k % len(names)] if names else 'U1'
        if n not in ('Z2', 'U1', 'Z2Z2', 'U1U1', 'Z4'):
            continue
        try:
            x = _gen.rand_array(ctx.rng, _sr, n, ndim=ctx.rng.randint(2, 3), keep=ctx.rng.choice([0.3, 0.5, 0.7]), maxsize=2, static=False)
            if not x.blocks:
                continue
            list(x.gen_valid_sectors())            # (whatever reading the tables now leaves behind)
            for nm, y in (('sync_charges', x.sync_charges()), ('sync_charges then conj', x.sync_charges().conj())):
                ctx.count(); n_sync += 1
                tabs = [sorted(ix.chargemap) for ix in y.indices]
                want = refsym.valid_sectors(n, tabs, [ix.dual for ix in y.indices], y.charge)
                got = list(y.gen_valid_sectors())
                if sorted(got) != sorted(want):
                    ctx.violation('gen_valid_sectors after %s differs from the sectors of the current index tables' % nm,
                                  {'oracle': 'brute force over the current tables', 'symmetry': n, 'tables': [[str(c) for c in t] for t in tabs],
                                   'duals': [bool(ix.dual) for ix in y.indices], 'charge': str(y.charge),
                                   'gen_valid_sectors': [str(s_) for s_ in got], 'brute_force': [str(s_) for s_ in want]})
                if any(len(a.chargemap) < len(b.chargemap) for a, b in zip(y.indices, x.indices)):
                    ctx.nontrivial(('after-sync', n, str(tabs), str(y.charge)))
        except (ValueError, KeyError, IndexError) as e:
            ctx.note('sync stream: %s: %s' % (type(e).__name__, e))
    ctx.extra['enumerations_after_sync_charges'] = n_sync
    # ---- tie 2: hand model of is_valid_sector / gen_valid_sectors vs the implementation
    cases = sector_cases(ctx, names)
    exprs2, meta2, impl_bad = [], [], []
    n_probes = 0
    exprs3, meta3, exprs4, meta4 = [], [], [], []     # tie 3: the functions GENERATED from the two methods
    for (n, tables, duals, q) in cases:
        ixs = [BlockIndex({c: 1 for c in t}, dual=d) for t, d in zip(tables, duals)]
        x = AbelianArray(indices=ixs, charge=q, symmetry=n)
        want = refsym.valid_sectors(n, [sorted(t) for t in tables], duals, q)
        # what the generated functions take: the array as the implementation stores it (slots), not as we built it
        g_ixs = glist(['(%s, %s)' % (glist([gcharge(c) for c in ix._chargemap.keys()]), gbool(ix._dual))
                       for ix in x._indices])
        g_q = gcharge(x._charge)
        try:
            got = list(x.gen_valid_sectors())
        except Exception as e:      # the generator raised: the generated function must say None
            ctx.count()
            impl_bad.append({'symmetry': n, 'charges': tables, 'duals': duals, 'charge': q,
                             'gen_valid_sectors': 'raised %r' % (e,), 'brute_force': want})
            exprs3.append('match gen_valid_sectors_gen %s %s %s with None => true | Some _ => false end' % (n, g_ixs, g_q))
            meta3.append((n, tables, duals, q))
            continue
        ctx.count()
        nontriv = len(tables) >= 2 and any(len(t) >= 2 for t in tables)
        if nontriv:
            ctx.nontrivial((n, str(tables), str(duals), str(q)))
        # oracle: exactness against brute force (none missing / extra / repeated)
        if sorted(got) != sorted(want):
            impl_bad.append({'symmetry': n, 'charges': tables, 'duals': duals, 'charge': q,
                             'gen_valid_sectors': got, 'brute_force': want})
        else:
            for s in itertools.islice(itertools.product(*[sorted(t) for t in tables]), 0, 40):
                if bool(x.is_valid_sector(s)) != (tuple(s) in set(want)):
                    impl_bad.append({'symmetry': n, 'charges': tables, 'duals': duals, 'charge': q,
                                     'sector': s, 'is_valid_sector': bool(x.is_valid_sector(s))})
                    break
        cty = ceq(n)
        exprs2.append('list_eqb (list_eqb %s) (gen_valid_sectors %s %s %s %s) %s' % (
            cty, n, glist([glist([gcharge(c) for c in sorted(t)]) for t in tables]),
            glist([gbool(d) for d in duals]), gcharge(q),
            glist([glist([gcharge(c) for c in s]) for s in got])))
        meta2.append((n, tables, duals, q))
        # generated gen_valid_sectors: the same list in the same ORDER, and no exception
        exprs3.append('match gen_valid_sectors_gen %s %s %s with Some l => list_eqb (list_eqb %s) l %s | None => false end' % (
            n, g_ixs, g_q, cty, glist([glist([gcharge(c) for c in s]) for s in got])))
        meta3.append((n, tables, duals, q))
        # is_valid_sector (generated and hand model) on tuples of available charges and, zip truncating in the
        # implementation as in the models, on one tuple that is too short and one that is too long
        probes = list(itertools.islice(itertools.product(*[sorted(t) for t in tables]), 0, 24))
        if probes and probes[-1]:
            probes += [probes[-1][:-1], probes[0] + (probes[0][0],)]
        try:
            answers = [bool(x.is_valid_sector(s)) for s in probes]
        except Exception:
            answers = None
        if answers is not None:
            pairs = glist(['(%s, %s)' % (glist([gcharge(c) for c in s]), gbool(b)) for s, b in zip(probes, answers)])
            exprs4.append("forallb (fun '(s, b) => Bool.eqb (is_valid_sector_gen %s %s %s s) b "
                          "&& Bool.eqb (is_valid_sector %s %s %s s) b) %s" % (
                              n, g_ixs, g_q, n, glist([gbool(d) for d in duals]), gcharge(q), pairs))
            meta4.append((n, tables, duals, q))
            ctx.count(len(probes))
            n_probes += len(probes)
    ctx.sample({'symmetry': cases[-1][0], 'charges': cases[-1][1], 'duals': cases[-1][2], 'charge': cases[-1][3]})
    bad2 = common.run_cases(ctx, 'sectors', IMPORTS, '', exprs2)
    if bad2 is None:
        tie_broken.append('cases.v (sector enumeration model vs implementation) did not evaluate')
    elif bad2:
        tie_broken += ['Model.gen_valid_sectors disagrees with the implementation on %r' % (meta2[i],) for i in bad2[:10]]

    # ---- tie 3: the functions generated by tr/gen_sectors.py from the two methods vs the methods themselves
    bad3 = common.run_cases(ctx, 'sectorsgen', IMPORTS_GEN, '', exprs3)
    if bad3 is None:
        tie_broken.append('cases.v (generated gen_valid_sectors vs implementation) did not evaluate')
    elif bad3:
        tie_broken += ['Gen.gen_valid_sectors_gen disagrees with list(x.gen_valid_sectors()) on %r' % (meta3[i],)
                       for i in bad3[:10]]
    bad4 = common.run_cases(ctx, 'validgen', IMPORTS_GEN, '', exprs4)
    if bad4 is None:
        tie_broken.append('cases.v (is_valid_sector, generated and model, vs implementation) did not evaluate')
    elif bad4:
        tie_broken += ['Gen.is_valid_sector_gen / Model.is_valid_sector disagrees with x.is_valid_sector on an array %r'
                       % (meta4[i],) for i in bad4[:10]]

    # ---- search / oracle on the implementation
    found = law_search(ctx, sr, names, 4000 if ctx.thorough else 600)
    for f in found[:5]:
        ctx.violation('group law %s fails for %s' % (f['law'], f['symmetry']), {'oracle': 'group_law', **f})
    for f in impl_bad[:5]:
        ctx.violation('sector enumeration is not exact', {'oracle': 'sector_enumeration', **f})
    ctx.broken += tie_broken
    if (not ok or tie_broken) and not (found or impl_bad):
        ctx.violation('proof obligation or tie of C17 no longer checks', {'broken': ctx.broken}, found_input=False)
    ctx.coverage['rule'] = ('group laws: exhaustive over the finite groups and the box [-6,6] (pairs/triples sampled when above budget); '
                            'sector enumeration: all arrays with <=4 indices over every non-empty subset of a 3-charge set, every dualness '
                            'pattern and total charge (sampled per rank in quick); non-trivial = a law instance with a non-identity first '
                            'argument, or an enumeration with >=2 indices one of which has >=2 charges; distinct by full input')
    ctx.extra['tie'] = {'generated_definition_cases': len(exprs), 'sector_model_cases': len(exprs2),
                        'generated_gen_valid_sectors_cases': len(exprs3),
                        'is_valid_sector_arrays': len(exprs4), 'is_valid_sector_sectors': n_probes}


def replay(path):
    import symmray as sr
    from symmray import AbelianArray, BlockIndex
    r = json.load(open(path))
    print(json.dumps(r, indent=1))
    if r.get('oracle') == 'sector_enumeration':
        tup = lambda c: tuple(c) if isinstance(c, list) else c
        ixs = [BlockIndex({tup(c): 1 for c in t}, dual=d) for t, d in zip(r['charges'], r['duals'])]
        x = AbelianArray(indices=ixs, charge=tup(r['charge']), symmetry=r['symmetry'])
        got = sorted(x.gen_valid_sectors())
        want = sorted(refsym.valid_sectors(r['symmetry'], [sorted(map(tup, t)) for t in r['charges']], r['duals'], tup(r['charge'])))
        print('implementation:', got, '\nbrute force   :', want)
        return 0 if got == want else 1
    return 0
