"""Tie of Base/Tensor.v (the assumed semantics of the numpy kernels) to numpy itself:
each primitive is evaluated by vm_compute on random small integer tensors and
compared with what numpy returns."""
import numpy as np

import common
import gen

IMPORTS = 'From SV Require Import Base.Tensor.\n'


def rt(rng, nd=None, maxd=3, cplx=False):
    nd = rng.randint(0, 3) if nd is None else nd
    shape = tuple(rng.randint(1, maxd) for _ in range(nd))
    return gen.rand_data(rng, shape, cplx, -3, 3)


def tie(ctx, n=60):
    rng = ctx.rng
    exprs, meta = [], []

    def add(name, model, result, ring):
        exprs.append('tensor_eqb %s (%s) %s' % (ring, model, gen.gtensor(result, ring)))
        meta.append(name)

    for k in range(n):
        cplx = rng.random() < 0.3
        ring = 'GRing' if cplx else 'ZRing'
        a = rt(rng, rng.randint(1, 3), cplx=cplx)
        A = gen.gtensor(a, ring)
        perm = list(range(a.ndim)); rng.shuffle(perm)
        add('transpose', 'ttranspose %s %s %s' % (ring, A, gen.gnatlist(perm)), np.transpose(a, perm), ring)
        add('conj', 'tconj %s %s' % (ring, A), np.conj(a), ring)
        flat = (int(np.prod(a.shape)),)
        add('reshape', 'treshape %s %s %s' % (ring, A, gen.gnatlist(flat)), a.reshape(flat), ring)
        ax = rng.randrange(a.ndim)
        st = rng.randrange(a.shape[ax]); ln = rng.randint(1, a.shape[ax] - st)
        sl = [slice(None)] * a.ndim; sl[ax] = slice(st, st + ln)
        add('slice', 'tslice %s %s %d%%nat %d%%nat %d%%nat' % (ring, A, ax, st, ln), a[tuple(sl)], ring)
        # concatenate two tensors along ax
        b = gen.rand_data(rng, tuple(d if i != ax else rng.randint(1, 2) for i, d in enumerate(a.shape)), cplx, -3, 3)
        add('concatenate', 'tconcat %s [%s; %s] %d%%nat' % (ring, A, gen.gtensor(b, ring), ax), np.concatenate((a, b), axis=ax), ring)
        # slice assignment into zeros
        big = tuple(d + rng.randint(0, 2) for d in a.shape)
        starts = [rng.randint(0, bd - d) for bd, d in zip(big, a.shape)]
        z = np.zeros(big, dtype=a.dtype)
        z[tuple(slice(s, s + d) for s, d in zip(starts, a.shape))] = a
        sel = '[' + '; '.join('(%d%%nat, %d%%nat)' % (s, d) for s, d in zip(starts, a.shape)) + ']'
        add('assign', 'tassign %s (tzeros %s %s) %s %s' % (ring, ring, gen.gnatlist(big), sel, A), z, ring)
        # tensordot over a random subset of axes
        ncon = rng.randint(0, a.ndim)
        axa = rng.sample(range(a.ndim), ncon)
        nb = rng.randint(ncon, ncon + 2)
        axb = rng.sample(range(nb), ncon)
        shb = [rng.randint(1, 2) for _ in range(nb)]
        for i, j in zip(axa, axb):
            shb[j] = a.shape[i]
        bb = gen.rand_data(rng, tuple(shb), cplx, -2, 2)
        add('tensordot', 'ttensordot %s %s %s %s %s' % (ring, A, gen.gtensor(bb, ring), gen.gnatlist(axa), gen.gnatlist(axb)),
            np.tensordot(a, bb, axes=(axa, axb)), ring)
        if a.ndim == 2:
            exprs.append('reqb %s (ttrace %s %s) (get %s %s [])' % (ring, ring, A, ring, gen.gtensor(np.asarray(np.trace(a)), ring)))
            meta.append('trace')
        add('add', 'tadd %s %s %s' % (ring, A, A), a + a, ring)
        add('mul', 'tmul %s %s %s' % (ring, A, A), a * a, ring)
    ctx.count(len(exprs))
    bad = common.run_cases(ctx, 'prims', IMPORTS, '', exprs, shard=200)
    if bad is None:
        return ['cases.v (Base/Tensor.v primitives vs numpy) did not evaluate']
    return ['Base.Tensor.%s disagrees with numpy' % meta[i] for i in bad[:8]]
