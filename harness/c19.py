"""C19 — edge-wise Hamiltonians add up to the lattice Hamiltonian, each term once.

Tie: translator (Gen/Ham.v, theorems re-checked on every run) + correspondence:
the arguments every edge passes to the local builders, the evaluated term
lists, and the site info are compared with the Coq model (cases.v).
Oracles on the implementation alone (independent of the code under test):
  args      — what each edge must pass (bond coefficient in either orientation,
              site coefficients, degrees computed from the graph by the harness);
  exact_sum — the term lists the local builders really build (captured, exact
              Fractions) embedded with the harness' own Jordan-Wigner engine and
              summed over edges == the lattice Hamiltonian built directly;
  dense_sum — the same starting from `to_dense()` of the returned arrays;
  site_info — one name per bond, shared by exactly its two ends, directions
              0 (smaller end) / 1 (larger end), coordination = degree.
"""
import itertools
import json
import math
from fractions import Fraction as F

import common
from common import gz, glist

IMPORTS = 'From SV Require Import Model.HamBase Gen.Ham Model.Ham.\n'

# ---------------------------------------------------------------- labels / literals
LABELINGS = {
    'int': lambda i: i,
    'int_scrambled': lambda i: [3, -1, 10, 0, 7, 2][i],
    'tuple': lambda i: [(0, 0), (0, 1), (1, 0), (1, 1), (2, 0), (-1, 2)][i],
    'str': lambda i: 'abcdef'[i],
    'str_multi': lambda i: ['s10', 's2', 'x', 's1', 'ab', 'a'][i],
}


def enc(l):
    if isinstance(l, bool):
        raise TypeError(l)
    if isinstance(l, int):
        return [l]
    if isinstance(l, (tuple, list)):
        return [int(x) for x in l]
    return [ord(c) for c in l]


def glbl(l):
    return glist([gz(x) for x in enc(l)])


def gq(x):
    x = F(x)
    return '((%d) # %d)%%Q' % (x.numerator, x.denominator)


def gedge(e):
    return '(%s, %s)' % (glbl(e[0]), glbl(e[1]))


def jl(l):
    """label -> JSON value"""
    return list(l) if isinstance(l, tuple) else l


def unjl(kind, v):
    return tuple(v) if kind == 'tuple' else v


# ---------------------------------------------------------------- coefficient specs
def edge_coef(form, edges, base, step):
    """spec of an edge coefficient; values are distinct per bond and per orientation"""
    vals = {}
    for k, (a, b) in enumerate(edges):
        vals[(a, b)] = F(base + step * k, 2)
        vals[(b, a)] = F(-(base + step * k) - 1, 3)
    if form == 'scalar':
        return {'form': 'scalar', 'value': F(base, 2)}
    if form == 'callable':
        return {'form': 'callable', 'items': dict(vals)}
    items = {}
    for k, (a, b) in enumerate(edges):
        if form == 'dict_same':
            items[(a, b)] = vals[(a, b)]
        elif form == 'dict_rev':
            items[(b, a)] = vals[(b, a)]
        elif form == 'dict_mixed':
            key = (a, b) if k % 2 else (b, a)
            items[key] = vals[key]
        elif form == 'dict_both':
            items[(a, b)] = vals[(a, b)]
            if a != b:
                items[(b, a)] = vals[(b, a)]
        elif form == 'dict_missing':
            if k != len(edges) - 1:
                items[(b, a)] = vals[(b, a)]
        else:
            raise ValueError(form)
    return {'form': 'dict', 'items': items}


def node_coef(form, sites, base, step):
    vals = {s: F(base + step * k, 3) for k, s in enumerate(sites)}
    if form == 'scalar':
        return {'form': 'scalar', 'value': F(base, 3)}
    if form == 'callable':
        return {'form': 'callable', 'items': vals}
    if form == 'dict':
        return {'form': 'dict', 'items': vals}
    if form == 'dict_missing':
        return {'form': 'dict', 'items': {s: v for s, v in list(vals.items())[1:]}}
    raise ValueError(form)


def py_coef(spec, arity):
    if spec['form'] == 'scalar':
        return spec['value']
    if spec['form'] == 'dict':
        return dict(spec['items'])
    tab = dict(spec['items'])
    if arity == 2:
        return lambda a, b: tab[(a, b)]
    return lambda a: tab[a]


def spec_edge_value(spec, a, b):
    """the coefficient the PROPERTY prescribes for the bond listed as (a, b)"""
    if spec['form'] == 'scalar':
        return spec['value']
    it = spec['items']
    if spec['form'] == 'callable':
        return it[(a, b)]
    if (a, b) in it:
        return it[(a, b)]
    return it[(b, a)]          # KeyError = the call is expected to raise


def spec_node_value(spec, v):
    if spec['form'] == 'scalar':
        return spec['value']
    return spec['items'][v]


def g_edge_coef(spec):
    if spec['form'] == 'scalar':
        return '(EScalar %s)' % gq(spec['value'])
    tab = glist(['(%s, %s)' % (gedge(k), gq(v)) for k, v in spec['items'].items()])
    return ('(EDict %s)' if spec['form'] == 'dict' else '(efun_of %s)') % tab


def g_node_coef(spec):
    if spec['form'] == 'scalar':
        return '(NScalar %s)' % gq(spec['value'])
    tab = glist(['(%s, %s)' % (glbl(k), gq(v)) for k, v in spec['items'].items()])
    return ('(NDict %s)' if spec['form'] == 'dict' else '(nfun_of %s)') % tab


def coef_json(spec, arity):
    if spec['form'] == 'scalar':
        return {'form': 'scalar', 'value': str(spec['value'])}
    if arity == 2:
        return {'form': spec['form'], 'items': [[[jl(k[0]), jl(k[1])], str(v)] for k, v in spec['items'].items()]}
    return {'form': spec['form'], 'items': [[jl(k), str(v)] for k, v in spec['items'].items()]}


def coef_unjson(kind, j, arity):
    if j['form'] == 'scalar':
        return {'form': 'scalar', 'value': F(j['value'])}
    if arity == 2:
        return {'form': j['form'], 'items': {(unjl(kind, k[0]), unjl(kind, k[1])): F(v) for k, v in j['items']}}
    return {'form': j['form'], 'items': {unjl(kind, k): F(v) for k, v in j['items']}}


# ---------------------------------------------------------------- cases
MODELS = {
    'spinful': dict(fn='ham_fermi_hubbard_from_edges', builder='fermi_hubbard_local_array',
                    coefs=(('t', 2), ('U', 1), ('mu', 1)), syms=('Z2', 'U1', 'Z2Z2', 'U1U1'),
                    terms='fermi_hubbard_terms', env='env_hubbard', eqb='hubbard_call_eqb', nspin=2),
    'spinless': dict(fn='ham_fermi_hubbard_spinless_from_edges', builder='fermi_hubbard_spinless_local_array',
                     coefs=(('t', 2), ('V', 2), ('mu', 1)), syms=('Z2', 'U1'),
                     terms='fermi_hubbard_spinless_terms', env='env_spinless', eqb='spinless_call_eqb', nspin=1),
}
EDGE_FORMS = ('scalar', 'dict_same', 'dict_rev', 'dict_mixed', 'dict_both', 'callable')
NODE_FORMS = ('scalar', 'dict', 'callable')


def graphs(n):
    pairs = list(itertools.combinations(range(n), 2))
    for mask in range(1, 2 ** len(pairs)):
        yield [pairs[i] for i in range(len(pairs)) if mask >> i & 1]


def make_case(model, sym, kind, edges, forms, bases=(3, 5, 1)):
    """edges: list of (label, label) as listed"""
    M = MODELS[model]
    sites = list(dict.fromkeys(x for e in edges for x in e))
    specs = {}
    for (name, ar), form, base in zip(M['coefs'], forms, bases):
        specs[name] = edge_coef(form, edges, base, 2) if ar == 2 else node_coef(form, sites, base + 4, 3)
    return {'model': model, 'symmetry': sym, 'label_kind': kind, 'edges': edges, 'specs': specs, 'forms': list(forms)}


def case_json(c):
    M = MODELS[c['model']]
    return {'model': c['model'], 'symmetry': c['symmetry'], 'label_kind': c['label_kind'],
            'edges': [[jl(a), jl(b)] for a, b in c['edges']], 'forms': c['forms'], 'numeric': c.get('numeric', 'fraction'),
            'coefficients': {n: coef_json(c['specs'][n], ar) for n, ar in M['coefs']}}


def case_unjson(j):
    M = MODELS[j['model']]
    k = 'tuple' if j['label_kind'] == 'tuple' else 'x'
    return {'model': j['model'], 'symmetry': j['symmetry'], 'label_kind': j['label_kind'],
            'edges': [(unjl(k, a), unjl(k, b)) for a, b in j['edges']], 'forms': j['forms'], 'numeric': j.get('numeric', 'fraction'),
            'specs': {n: coef_unjson(k, j['coefficients'][n], ar) for n, ar in M['coefs']}}


def gen_cases(ctx):
    rng = ctx.rng
    cases = []
    combos = {m: list(itertools.product(*[(EDGE_FORMS if ar == 2 else NODE_FORMS) for _, ar in MODELS[m]['coefs']]))
              for m in MODELS}
    counter = {m: 0 for m in MODELS}
    glist_ = [(4, g) for g in graphs(4)]
    if ctx.thorough:
        glist_ += [(5, g) for g in graphs(5) if any(4 in e for e in g)]
        g6 = [g for g in graphs(6) if any(5 in e for e in g)]
        glist_ += [(6, g) for g in rng.sample(g6, 600)]
    for n, g in glist_:
        variants = [list(g)]
        for _ in range(3 if (ctx.thorough and n <= 4) else 1):
            v = [(b, a) if rng.random() < 0.5 else (a, b) for a, b in g]
            rng.shuffle(v)
            variants.append(v)
        for vi, v in enumerate(variants):
            kinds = list(LABELINGS) if n <= 4 else [rng.choice(list(LABELINGS))]
            for kind in kinds:
                lab = LABELINGS[kind]
                edges = [(lab(a), lab(b)) for a, b in v]
                for m in MODELS:
                    forms = combos[m][counter[m] % len(combos[m])]
                    counter[m] += 1
                    sym = MODELS[m]['syms'][counter[m] % len(MODELS[m]['syms'])]
                    cases.append(make_case(m, sym, kind, edges, forms))
    # integer-typed couplings on graphs with a site whose coordination does not divide its on-site coupling
    for m in MODELS:
        for gi, g in enumerate(([(0, 1), (0, 2), (0, 3)], [(0, 1), (1, 2), (2, 0), (2, 3)], [(0, 1), (1, 2)])):
            for numeric in ('int', 'npint'):
                sites = list(dict.fromkeys(x for e in g for x in e))
                specs = {}
                for (name, ar), val in zip(MODELS[m]['coefs'], (1, 8 if m == 'spinful' else 3, 1)):
                    if ar == 2 or (gi + (numeric == 'int')) % 2 == 0:
                        specs[name] = {'form': 'scalar', 'value': F(val)}
                    else:
                        specs[name] = {'form': 'dict', 'items': {sx: F(val + k) for k, sx in enumerate(sites)}}
                cases.append({'model': m, 'symmetry': MODELS[m]['syms'][gi % len(MODELS[m]['syms'])], 'label_kind': 'int', 'edges': list(g), 'specs': specs,
                              'forms': [specs[n]['form'] for n, _ in MODELS[m]['coefs']], 'numeric': numeric, 'force_dense': True})
    # a hopping (or interaction) that is exactly zero on one bond: the bond still carries its shares of the on-site terms
    for m in MODELS:
        for gi, g in enumerate(([(0, 1), (1, 2), (2, 3), (3, 0)], [(0, 1), (0, 2), (0, 3), (1, 2)])):
            for form in ('dict_same', 'callable'):
                c = make_case(m, MODELS[m]['syms'][gi % len(MODELS[m]['syms'])], 'int', list(g), [form if ar == 2 else 'scalar' for _, ar in MODELS[m]['coefs']])
                for (name, ar) in MODELS[m]['coefs']:
                    if ar == 2:
                        e0 = g[(gi + 1) % len(g)]
                        for key in (e0, (e0[1], e0[0])):
                            if key in c['specs'][name]['items']:
                                c['specs'][name]['items'][key] = F(0)
                c['force_dense'] = True
                cases.append(c)
    # an on-site coupling that is exactly zero on ONE site (an impurity-like pattern): the other sites keep their full shares
    for m in MODELS:
        for gi, g in enumerate(([(0, 1), (1, 2), (2, 3)], [(0, 1), (0, 2), (0, 3)])):
            for form in ('dict', 'callable'):
                c = make_case(m, MODELS[m]['syms'][gi % len(MODELS[m]['syms'])], 'int', list(g), ['scalar' if ar == 2 else form for _, ar in MODELS[m]['coefs']])
                sites_ = list(dict.fromkeys(x for e in g for x in e))
                for (name, ar) in MODELS[m]['coefs']:
                    if ar == 1:
                        zero_sites = [sites_[(gi + 1) % len(sites_)]] if name != 'U' else [s_ for s_ in sites_ if s_ != sites_[(gi + 2) % len(sites_)]]
                        for s_ in zero_sites:
                            c['specs'][name]['items'][s_] = F(0)
                c['force_dense'] = True
                cases.append(c)
    # calls that must raise: a bond / a site missing from a coefficient dict
    for m in MODELS:
        for kind in ('int', 'str_multi'):
            lab = LABELINGS[kind]
            edges = [(lab(0), lab(1)), (lab(2), lab(1)), (lab(0), lab(2))]
            f1 = ['dict_missing' if ar == 2 else 'scalar' for _, ar in MODELS[m]['coefs']]
            f2 = ['dict_rev' if ar == 2 else 'dict_missing' for _, ar in MODELS[m]['coefs']]
            cases.append(make_case(m, MODELS[m]['syms'][0], kind, edges, f1))
            cases.append(make_case(m, MODELS[m]['syms'][0], kind, edges, f2))
    # model faithfulness outside the property's quantifier (not simple): correspondence only
    extra = []
    for m in MODELS:
        for edges in ([(0, 1), (0, 1)], [(0, 1), (1, 0)], [(0, 0), (0, 1)], [(2, 1), (1, 2), (2, 1), (1, 1)]):
            f = ['dict_both' if ar == 2 else 'dict' for _, ar in MODELS[m]['coefs']]
            c = make_case(m, MODELS[m]['syms'][0], 'int', edges, f)
            c['not_simple'] = True
            extra.append(c)
    return cases, extra


# ---------------------------------------------------------------- running the implementation
class Impl:
    """one run of ham_*_from_edges with the local builders spied on (attribute
    assignment from outside, restored afterwards; no source hooks)"""

    def __init__(self, case, arrays=False):
        import symmray.fermionic_local_operators as L
        import symmray.hamiltonians as H
        M = MODELS[case['model']]
        self.calls = []     # kwargs of every local-builder call
        self.terms = []     # evaluated term list of every build_local_fermionic_array call
        self.raised = None
        self.out = None
        ob, oa = getattr(L, M['builder']), L.build_local_fermionic_array

        def spy_builder(*a, **kw):
            self.calls.append({k: v for k, v in kw.items() if k != 'like'})
            return ob(*a, **kw)

        def spy_array(terms, *a, **kw):
            self.terms.append([(c, [(op.label, bool(op.dual)) for op in
                                    map(L._ensure_fermionic_operator, ops)]) for c, ops in terms])
            # the arrays themselves are only needed by the dense_sum oracle (building them dominates the run time)
            return oa(terms, *a, **kw) if arrays else None

        setattr(L, M['builder'], spy_builder)
        L.build_local_fermionic_array = spy_array
        try:
            kwargs = {n: py_coef(case['specs'][n], ar) for n, ar in M['coefs']}
            if case.get('numeric') in ('int', 'npint'):
                # integer-typed couplings (the property quantifies over the couplings' values, not their Python type)
                import numpy as _np
                conv = int if case['numeric'] == 'int' else (lambda v: _np.int64(int(v)))
                for n in kwargs:
                    v = kwargs[n]
                    if isinstance(v, dict):
                        kwargs[n] = {k: conv(x) for k, x in v.items()}
                    elif not callable(v):
                        kwargs[n] = conv(v)
            self.out = getattr(H, M['fn'])(case['symmetry'], list(case['edges']), **kwargs)
        except KeyError as e:
            self.raised = 'KeyError(%s)' % (e,)
        finally:
            setattr(L, M['builder'], ob)
            L.build_local_fermionic_array = oa


def pairq(x):
    a, b = x
    return '(%s, %s)' % (gq(a), gq(b))


def g_call(model, kw):
    c = kw['coordinations']
    cz = '(%s, %s)' % (gz(int(c[0])), gz(int(c[1])))
    if model == 'spinful':
        return '{| hc_t := %s; hc_U := %s; hc_mu := %s; hc_coord := %s |}' % (gq(kw['t']), pairq(kw['U']), pairq(kw['mu']), cz)
    return '{| sc_t := %s; sc_V := %s; sc_mu := %s; sc_coord := %s |}' % (gq(kw['t']), gq(kw['V']), pairq(kw['mu']), cz)


LOP = {'a': (0, 'SpinNone'), 'b': (1, 'SpinNone'), 'au': (0, 'SpinUp'), 'ad': (0, 'SpinDn'), 'bu': (1, 'SpinUp'), 'bd': (1, 'SpinDn')}


def g_terms(terms):
    out = []
    for c, ops in terms:
        out.append('(%s, %s)' % (gq(c), glist(['(%d%%nat, %s, %s)' % (LOP[l][0], LOP[l][1], 'true' if d else 'false') for l, d in ops])))
    return glist(out)


def corr_exprs(case, impl):
    """Gallina booleans: model == implementation for this case"""
    M = MODELS[case['model']]
    args = ' '.join((g_edge_coef if ar == 2 else g_node_coef)(case['specs'][n]) for n, ar in M['coefs'])
    edges = glist([gedge(e) for e in case['edges']])
    if impl.raised:
        exp = 'None'
    else:
        d = {}
        for e, kw in zip(case['edges'], impl.calls):
            d[e] = kw                      # Python dict semantics of the comprehension
        if list(d) != list(impl.out):
            return None
        exp = '(Some %s)' % glist(['(%s, %s)' % (gedge(e), g_call(case['model'], kw)) for e, kw in d.items()])
    ex = ['calls_eqb %s (%s lbl_eqb %s %s) %s' % (M['eqb'], M['fn'], edges, args, exp)]
    if not impl.raised and impl.terms:
        ex.append('terms_eqb (eval_terms (%s %s) %s) %s' % (M['env'], g_call(case['model'], impl.calls[0]), M['terms'], g_terms(impl.terms[0])))
    return ex


# ---------------------------------------------------------------- oracles (implementation only)
def degrees(edges):
    deg = {}
    for a, b in edges:
        deg[a] = deg.get(a, 0) + 1
        deg[b] = deg.get(b, 0) + 1
    return deg


def oracle_args(case, impl):
    """what every edge must pass; None when fine, else a description"""
    M = MODELS[case['model']]
    edges = case['edges']
    sp = case['specs']
    try:
        want = []
        deg = degrees(edges)
        for a, b in edges:
            w = {}
            for n, ar in M['coefs']:
                w[n] = spec_edge_value(sp[n], a, b) if ar == 2 else (spec_node_value(sp[n], a), spec_node_value(sp[n], b))
            w['coordinations'] = (deg[a], deg[b])
            want.append(w)
    except KeyError:
        want = None
    if want is None:
        return None if impl.raised else 'a coefficient is missing for a bond/site but no KeyError was raised'
    if impl.raised:
        return 'raised %s although every bond (in one orientation) and every site has a coefficient' % impl.raised
    if list(impl.out) != list(edges):
        return 'returned keys %r differ from the edges %r' % (list(impl.out), edges)
    for e, w, g in zip(edges, want, impl.calls):
        g2 = {k: (tuple(v) if isinstance(v, (tuple, list)) else v) for k, v in g.items()}
        if g2 != w:
            return 'edge %r passes %r, expected %r' % (e, {k: str(v) for k, v in g2.items()}, {k: str(v) for k, v in w.items()})
    if len(impl.calls) != len(edges):
        return '%d builder calls for %d edges' % (len(impl.calls), len(edges))
    return None


# --- the harness' own Jordan-Wigner engine (exact, Fractions)
def apply_string(ops, state):
    """ops = [(mode, dag), ...] as written left to right; acts on the basis state (bit mask)"""
    sign = 1
    for m, dag in reversed(ops):
        bit = 1 << m
        if bool(state & bit) == bool(dag):
            return None
        if (state & (bit - 1)).bit_count() & 1:
            sign = -sign
        state ^= bit
    return sign, state


def add_term(Hm, coef, ops, nmodes):
    if coef == 0:
        return
    for st in range(1 << nmodes):
        r = apply_string(ops, st)
        if r is not None:
            k = (r[1], st)
            Hm[k] = Hm.get(k, 0) + r[0] * coef


def clean(Hm, tol=0):
    return {k: v for k, v in Hm.items() if (abs(v) > tol)}


SPIN_IDX = {None: 0, 'u': 0, 'd': 1}


def lattice_reference(case):
    """H built directly from the specification, on the Fock space of the sites"""
    M = MODELS[case['model']]
    edges, sp = case['edges'], case['specs']
    sites = list(dict.fromkeys(x for e in edges for x in e))
    ns = M['nspin']
    mode = lambda s, k: sites.index(s) * ns + k
    nm = len(sites) * ns
    Hm = {}
    for a, b in edges:
        t = spec_edge_value(sp['t'], a, b)
        for k in range(ns):
            add_term(Hm, -t, [(mode(a, k), True), (mode(b, k), False)], nm)
            add_term(Hm, -t, [(mode(b, k), True), (mode(a, k), False)], nm)
        if case['model'] == 'spinless':
            V = spec_edge_value(sp['V'], a, b)
            add_term(Hm, V, [(mode(a, 0), True), (mode(a, 0), False), (mode(b, 0), True), (mode(b, 0), False)], nm)
    for s in sites:
        mu = spec_node_value(sp['mu'], s)
        for k in range(ns):
            add_term(Hm, -mu, [(mode(s, k), True), (mode(s, k), False)], nm)
        if case['model'] == 'spinful':
            U = spec_node_value(sp['U'], s)
            add_term(Hm, U, [(mode(s, 0), True), (mode(s, 0), False), (mode(s, 1), True), (mode(s, 1), False)], nm)
    return clean(Hm), sites, nm


def label_mode(lbl, a, b, sites, ns):
    site = a if lbl[0] == 'a' else b
    k = 0 if len(lbl) == 1 else SPIN_IDX[lbl[1]]
    return sites.index(site) * ns + k


def oracle_exact_sum(case, impl):
    M = MODELS[case['model']]
    ref, sites, nm = lattice_reference(case)
    ns = M['nspin']
    Hm = {}
    if len(impl.terms) != len(case['edges']):
        return 'number of local term lists %d != number of edges %d' % (len(impl.terms), len(case['edges']))
    for (a, b), terms in zip(case['edges'], impl.terms):
        for c, ops in terms:
            add_term(Hm, F(c), [(label_mode(l, a, b, sites, ns), d) for l, d in ops], nm)
    Hm = clean(Hm)
    if Hm != ref:
        return describe_diff(Hm, ref, sites, ns)
    return None


def describe_diff(Hm, ref, sites, ns, tol=0):
    keys = sorted(set(Hm) | set(ref))
    bad = [(k, Hm.get(k, 0), ref.get(k, 0)) for k in keys if abs(Hm.get(k, 0) - ref.get(k, 0)) > tol]
    k, got, want = bad[0]

    def occ(st):
        return {repr(s): [st >> (i * ns + j) & 1 for j in range(ns)] for i, s in enumerate(sites)}
    return ('sum over edges differs from the lattice Hamiltonian in %d matrix elements; e.g. <%s|H|%s>: '
            'sum of edge terms = %s, lattice = %s' % (len(bad), occ(k[0]), occ(k[1]), got, want))


BASIS = {1: [[], [(0, True)]], 2: [[], [(1, True)], [(0, True)], [(0, True), (1, True)]]}   # per-site kets (spin idx, dag)
# charge of each local basis state: to_dense() lists an axis sector by sector (sorted charges), so the
# dense position p corresponds to the basis state DENSE_ORDER[p]
CHARGES = {(1, 'Z2'): [0, 1], (1, 'U1'): [0, 1], (2, 'Z2'): [0, 1, 1, 0], (2, 'U1'): [0, 1, 1, 2],
           (2, 'Z2Z2'): [(0, 0), (0, 1), (1, 0), (1, 1)], (2, 'U1U1'): [(0, 0), (0, 1), (1, 0), (1, 1)]}


def dense_order(ns, sym):
    ch = CHARGES[(ns, sym)]
    return sorted(range(len(ch)), key=lambda i: (ch[i], i))


def oracle_dense_sum(case, impl, tol=1e-9):
    """embed the RETURNED arrays (to_dense) and sum over edges"""
    import numpy as np
    M = MODELS[case['model']]
    ref, sites, nm = lattice_reference(case)
    ns = M['nspin']
    order = dense_order(ns, case['symmetry'])
    basis = [BASIS[ns][i] for i in order]
    par = [len(b) % 2 for b in basis]
    Hm = {}
    for (a, b), arr in impl.out.items():
        h = np.asarray(arr.to_dense())
        d = len(basis)
        if h.shape != (d, d, d, d):
            return 'edge %r: dense shape %r' % ((a, b), h.shape)
        ma = lambda k: sites.index(a) * ns + k
        mb = lambda k: sites.index(b) * ns + k
        proj = []
        for m in sorted({ma(k) for k in range(ns)} | {mb(k) for k in range(ns)}):
            proj += [(m, False), (m, True)]
        for ia, ib, ja, jb in zip(*np.nonzero(h)):
            val = float(h[ia, ib, ja, jb]) * (-1) ** (par[ia] * par[ib])
            ket = [(ma(k), dg) for k, dg in basis[ia]] + [(mb(k), dg) for k, dg in basis[ib]]
            ketj = [(ma(k), dg) for k, dg in basis[ja]] + [(mb(k), dg) for k, dg in basis[jb]]
            bra = [(m, not dg) for m, dg in reversed(ketj)]
            add_term(Hm, val, ket + proj + bra, nm)
    Hm = clean(Hm, tol)
    reff = {k: float(v) for k, v in ref.items()}
    keys = set(Hm) | set(reff)
    if any(abs(Hm.get(k, 0.0) - reff.get(k, 0.0)) > tol for k in keys):
        return describe_diff(Hm, reff, sites, ns, tol)
    return None


# --- site info
def run_site_info(edges, bond_dim, phys_dim):
    from symmray.networks import parse_edges_to_site_info
    return parse_edges_to_site_info(list(edges), bond_dim, phys_dim=phys_dim)


def oracle_site_info(edges, bond_dim, phys_dim, info):
    deg = degrees(edges)
    if set(info) != set(deg):
        return 'sites %r, expected %r' % (sorted(map(repr, info)), sorted(map(repr, deg)))
    nphys = 0 if phys_dim is None else 1
    for s, i in info.items():
        if i.get('coordination') != deg[s]:
            return 'site %r: coordination %r, degree %d' % (s, i.get('coordination'), deg[s])
        if not (len(i['inds']) == len(i['duals']) == len(i['shape']) == deg[s] + nphys):
            return 'site %r: %d inds / %d duals / %d shape entries for degree %d' % (
                s, len(i['inds']), len(i['duals']), len(i['shape']), deg[s])
        if len(set(i['inds'])) != len(i['inds']):
            return 'site %r: repeated index name in %r' % (s, i['inds'])
        if nphys and (i['duals'][-1] != 0 or i['shape'][-1] != phys_dim):
            return 'site %r: physical index has dual %r, size %r' % (s, i['duals'][-1], i['shape'][-1])
    owners = {}
    for s, i in info.items():
        for pos, nm in enumerate(i['inds'][:deg[s]]):
            owners.setdefault(nm, []).append((s, i['duals'][pos], i['shape'][pos]))
    phys_names = [i['inds'][-1] for i in info.values()] if nphys else []
    if len(set(phys_names)) != len(phys_names) or set(phys_names) & set(owners):
        return 'physical index names are not distinct from each other / from bond names'
    if len(owners) != len(edges):
        return '%d bond index names for %d bonds: %r' % (len(owners), len(edges), sorted(owners))
    bonds = {frozenset(e) for e in edges}
    for nm, ow in owners.items():
        if len(ow) != 2:
            return 'index name %r is carried by %d sites (%r), expected exactly 2' % (nm, len(ow), [o[0] for o in ow])
        (s1, d1, z1), (s2, d2, z2) = ow
        if frozenset((s1, s2)) not in bonds:
            return 'index name %r joins %r and %r which is not a bond' % (nm, s1, s2)
        lo, hi = (s1, s2) if s1 < s2 else (s2, s1)
        dlo, dhi = (d1, d2) if s1 < s2 else (d2, d1)
        if (dlo, dhi) != (0, 1):
            return 'bond %r-%r: directions (%r at %r, %r at %r), expected 0 at the smaller and 1 at the larger end' % (
                s1, s2, dlo, lo, dhi, hi)
        if z1 != bond_dim or z2 != bond_dim:
            return 'bond %r-%r: sizes %r, %r' % (s1, s2, z1, z2)
    joined = {frozenset(o[0] for o in ow) for ow in owners.values()}
    if joined != bonds:
        return 'bonds without an index name: %r' % sorted(map(sorted, bonds - joined))
    return None


def site_info_expr(edges, bond_dim, phys_dim, info):
    """Gallina boolean: the model's site info == the implementation's (names decoded)"""
    sites = list(info)
    rev = {}
    for a in sites:
        for b in sites:
            rev.setdefault('b{}-{}'.format(a, b), []).append('[%s; %s]' % (glbl(a), glbl(b)))
        rev.setdefault('k{}'.format(a), []).append('[%s]' % glbl(a))
    items = []
    for s, i in info.items():
        names = []
        for nm in i['inds']:
            c = rev.get(nm)
            if not c or len(c) != 1:
                return None        # ambiguous / unknown name: left to the oracle
            names.append(c[0])
        items.append('(%s, {| si_inds := %s; si_duals := %s; si_shape := %s; si_coord := %s |})' % (
            glbl(s), glist(names), glist([gz(int(d)) for d in i['duals']]), glist([gz(int(z)) for z in i['shape']]),
            '(Some %s)' % gz(int(i['coordination'])) if 'coordination' in i else 'None'))
    return 'site_info_eqb (site_info_lbl %s %s %s) %s' % (
        glist([gedge(e) for e in edges]), gz(bond_dim), 'None' if phys_dim is None else '(Some %s)' % gz(phys_dim), glist(items))


HYPHEN_PROBE = [('1', '2-3'), ('1-2', '3')]


# ---------------------------------------------------------------- the check
def run(ctx):
    ok = common.standard_proof_phase(ctx)
    cases, extra = gen_cases(ctx)
    exprs, meta = [], []
    found = []            # (what, replay dict)
    tie_broken = []
    n_dense = 0
    dense_budget = 400 if ctx.thorough else 70
    stats = {'models': {}, 'forms': {}, 'label_kinds': {}, 'symmetries': {}, 'max_degree': {}, 'raising_cases': 0}

    def bump(d, k):
        d[k] = d.get(k, 0) + 1

    for idx, case in enumerate(cases + extra):
        small = len(degrees(case['edges'])) * MODELS[case['model']]['nspin'] <= 6
        want_dense = (not case.get('not_simple')) and ((n_dense < dense_budget and small and (idx % 7 == 0 or len(degrees(case['edges'])) <= 2))
                                                       or (case.get('force_dense') and len(degrees(case['edges'])) * MODELS[case['model']]['nspin'] <= 8))
        impl = Impl(case, arrays=want_dense)
        ctx.count()
        deg = degrees(case['edges'])
        nsites = len(deg)
        bump(stats['models'], case['model'])
        bump(stats['label_kinds'], case['label_kind'])
        bump(stats['symmetries'], case['symmetry'])
        bump(stats['max_degree'], str(max(deg.values())))
        for f in case['forms']:
            bump(stats['forms'], f)
        if impl.raised:
            stats['raising_cases'] += 1
        if max(deg.values()) >= 2 and any(f != 'scalar' for f in case['forms']):
            ctx.nontrivial(json.dumps(case_json(case), sort_keys=True))
        # (exact rational correspondence only for exact rational couplings)
        ex = corr_exprs(case, impl) if case.get('numeric', 'fraction') == 'fraction' else []
        if ex is None:
            tie_broken.append('returned dict keys are not the edges in order for %r' % (case['edges'],))
        else:
            for e in ex:
                exprs.append(e)
                meta.append(idx)
        if case.get('not_simple'):
            continue
        # oracles
        for name, fn in (('args', oracle_args),):
            msg = fn(case, impl)
            ctx.count()
            if msg:
                found.append(('%s oracle: %s' % (name, msg), {'oracle': name, 'case': case_json(case), 'detail': msg}))
        if impl.raised or impl.out is None:
            continue
        spin_ok = nsites * MODELS[case['model']]['nspin'] <= (10 if ctx.thorough else 8)
        # (integer-typed couplings are divided by the coordination in floating point: only the dense oracle, with its tolerance, applies)
        if spin_ok and case.get('numeric', 'fraction') == 'fraction':
            msg = oracle_exact_sum(case, impl)
            ctx.count()
            if msg:
                found.append(('exact_sum oracle: ' + msg, {'oracle': 'exact_sum', 'case': case_json(case), 'detail': msg}))
        if want_dense:
            n_dense += 1
            msg = oracle_dense_sum(case, impl)
            ctx.count()
            if msg:
                found.append(('dense_sum oracle: ' + msg, {'oracle': 'dense_sum', 'case': case_json(case), 'detail': msg}))
    ctx.sample(case_json(cases[len(cases) // 2]))
    ctx.sample(case_json(cases[7]))

    # ---- site info
    si_cases = []
    seen = set()
    for case in cases:
        key = json.dumps([[jl(a), jl(b)] for a, b in case['edges']])
        if key in seen:
            continue
        seen.add(key)
        si_cases.append((case['label_kind'], case['edges'], 2 + len(seen) % 4, [2, None, 3][len(seen) % 3]))
    n_si = 0
    for kind, edges, bd, pd in si_cases:
        info = run_site_info(edges, bd, pd)
        ctx.count()
        n_si += 1
        msg = oracle_site_info(edges, bd, pd, info)
        if msg:
            found.append(('site_info oracle: ' + msg, {'oracle': 'site_info', 'label_kind': kind,
                                                     'edges': [[jl(a), jl(b)] for a, b in edges], 'bond_dim': bd, 'phys_dim': pd,
                                                     'detail': msg}))
        e = site_info_expr(edges, bd, pd, info)
        if e is not None:
            exprs.append(e)
            meta.append(('site_info', edges, bd, pd))
        if max(degrees(edges).values()) >= 2:
            ctx.nontrivial('si:' + json.dumps([[jl(a), jl(b)] for a, b in edges]) + str((bd, pd)))
    ctx.sample({'site_info_edges': [[jl(a), jl(b)] for a, b in si_cases[-1][1]], 'bond_dim': si_cases[-1][2], 'phys_dim': si_cases[-1][3]})
    # string labels containing '-': the default bond_ind_id "b{}-{}" is not injective on them
    info = run_site_info(HYPHEN_PROBE, 2, 2)
    msg = oracle_site_info(HYPHEN_PROBE, 2, 2, info)
    ctx.count()
    if msg:
        kf = common.load_known_findings()
        pinned = [f for f in kf.get('findings', []) if 'C19' in json.dumps(f) and 'bond_ind_id' in json.dumps(f)]
        if pinned:
            ctx.known.append('KNOWN-FINDING: property=C19 parse_edges_to_site_info(%r): %s' % (HYPHEN_PROBE, msg))
        else:
            found.append(('site_info oracle (string labels containing "-"): ' + msg,
                          {'oracle': 'site_info', 'label_kind': 'str', 'edges': [list(e) for e in HYPHEN_PROBE],
                           'bond_dim': 2, 'phys_dim': 2, 'detail': msg}))

    # ---- correspondence through Coq
    bad = common.run_cases(ctx, 'ham', IMPORTS, '', exprs)
    if bad is None:
        tie_broken.append('cases.v (model vs implementation) did not evaluate')
    elif bad:
        allc = cases + extra
        for i in bad[:8]:
            m = meta[i]
            if isinstance(m, tuple):
                tie_broken.append('Model.site_info disagrees with parse_edges_to_site_info on edges=%r bond_dim=%r phys_dim=%r' % m[1:])
            else:
                tie_broken.append('generated/Model definitions disagree with the implementation on %s' % json.dumps(case_json(allc[m])))
    ctx.extra['tie'] = {'correspondence_expressions': len(exprs), 'from_edges_cases': len(cases) + len(extra),
                        'site_info_cases': n_si, 'dense_sum_cases': n_dense, 'model_disagreements': 0 if not bad else len(bad)}
    ctx.extra['distribution'] = stats

    seen_w = set()
    nrep = 0
    for what, rep in found:
        k = (rep['oracle'], what[:60])
        if k in seen_w or nrep >= 5:
            continue
        seen_w.add(k)
        nrep += 1
        ctx.violation(what, rep)
    # fallback tie (DESIGN 4.1): the source left the translator's subset, so Gen/Ham.v on disk is the last good
    # translation and the theorems are about it; if that text still agrees with the new implementation on the whole
    # correspondence domain and every oracle passes, the tie is by correspondence and no alarm is raised
    fallback = (not ok) and bool(ctx.broken) and all(b.startswith('translator gen_ham') for b in ctx.broken) \
        and not tie_broken and not found
    ctx.extra['tie']['mode'] = 'correspondence (fallback)' if fallback else 'translator + correspondence'
    ctx.broken += tie_broken
    if (not ok or tie_broken) and not found and not fallback:
        ctx.violation('proof obligation or tie of C19 no longer checks', {'broken': ctx.broken}, found_input=False)
    if fallback:
        ctx.note('translator fallback: symmray source left the supported subset (%s); theorems hold for the last good '
                 'translation, which agrees with the current implementation on every correspondence case' % '; '.join(ctx.broken))
    ctx.note('ham_tfim_from_edges / ham_heisenberg_from_edges import quimb (not installed): tied by the translator and theorems only, not executed')
    ctx.note('theorems need NoDup edges (no edge listed twice in the same orientation); "once per bond" is for simple graphs')
    ctx.coverage['rule'] = ('every simple graph on <= 4 labelled sites (thorough: all on 5, 600 sampled on 6), as listed and with a random '
                            're-orientation/shuffle, x 5 labelings (ints, scrambled ints, tuples, strings), coefficient forms cycled over all '
                            'combinations (scalar / dict same, reversed, mixed, both orientations / callable; node: scalar / dict / callable), '
                            'spinful and spinless, symmetries cycled; non-trivial = a site of degree >= 2 and a non-scalar coefficient; '
                            'distinct by full input')


# ---------------------------------------------------------------- replay
def replay(path):
    r = json.load(open(path))
    print(json.dumps(r, indent=1))
    o = r.get('oracle')
    if o == 'site_info':
        k = 'tuple' if r['label_kind'] == 'tuple' else 'x'
        edges = [(unjl(k, a), unjl(k, b)) for a, b in r['edges']]
        info = run_site_info(edges, r['bond_dim'], r['phys_dim'])
        msg = oracle_site_info(edges, r['bond_dim'], r['phys_dim'], info)
        print('implementation:', info)
        print('oracle:', msg or 'ok')
        return 1 if msg else 0
    if o in ('args', 'exact_sum', 'dense_sum'):
        case = case_unjson(r['case'])
        impl = Impl(case, arrays=True)
        print('builder calls:', [{k: str(v) for k, v in c.items()} for c in impl.calls], 'raised:', impl.raised)
        fn = {'args': oracle_args, 'exact_sum': oracle_exact_sum, 'dense_sum': oracle_dense_sum}[o]
        msg = fn(case, impl)
        print('oracle:', msg or 'ok')
        return 1 if msg else 0
    return 0
