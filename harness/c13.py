"""C13 — truncated SVD keeps exactly what its cutoff and bond limit prescribe.

Correspondence: `symmray.linalg.svd` is replaced (module attribute) by a stub
returning factors with chosen exact singular values, the real `svd_truncated`
is run, and the bond chargemap it produces is compared with Model/Trunc.v
(`trunc`, the model of the current code the C13 theorems are about) through cases.v.  `calc_sub_max_bonds` is compared directly.

Oracle (independent of symmray/linalg.py): exact rational re-statement of the
property (kept = largest lower-closed set allowed by the rule, intersected with
the bond limit), kept >= discarded, monotonicity in the cutoff, bond limit,
table/shape validity, equality of absorb variants, error identity.  A second
stream uses the REAL svd on random matrices (tolerance there only)."""
import itertools
import json
import math
from fractions import Fraction

import numpy as np

import common
from common import gz, gnat, glist, gpair, gopt
import refsym

IMPORTS = 'From SV Require Import Model.Trunc.\n'
# own shards for the functions GENERATED from the current source (tr/gen_trunc.py -> Gen/TruncGen.v): if that file is
# missing or does not compile only these shards fail, the ties to the hand model above survive
IMPORTS_GEN = 'From Coq Require Import QArith.\nFrom SV Require Import Model.Trunc Gen.TruncGen.\n'
ABSORBS = [None, -1, 0, 1, 'left', 'both', 'right']
F7_SIG = 'cumulative_cutoff_above_total_weight_keeps_everything'
UNIVERSE = {
    'Z2': [0, 1], 'Z4': [0, 1, 2, 3], 'U1': [-2, -1, 0, 1, 2, 3],
    'Z2Z2': [(0, 0), (0, 1), (1, 0), (1, 1)],
    'U1U1': [(0, 0), (1, -1), (0, 1), (-1, 0), (1, 1), (2, 0)],
}


# ---------------------------------------------------------------- inputs
def signed_perm(rng, d, r, rows):
    """d x r (rows=False) / r x d (rows=True) partial isometry: distinct unit vectors with signs"""
    picks = rng.sample(range(d), r)
    m = np.zeros((d, r))
    for j, i in enumerate(picks):
        m[i, j] = rng.choice((1.0, -1.0))
    return m.T.copy() if rows else m


def gen_svals(rng, r, style):
    pool = {
        'small': [0, 1, 1, 2, 2, 3, 4, 5, 6, 7],
        'squares': [0, 1, 1, 4, 4, 9, 16, 25],
        'ties': [0, 2, 2, 2, 3, 3],
        'wide': [0, 1, 2, 3, 5, 8, 13, 21, 34],
        'const': [3],
        'zero': [0],
    }[style]
    return sorted((rng.choice(pool) for _ in range(r)), reverse=True)


def gen_case(rng, sym=None, fermionic=None, style=None):
    """a matrix given as exact factors per sector"""
    sym = sym or rng.choice(['Z2', 'U1', 'Z4', 'Z2Z2', 'U1U1', 'Z2', 'U1'])
    fermionic = rng.random() < 0.5 if fermionic is None else fermionic
    style = style or rng.choice(['small', 'small', 'squares', 'squares', 'ties', 'wide', 'const', 'zero'])
    uni = UNIVERSE[sym]
    for _ in range(200):
        n0, n1 = rng.randint(1, min(4, len(uni))), rng.randint(1, min(4, len(uni)))
        ch0 = {c: rng.randint(1, 4) for c in rng.sample(uni, n0)}
        ch1 = {c: rng.randint(1, 4) for c in rng.sample(uni, n1)}
        duals = [rng.random() < 0.5, rng.random() < 0.5]
        cands = []
        for q in uni:
            vs = refsym.valid_sectors(sym, [sorted(ch0), sorted(ch1)], duals, q)
            if vs:
                cands.append((q, vs))
        if cands:
            break
    charge, vs = rng.choice(cands)
    # sparsity: random non-empty subset (an empty one is exercised separately), random insertion order
    k = rng.randint(1, len(vs))
    if rng.random() < 0.5:
        k = len(vs)
    secs = rng.sample(vs, k)
    sectors = []
    for (c0, c1) in secs:
        d0, d1 = ch0[c0], ch1[c1]
        r = min(d0, d1)
        st = style if rng.random() < 0.8 else rng.choice(['small', 'ties', 'zero'])
        sectors.append({'c0': c0, 'c1': c1, 'u': signed_perm(rng, d0, r, False).tolist(),
                        's': gen_svals(rng, r, st), 'v': signed_perm(rng, d1, r, True).tolist()})
    return {'symmetry': sym, 'fermionic': fermionic, 'duals': duals, 'charge': charge,
            'ch0': sorted(ch0.items()), 'ch1': sorted(ch1.items()), 'sectors': sectors,
            'scale_exp': rng.choice([0, 0, 0, 2, 4])}


def tup(c):
    return tuple(c) if isinstance(c, list) else c


def normalise(case):
    """after a JSON round trip"""
    case = dict(case)
    case['charge'] = tup(case['charge'])
    case['ch0'] = [(tup(c), d) for c, d in case['ch0']]
    case['ch1'] = [(tup(c), d) for c, d in case['ch1']]
    case['sectors'] = [dict(s, c0=tup(s['c0']), c1=tup(s['c1'])) for s in case['sectors']]
    return case


def build(sr, case):
    """-> (x, table) : the symmray array and the exact factors per sector"""
    sc = 2.0 ** (-case['scale_exp'])
    table, blocks = {}, {}
    for s in case['sectors']:
        u, v = np.array(s['u'], dtype=float), np.array(s['v'], dtype=float)
        u = u.reshape(len(s['u']), len(s['s']))
        v = v.reshape(len(s['s']), -1)
        sv = np.array(s['s'], dtype=float) * sc
        table[(s['c0'], s['c1'])] = (u, sv, v)
        blocks[(s['c0'], s['c1'])] = (u * sv.reshape(1, -1)) @ v
    ixs = (sr.BlockIndex(dict(case['ch0']), dual=case['duals'][0]),
           sr.BlockIndex(dict(case['ch1']), dual=case['duals'][1]))
    cls = sr.FermionicArray if case['fermionic'] else sr.AbelianArray
    kw = {'oddpos': 7} if case['fermionic'] else {}
    x = cls(indices=ixs, charge=case['charge'], blocks=blocks, symmetry=case['symmetry'], **kw)
    return x, table


class SvdStub:
    """drop-in for symmray.linalg.svd: the structure (indices, charge, pending
    signs) comes from the untouched real svd, the block factors are the chosen
    exact ones"""

    def __init__(self, orig, table):
        self.orig, self.table = orig, table
        # svd_fermionic reaches the abelian routine through the module attribute: `svd.dispatch(AbelianArray)`
        for a in ('dispatch', 'register', 'registry'):
            if hasattr(orig, a):
                setattr(self, a, getattr(orig, a))

    def __call__(self, x):
        U, s, VH = self.orig(x)
        for (c0, c1) in list(U.blocks):
            u, sv, v = self.table[(c0, c1)]
            U.blocks[(c0, c1)] = u.copy()
            s.blocks[c1] = sv.copy()
            VH.blocks[(c1, c1)] = v.copy()
        return U, s, VH


def call_trunc(sr, x, table, **kw):
    """run the real svd_truncated, with the stub installed when `table` is given"""
    L = sr.linalg
    orig = L.svd
    if table is not None:
        L.svd = SvdStub(orig, table)
    try:
        return L.svd_truncated(x, **kw), None
    except Exception as e:   # noqa: BLE001
        return None, '%s: %s' % (type(e).__name__, e)
    finally:
        L.svd = orig


# ---------------------------------------------------------------- configurations
def py_cutoff(case, mode, cut):
    """float the implementation receives for the model cutoff `cut` (a dyadic Fraction in integer units)"""
    j = case['scale_exp']
    if mode in (1, 5):
        f = cut / 2 ** j
    elif mode == 3:
        f = cut / 4 ** j
    else:
        f = cut
    x = float(f)
    assert Fraction(x) == f
    return x


def gen_cutoffs(rng, case, mode, n):
    vals = sorted(v for s in case['sectors'] for v in s['s'])
    H, Q = Fraction(1, 2), Fraction(1, 4)
    if mode == 1:
        pool = [Fraction(v) + d for v in set(vals) for d in (0, H, -H)] + [Q, Fraction(vals[-1] + 1), Fraction(vals[-1] + 5)]
    elif mode == 2:
        pool = [Fraction(k, 8) for k in range(1, 13)] + [Fraction(1, 64), Fraction(1), Fraction(3, 2)]
    elif mode in (3, 5):
        pw = 2 if mode == 3 else 1
        cs = list(itertools.accumulate(v ** pw for v in vals))
        pool = [Fraction(c) + d for c in set(cs) for d in (0, H, -H)] + [Q, Fraction(cs[-1] + 1), Fraction(cs[-1] + 7), Fraction(2 * cs[-1] + 3)]
    else:
        pool = [Fraction(k, 16) for k in range(1, 17)] + [Fraction(1, 256), Fraction(17, 16), Fraction(3, 2), Fraction(2), Fraction(1)]
    pool = sorted(set(c for c in pool if c > 0))
    if len(pool) > n:
        pool = sorted(rng.sample(pool, n - 2) + [pool[-1], pool[0]])
    return sorted(set(pool))


def gen_max_bonds(rng, case, n):
    rank = sum(len(s['s']) for s in case['sectors'])
    pool = list(range(1, rank + 3))
    if len(pool) > n:
        pool = sorted(rng.sample(pool, n))
    return pool


# ---------------------------------------------------------------- exact re-statement of the property (oracle)
def spec_threshold(mode, cut, mb, vals):
    """kept iff value >= t (Fraction); t = None: nothing may be kept.
    `vals` all singular values, `cut` > 0 a Fraction."""
    vals = sorted(vals)
    if mode == 1:
        t = cut
    elif mode == 2:
        t = cut * vals[-1]
    else:
        pw = 2 if mode in (3, 4) else 1
        tot = sum(v ** pw for v in vals)
        c = cut * tot if mode in (4, 6) else cut
        t = None
        for v in sorted(set(vals)):
            # {s < v} is the largest lower set of weight < c  <=>  v is the smallest value with weight(s <= v) >= c
            if sum(s ** pw for s in vals if s <= v) >= c:
                t = Fraction(v)
                break
    if 0 < mb < len(vals):
        tb = Fraction(vals[len(vals) - mb])
        if t is not None and tb > t:
            t = tb
    return t


def spec_counts(case, mode, cut, mb):
    vals = [v for s in case['sectors'] for v in s['s']]
    t = spec_threshold(mode, cut, mb, vals)
    return {(s['c0'], s['c1']): (0 if t is None else sum(1 for v in s['s'] if v >= t)) for s in case['sectors']}, t


def above_total(mode, cut, vals):
    if mode not in (3, 4, 5, 6):
        return False
    pw = 2 if mode in (3, 4) else 1
    tot = sum(v ** pw for v in vals)
    return (cut * tot if mode in (4, 6) else cut) > tot


# ---------------------------------------------------------------- observation of a result
def observe(case, table, res):
    """(U, s, VH) of absorb=None -> dict of plain observations, or a string naming a structural defect"""
    U, s, VH = res
    cm = list(U.indices[1].chargemap.items())
    if list(VH.indices[0].chargemap.items()) != cm:
        return 'U and VH bond chargemaps differ: %r vs %r' % (cm, list(VH.indices[0].chargemap.items()))
    if U.indices[1].dual == VH.indices[0].dual:
        return 'bond dualness of U and VH not opposite'
    counts = {}
    for (c0, c1) in table:
        if (c0, c1) in U.blocks:
            ub, sb, vb = U.blocks[(c0, c1)], s.blocks.get(c1), VH.blocks.get((c1, c1))
            if sb is None or vb is None:
                return 'sector %r present in U but not in s / VH' % ((c0, c1),)
            n = int(sb.shape[0])
            u0, s0, v0 = table[(c0, c1)]
            if n == 0:
                return 'empty sector %r left in the result' % ((c0, c1),)
            if ub.shape != (u0.shape[0], n) or vb.shape != (n, v0.shape[1]):
                return 'block shapes %r %r do not match %d kept values' % (ub.shape, vb.shape, n)
            if dict(cm).get(c1) != n:
                return 'bond table %r does not match block of %d values at charge %r' % (cm, n, c1)
            if not (np.array_equal(sb, s0[:n]) and np.array_equal(ub, u0[:, :n]) and np.array_equal(vb, v0[:n, :])):
                return 'kept part of sector %r is not the leading %d values / vectors' % ((c0, c1), n)
            counts[(c0, c1)] = n
        else:
            if c1 in s.blocks or (c1, c1) in VH.blocks:
                return 'sector %r removed from U but not from s / VH' % ((c0, c1),)
            counts[(c0, c1)] = 0
    if sorted(dict(cm)) != sorted(c1 for (c0, c1), n in counts.items() if n):
        return 'bond table charges %r do not match the stored sectors' % (cm,)
    if len(U.blocks) != sum(1 for n in counts.values() if n) or len(s.blocks) != len(U.blocks) or len(VH.blocks) != len(U.blocks):
        return 'extra blocks in the result'
    return {'chargemap': cm, 'counts': counts}


def blocks_of(a):
    """sector -> block with pending fermionic signs applied"""
    if hasattr(a, 'phase_sync'):
        a = a.phase_sync()
    return {k: np.asarray(v) for k, v in a.blocks.items()}


def product_blocks(sr, A, B):
    """blocks of A.B; (symmray.tensordot drops the charges of free legs that carry no block from the index
    tables of the result, so the products are compared sector by sector, an absent sector being a zero block)"""
    try:
        return blocks_of(sr.tensordot(A, B, 1))
    except Exception as e:        # the factors cannot even be multiplied: compares unequal to everything (reported with the input)
        return {('product raises %s: %s' % (type(e).__name__, e),): np.array([np.nan])}


def blocks_close(P, Q, exact):
    for k in set(P) | set(Q):
        a, b = P.get(k), Q.get(k)
        if a is None or b is None:
            z = a if b is None else b
            if np.any(z != 0):
                return False
        elif a.shape != b.shape or not (np.array_equal(a, b) if exact else np.allclose(a, b, rtol=1e-9, atol=1e-10)):
            return False
    return True


def sq_error(X, P):
    e = 0.0
    for k in set(X) | set(P):
        a, b = X.get(k), P.get(k)
        d = a if b is None else (b if a is None else a - b)
        e += float(np.sum(np.abs(d) ** 2))
    return e


# ---------------------------------------------------------------- main
def code_of(case):
    order = sorted(c for c, _ in case['ch1'])
    return {c: i for i, c in enumerate(order)}


def g_secs(case):
    code = code_of(case)
    return glist([gpair(gz(code[s['c1']]), glist([gz(v) for v in s['s']])) for s in case['sectors']])


def g_cm(case, cm):
    code = code_of(case)
    return glist([gpair(gz(code[c]), gnat(n)) for c, n in cm])


def gq(fr):
    """an exact rational as a Gallina Q literal"""
    fr = Fraction(fr)
    return '(Qmake %s %d%%positive)' % (gz(fr.numerator), fr.denominator)


def g_qblocks(case):
    """list(s.blocks.values()) exactly as the implementation sees it under the stub (values scaled by 2^-j)"""
    sc = Fraction(1, 2 ** case['scale_exp'])
    return glist([glist([gq(Fraction(v) * sc) for v in s['s']]) for s in case['sectors']])


def gen_select_expr(case, mode, cutoff_float, mb, counts):
    """generated selection region (Gen/TruncGen.v) on the exact inputs of this call == per-sector counts the
    implementation kept (None: the call raised)"""
    want = 'None' if counts is None else gopt(glist([gz(n) for n in counts]))
    return 'ozl_eqb (gen_svd_truncated_select %s %s %s %s 0%%Z) %s' % (
        g_qblocks(case), gq(Fraction(cutoff_float)), gz(mode), gz(mb), want)


def short(case):
    return {'symmetry': case['symmetry'], 'fermionic': case['fermionic'], 'duals': case['duals'], 'charge': case['charge'],
            'sectors': [((s['c0'], s['c1']), s['s']) for s in case['sectors']], 'scale_exp': case['scale_exp']}


def check_config(sr, case, x, table, mode, cut, mb, absorbs, st):
    """run one configuration; returns (impl chargemap or None when raising, list of (kind, detail) oracle failures)"""
    fails = []
    vals = [v for s in case['sectors'] for v in s['s']]
    kw = dict(cutoff=py_cutoff(case, mode, cut) if cut > 0 else float(cut), cutoff_mode=mode, max_bond=mb)
    res, err = call_trunc(sr, x, table, absorb=None, **kw)
    if res is None:
        return None, [('raises', err)], None
    ob = observe(case, table, res)
    if isinstance(ob, str):
        return None, [('invalid_result', ob)], None
    counts = ob['counts']
    total = sum(counts.values())
    kept = [v for s in case['sectors'] for v in s['s'][:counts[(s['c0'], s['c1'])]]]
    disc = [v for s in case['sectors'] for v in s['s'][counts[(s['c0'], s['c1'])]:]]
    if cut > 0:
        if kept and disc and min(kept) < max(disc):
            fails.append(('kept_ge_discarded', 'kept %r < discarded %r' % (min(kept), max(disc))))
        want, t = spec_counts(case, mode, cut, mb)
        if want != counts:
            kind = 'F7' if (above_total(mode, cut, vals) and all(counts[k] >= want[k] for k in want)) else 'rule'
            fails.append((kind, 'kept per sector %r, the rule prescribes %r (threshold %s)' % (
                sorted(counts.items()), sorted(want.items()), t)))
        if mb >= 1 and total > mb:
            sv = sorted(vals)
            tie = mb < len(sv) and sv[len(sv) - mb - 1] == sv[len(sv) - mb]
            ge = sum(1 for v in sv if v >= sv[len(sv) - mb]) if mb < len(sv) else len(sv)
            if tie and total <= ge:
                st['tie_excess'] += 1
                st.setdefault('tie_example', {'case': short(case), 'mode': mode, 'cutoff': str(cut), 'max_bond': mb, 'kept': total})
            else:
                fails.append(('bond_limit', '%d values kept with max_bond=%d and no tie at the boundary' % (total, mb)))
    else:
        rank = len(vals)
        want_total = rank if mb < 0 else min(mb, rank)
        if total != want_total:
            fails.append(('no_cutoff_total', 'bond dimension %d, expected %d' % (total, want_total)))
        for s in case['sectors']:
            n, sz = counts[(s['c0'], s['c1'])], len(s['s'])
            if n > sz or (0 <= mb < rank and abs(Fraction(mb * sz, rank) - n) > 1):
                fails.append(('no_cutoff_split', 'sector of size %d gets %d of max_bond=%d (rank %d)' % (sz, n, mb, rank)))
    # ---- absorb variants, product, error identity
    if absorbs:
        xd = blocks_of(x)
        sc2 = 4.0 ** (-case['scale_exp'])
        derr = sum(v * v for v in disc) * sc2
        U0, s0, V0 = res
        ref = None
        for ab in absorbs:
            st['absorb_runs'] += 1
            r2, err2 = call_trunc(sr, x, table, absorb=ab, **kw)
            if r2 is None:
                fails.append(('absorb_raises', 'absorb=%r: %s' % (ab, err2)))
                continue
            U2, s2, V2 = r2
            if ab is None:
                U2 = U2.copy()
                for (c0, c1) in U2.blocks:
                    U2.blocks[(c0, c1)] = U2.blocks[(c0, c1)] * s2.blocks[c1].reshape(1, -1)
            elif s2 is not None:
                fails.append(('absorb', 'absorb=%r returns singular values' % (ab,)))
            if list(U2.indices[1].chargemap.items()) != ob['chargemap'] or list(V2.indices[0].chargemap.items()) != ob['chargemap']:
                fails.append(('absorb', 'absorb=%r changes the bond table' % (ab,)))
                continue
            exact = ab in (None, -1, 1, 'left', 'right') or all(math.isqrt(v) ** 2 == v for v in kept) and case['scale_exp'] % 2 == 0
            bad = None
            for (c0, c1), n in counts.items():
                if n == 0:
                    continue
                u0, sv0, v0 = table[(c0, c1)]
                wantb = (u0[:, :n] * sv0[:n].reshape(1, -1)) @ v0[:n, :]
                gotb = U2.blocks[(c0, c1)] @ V2.blocks[(c1, c1)]
                okb = np.array_equal(gotb, wantb) if exact else np.allclose(gotb, wantb, rtol=1e-12, atol=1e-12)
                if not okb:
                    bad = (c0, c1)
            if bad is not None:
                fails.append(('absorb', 'absorb=%r: U.VH of sector %r is not U s VH of the kept values' % (ab, bad)))
            P = product_blocks(sr, U2, V2)
            if ref is None:
                ref = P
            elif not blocks_close(P, ref, exact):
                fails.append(('absorb', 'absorb=%r gives a different product' % (ab,)))
            e2 = sq_error(xd, P)
            if not (e2 == derr if exact else abs(e2 - derr) <= 1e-9 * max(1.0, derr)):
                fails.append(('error_identity', 'absorb=%r: |x - U s VH|^2 = %r, discarded weight %r' % (ab, e2, derr)))
    return ob, fails, counts


def replay_dict(case, mode, cut, mb, kind, detail, absorbs=None):
    return {'oracle': kind, 'detail': detail, 'case': case, 'cutoff_mode': mode, 'cutoff_num': cut.numerator,
            'cutoff_den': cut.denominator, 'cutoff_float': py_cutoff(case, mode, cut) if cut > 0 else float(cut),
            'max_bond': mb, 'absorbs': [repr(a) for a in (absorbs or [])],
            'call': 'symmray.linalg.svd_truncated(x, cutoff=cutoff_float, cutoff_mode=cutoff_mode, max_bond=max_bond, absorb=None) '
                    'with symmray.linalg.svd replaced by the stub returning the listed factors'}


def run(ctx):
    import symmray as sr
    rng = ctx.rng
    ok = common.standard_proof_phase(ctx)
    st = {'tie_excess': 0, 'absorb_runs': 0, 'f7': 0, 'float_gap': 0, 'raises': 0}
    ncases = 260 if ctx.thorough else 70
    ncut = 9 if ctx.thorough else 6
    nmb = 5 if ctx.thorough else 3
    exprs, meta, exprs_spec = [], [], []
    exprs_gen, meta_gen = [], []       # translator tie: generated selection region vs what the implementation keeps
    found = []       # (kind, replay)
    f7_found = []
    dist = {'symmetry': {}, 'fermionic': {}, 'mode': {}, 'sectors_removed': 0, 'real_truncation': 0}

    # pinned inputs first (section 8 of DESIGN: F7 (fixed), F8) then the random stream
    pinned = [
        {'symmetry': 'Z2', 'fermionic': False, 'duals': [False, True], 'charge': 0, 'ch0': [(0, 2), (1, 2)], 'ch1': [(0, 2), (1, 2)],
         'sectors': [{'c0': 0, 'c1': 0, 'u': [[1, 0], [0, 1]], 's': [3, 1], 'v': [[1, 0], [0, 1]]},
                     {'c0': 1, 'c1': 1, 'u': [[1, 0], [0, 1]], 's': [2, 1], 'v': [[1, 0], [0, 1]]}], 'scale_exp': 0},
        {'symmetry': 'Z2', 'fermionic': True, 'duals': [False, True], 'charge': 0, 'ch0': [(0, 3), (1, 3)], 'ch1': [(0, 3), (1, 3)],
         'sectors': [{'c0': 1, 'c1': 1, 'u': np.eye(3).tolist(), 's': [1, 1, 1], 'v': np.eye(3).tolist()},
                     {'c0': 0, 'c1': 0, 'u': np.eye(3).tolist(), 's': [1, 1, 1], 'v': np.eye(3).tolist()}], 'scale_exp': 0},
    ]
    cases = pinned + [gen_case(rng) for _ in range(ncases)]
    for ci, case in enumerate(cases):
        x, table = build(sr, case)
        vals = [v for s in case['sectors'] for v in s['s']]
        dist['symmetry'][case['symmetry']] = dist['symmetry'].get(case['symmetry'], 0) + 1
        dist['fermionic'][str(case['fermionic'])] = dist['fermionic'].get(str(case['fermionic']), 0) + 1
        configs = []
        for mode in (1, 2, 3, 4, 5, 6):
            cuts = gen_cutoffs(rng, case, mode, ncut)
            mbs = [-1] + gen_max_bonds(rng, case, nmb)
            if rng.random() < 0.2:
                mbs.append(0)
            for mb in mbs:
                for cut in (cuts if mb == -1 else rng.sample(cuts, min(len(cuts), 3))):
                    configs.append((mode, cut, mb))
        for mb in [-1, 0] + list(range(1, len(vals) + 3)):
            configs.append((rng.choice((1, 4)), Fraction(rng.choice((0, -1))), mb))
        absorb_at = set(rng.sample(range(len(configs)), min(len(configs), 6 if ctx.thorough else 3)))
        bycfg = {}
        for k, (mode, cut, mb) in enumerate(configs):
            ctx.count()
            dist['mode'][mode] = dist['mode'].get(mode, 0) + 1
            ob, fails, counts = check_config(sr, case, x, table, mode, cut, mb, ABSORBS if k in absorb_at else None, st)
            if ob is not None:
                impl = gopt(g_cm(case, ob['chargemap']))
                bycfg[(mode, cut, mb)] = counts
                if any(0 < n for n in counts.values()) and any(n < len(s['s']) for s, n in zip(case['sectors'], counts.values())) \
                        and len(case['sectors']) >= 2:
                    ctx.nontrivial((json.dumps(short(case), default=str), mode, str(cut), mb))
                    dist['real_truncation'] += 1
                if any(n == 0 for n in counts.values()) and any(n > 0 for n in counts.values()):
                    dist['sectors_removed'] += 1
            else:
                impl = 'None'
                st['raises'] += 1
            exprs.append('ocm_eqb (trunc %s %s %s %s %s) %s' % (
                gz(mode), gz(cut.numerator), gz(cut.denominator), gz(mb), g_secs(case), impl))
            meta.append((ci, mode, cut, mb))
            if ob is not None or (fails and fails[0][0] == 'raises'):
                cf = py_cutoff(case, mode, cut) if cut > 0 else float(cut)
                exprs_gen.append(gen_select_expr(case, mode, cf, mb,
                                                 None if ob is None else [counts[(s['c0'], s['c1'])] for s in case['sectors']]))
                meta_gen.append((ci, mode, cut, mb))
            if cut > 0:
                # the oracle's independent re-statement of the rule must agree with the Coq `trunc` the theorems are about
                want, _ = spec_counts(case, mode, cut, mb)
                code = code_of(case)
                wcm = sorted(((c1, n) for (c0, c1), n in want.items() if n), key=lambda cn: code[cn[0]])
                exprs_spec.append('ocm_eqb (trunc %s %s %s %s %s) %s' % (
                    gz(mode), gz(cut.numerator), gz(cut.denominator), gz(mb), g_secs(case), gopt(g_cm(case, wcm))))
            for kind, detail in fails:
                rp = replay_dict(case, mode, cut, mb, kind, detail, ABSORBS if k in absorb_at else None)
                if kind == 'F7':
                    st['f7'] += 1
                    f7_found.append(rp)
                else:
                    found.append((kind, rp))
        # monotonicity in the cutoff (same mode, same bond limit)
        for (mode, mb) in sorted(set((m, b) for (m, c, b) in bycfg if c > 0)):
            seq = sorted((c, bycfg[(mode, c, mb)]) for (m, c, b) in bycfg if m == mode and b == mb and c > 0)
            for (c1, k1), (c2, k2) in zip(seq, seq[1:]):
                ctx.count()
                if any(k2[s] > k1[s] for s in k1):
                    rp = replay_dict(case, mode, c2, mb, 'cutoff_monotone',
                                     'cutoff %s keeps %r but the larger cutoff %s keeps %r' % (c1, sorted(k1.items()), c2, sorted(k2.items())))
                    rp['smaller_cutoff'] = [c1.numerator, c1.denominator]
                    if above_total(mode, c2, vals):
                        st['f7'] += 1
                        f7_found.append(rp)
                    else:
                        found.append(('cutoff_monotone', rp))
        if ci < 12:
            # an unknown cutoff_mode: KeyError on the power table with a cutoff, irrelevant without one
            for cf in (0.5, 0.0):
                mbx = rng.choice([-1, 1, 2])
                ctx.count()
                resx, errx = call_trunc(sr, x, table, absorb=None, cutoff=cf, cutoff_mode=7, max_bond=mbx)
                obx = observe(case, table, resx) if resx is not None else None
                if resx is None or not isinstance(obx, str):
                    exprs_gen.append(gen_select_expr(case, 7, cf, mbx, None if resx is None else
                                                     [obx['counts'][(s['c0'], s['c1'])] for s in case['sectors']]))
                    meta_gen.append((ci, 7, Fraction(cf), mbx))
        if ci in (2, 3, 4):
            ctx.sample({'matrix': short(case), 'configs': [(m, str(c), b) for (m, c, b) in configs[:4]]})

    # no stored block at all: model None <-> the call raises
    empty = {'symmetry': 'Z2', 'fermionic': False, 'duals': [False, True], 'charge': 0, 'ch0': [(0, 2), (1, 3)], 'ch1': [(0, 2), (1, 2)],
             'sectors': [], 'scale_exp': 0}
    xe, te = build(sr, empty)
    empty_obs = []
    for mode, cut, mb in [(4, Fraction(0), 2), (4, Fraction(1, 2), 2), (1, Fraction(1, 2), -1), (4, Fraction(-1), -1), (4, Fraction(0), 0)]:
        ctx.count()
        res, err = call_trunc(sr, xe, te, absorb=None, cutoff=float(cut), cutoff_mode=mode, max_bond=mb)
        impl = 'None' if res is None else gopt(g_cm(empty, list(res[0].indices[1].chargemap.items())))
        if res is None:
            empty_obs.append({'cutoff': float(cut), 'cutoff_mode': mode, 'max_bond': mb, 'raises': err})
        exprs.append('ocm_eqb (trunc %s %s %s %s %s) %s' % (gz(mode), gz(cut.numerator), gz(cut.denominator), gz(mb), '[]', impl))
        meta.append(('empty', mode, cut, mb))
        exprs_gen.append(gen_select_expr(empty, mode, float(cut), mb, None if res is None else []))
        meta_gen.append(('empty', mode, cut, mb))

    bad = common.run_cases(ctx, 'trunc', IMPORTS, '', exprs)
    tie_broken = []
    if bad is None:
        tie_broken.append('cases.v (Model.trunc vs svd_truncated) did not evaluate')
    elif bad:
        tie_broken += ['Model.trunc disagrees with svd_truncated on case %r' % (meta[i],) for i in bad[:8]]
        for i in bad[:3]:
            ci, mode, cut, mb = meta[i]
            if ci != 'empty' and not found:
                found.append(('model_disagreement', replay_dict(cases[ci], mode, cut, mb, 'model_disagreement',
                                                                'svd_truncated bond table differs from Model.trunc')))

    bad_s = common.run_cases(ctx, 'spec', IMPORTS, '', exprs_spec)
    if bad_s is None:
        tie_broken.append('cases.v (oracle rule vs Model.trunc) did not evaluate')
    elif bad_s:
        tie_broken.append('the oracle re-statement of the rule disagrees with Model.trunc on %d cases (harness defect)' % len(bad_s))

    bad_g = common.run_cases(ctx, 'gensel', IMPORTS_GEN, '', exprs_gen)
    if bad_g is None:
        tie_broken.append('cases.v (Gen.TruncGen.gen_svd_truncated_select vs svd_truncated) did not evaluate')
    elif bad_g:
        tie_broken += ['the selection region generated from the source (Gen.TruncGen) disagrees with svd_truncated on case %r'
                       % (meta_gen[i],) for i in bad_g[:8]]
        for i in bad_g[:3]:
            ci, mode, cut, mb = meta_gen[i]
            if ci != 'empty' and mode != 7 and not found:
                found.append(('generated_model_disagreement', replay_dict(
                    cases[ci], mode, cut, mb, 'generated_model_disagreement',
                    'per-sector counts of svd_truncated differ from Gen.TruncGen.gen_svd_truncated_select')))

    # ---- calc_sub_max_bonds directly
    exprs2, meta2 = [], []
    exprs_gc, meta_gc = [], []         # translator tie: generated calc_sub_max_bonds / argsort
    sizes_list = [tuple(rng.randint(1, 9) for _ in range(rng.randint(1, 6))) for _ in range(500 if ctx.thorough else 150)]
    sizes_list += [(22, 11, 11), (22, 22), (1,), (1, 1, 1, 1), (5, 3, 3), ()]
    pins = {(22, 11, 11): [30], (22, 22): [30], (5, 3, 3): [4, 7]}
    for sizes in sizes_list:
        T = sum(sizes)
        for mb in sorted(set([-1, 0, 1, T - 1, T, T + 1] + [rng.randint(0, T + 1) for _ in range(3)] + pins.get(sizes, []))):
            if mb < -1:
                continue
            ctx.count()
            try:
                sr.linalg.calc_sub_max_bonds.cache_clear()
                got = tuple(int(v) for v in sr.linalg.calc_sub_max_bonds(tuple(sizes), mb))
            except ZeroDivisionError:
                got = None
            gs = glist([gz(v) for v in sizes])
            ggot = gopt(glist([gz(v) for v in got])) if got is not None else 'None'
            # observable contract, on the implementation alone
            if got is not None:
                want_total = T if mb < 0 else min(mb, T)
                if sum(got) != want_total or any(g > s or g < 0 for g, s in zip(got, sizes)) or len(got) != len(sizes):
                    found.append(('calc_sub_max_bonds', {'oracle': 'calc_sub_max_bonds', 'sizes': list(sizes), 'max_bond': mb,
                                                         'got': list(got), 'detail': 'total must be %d and every entry within its sector size' % want_total}))
            if got is not None and 0 <= mb < T:
                pyb = [int((mb / T) * sz) for sz in sizes]      # the float step, recomputed by the harness
                exb = [(mb * sz) // T for sz in sizes]
                exprs2.append('list_eqb Z.eqb (distribute %s %s) %s' % (glist([gz(v) for v in pyb]), gz(mb), glist([gz(v) for v in got])))
                meta2.append((sizes, mb, 'distribute'))
                if pyb != exb:
                    st['float_gap'] += 1
                    st.setdefault('float_gap_example', {'sizes': list(sizes), 'max_bond': mb, 'float_floor': pyb, 'exact_floor': exb, 'result': list(got)})
                    continue
                ctx.nontrivial(('csmb', sizes, mb))
            exprs2.append('ozl_eqb (calc_sub_max_bonds %s %s) %s' % (gs, gz(mb), ggot))
            meta2.append((sizes, mb, 'calc_sub_max_bonds'))
            exprs_gc.append('ozl_eqb (gen_calc_sub_max_bonds %s %s) %s' % (gs, gz(mb), ggot))
            meta_gc.append((sizes, mb, 'gen_calc_sub_max_bonds'))
    bad2 = common.run_cases(ctx, 'csmb', IMPORTS, '', exprs2)
    if bad2 is None:
        tie_broken.append('cases.v (Model.calc_sub_max_bonds vs implementation) did not evaluate')
    elif bad2:
        tie_broken += ['Model.%s disagrees with calc_sub_max_bonds on %r' % (meta2[i][2], meta2[i][:2]) for i in bad2[:8]]
        for i in bad2[:2]:
            found.append(('calc_sub_max_bonds', {'oracle': 'calc_sub_max_bonds_model', 'sizes': list(meta2[i][0]), 'max_bond': meta2[i][1],
                                                 'detail': 'result differs from the exact model (%s)' % meta2[i][2]}))

    n_argsort = 0
    for _ in range(300 if ctx.thorough else 100):
        seq_ = [rng.randint(0, 4) for _ in range(rng.randint(0, 8))]
        ctx.count()
        exprs_gc.append('ozl_eqb (gen_argsort %s) (Some %s)' % (glist([gz(v) for v in seq_]),
                                                               glist([gz(v) for v in sr.linalg.argsort(list(seq_))])))
        meta_gc.append((tuple(seq_), None, 'gen_argsort'))
        n_argsort += 1
    bad_gc = common.run_cases(ctx, 'gencsmb', IMPORTS_GEN, '', exprs_gc)
    if bad_gc is None:
        tie_broken.append('cases.v (Gen.TruncGen.gen_calc_sub_max_bonds / gen_argsort vs implementation) did not evaluate')
    elif bad_gc:
        tie_broken += ['the function generated from the source (Gen.TruncGen.%s) disagrees with the implementation on %r'
                       % (meta_gc[i][2], meta_gc[i][:2]) for i in bad_gc[:8]]
        for i in bad_gc[:2]:
            if meta_gc[i][2] == 'gen_calc_sub_max_bonds':
                found.append(('calc_sub_max_bonds', {'oracle': 'calc_sub_max_bonds_model', 'sizes': list(meta_gc[i][0]), 'max_bond': meta_gc[i][1],
                                                     'detail': 'result differs from the function generated from the source (Gen.TruncGen)'}))

    # ---- the truncated FACTORS (Model/Truncate.a_svd_truncated) vs svd_truncated under the same exact svd stub
    import tie_truncate
    tie_broken += tie_truncate.tie(ctx, sr)
    for f in tie_truncate.found[:3]:      # reported at once: the streams below may not survive a broken svd_truncated
        ctx.violation('C13 truncated factors: %s' % (f.get('error') or f.get('raised')), {'oracle': 'tie_truncate', **f})

    # ---- second stream: REAL svd on random matrices, tolerance
    real_fails = real_stream(ctx, sr, 60 if ctx.thorough else 20, st)
    found += real_fails

    # ---- report
    seen_kinds = {}
    for kind, rp in found:
        seen_kinds[kind] = seen_kinds.get(kind, 0) + 1
    emitted = 0
    done = set()
    for kind, rp in found:
        if kind in done or emitted >= 5:
            continue
        done.add(kind)
        emitted += 1
        ctx.violation('C13 oracle %s: %s' % (kind, rp.get('detail', '')), rp)
    if f7_found:
        rp = min(f7_found, key=lambda r: (r['case'] is not cases[0], r['max_bond'] != -1, 'smaller_cutoff' not in r, len(json.dumps(r, default=str)),
                                          json.dumps(r, default=str, sort_keys=True)))
        rp = dict(rp, signature=F7_SIG)
        # fixed in /repo by d8706ac (guard `n_chi_all == 0`): reported again if the guard is lost
        ctx.violation('regression of the fixed defect F7: a cumulative cutoff above the total weight keeps values '
                      '(modes 1/2 keep nothing there): %s' % rp['detail'], rp)
    ctx.broken += tie_broken
    if (not ok or tie_broken) and not found and not ctx.violations:
        ctx.violation('proof obligation or tie of C13 no longer checks', {'broken': ctx.broken}, found_input=False)
    ctx.coverage['rule'] = (
        'matrices given by exact factors (signed-permutation isometries, integer singular values scaled by 2^-j) over Z2/U1/Z4/Z2Z2/U1U1, '
        'abelian and fermionic, random dualness/charge/sparsity/insertion order; per matrix all six cutoff modes x cutoffs placed at, '
        'half a unit below and above every value / prefix weight and beyond the total x max_bond in {-1, 1..rank+2}; plus the no-cutoff '
        'branch for every max_bond; absorb options on sampled configurations; calc_sub_max_bonds on random size tuples. '
        'non-trivial = at least two sectors, something kept and something discarded; distinct by (matrix, mode, cutoff, max_bond)')
    ctx.extra['tie'] = {'svd_truncated_cases': len(exprs), 'calc_sub_max_bonds_cases': len(exprs2),
                        'oracle_rule_vs_trunc_cases': len(exprs_spec),
                        'generated_select_vs_svd_truncated_cases': len(exprs_gen),
                        'generated_calc_sub_max_bonds_cases': len(exprs_gc) - n_argsort,
                        'generated_argsort_cases': n_argsort}
    ctx.extra['distribution'] = dist
    ctx.extra['oracle_failures_by_kind'] = seen_kinds
    ctx.extra['observations'] = {
        'F7_regression_occurrences (fixed defect: cumulative cutoff above the total weight kept everything)': st['f7'],
        'tie_at_bond_limit_exceeds_max_bond (observation F8, characterised exactly by C13_bond_limit)': st['tie_excess'],
        'tie_example': st.get('tie_example'),
        'calc_sub_max_bonds_float_floor_differs_from_exact_floor': st['float_gap'],
        'float_gap_example': st.get('float_gap_example'),
        'no_stored_block_raises (not a violation: there is no matrix to truncate; model = None)': empty_obs,
        'absorb_runs': st['absorb_runs'],
        'configurations_that_raise': st['raises'],
    }
    ctx.note('C13: float rounding of `frac*sz` in calc_sub_max_bonds is not modelled; the model is exact-rational, the float floor is '
             'recomputed by the harness and the remainder distribution is compared on it; singular values and cutoffs are dyadic so '
             'every other float operation of the selection is exact')
    ctx.note('C13: LAPACK is replaced by a stub in the correspondence (contract: values non-increasing, non-negative); the real svd is '
             'exercised by the tolerance stream')


# ---------------------------------------------------------------- real-svd stream
def real_eval(sr, info):
    """one configuration of the real-svd stream; `info` is the replayable description. -> list of (kind, detail)"""
    tupk = lambda c: tuple(c) if isinstance(c, list) else c
    blocks = {(tupk(k[0]), tupk(k[1])): np.array(v, dtype=float) for k, v in info['blocks']}
    sv = {k: np.linalg.svd(b, compute_uv=False) for k, b in blocks.items()}
    ch0 = {tupk(c): d for c, d in info['ch0']}
    ch1 = {tupk(c): d for c, d in info['ch1']}
    ixs = (sr.BlockIndex(ch0, dual=info['duals'][0]), sr.BlockIndex(ch1, dual=info['duals'][1]))
    cls = sr.FermionicArray if info['fermionic'] else sr.AbelianArray
    x = cls(indices=ixs, charge=tupk(info['charge']), blocks={k: v.copy() for k, v in blocks.items()}, symmetry=info['symmetry'],
            **({'oddpos': 7} if info['fermionic'] else {}))
    # pending (lazy) signs on the input: the value decomposed is the signed one, nothing else changes
    lz = info.get('lazy')
    if info['fermionic'] and lz:
        x = {'flip0': lambda a: a.phase_flip(0), 'flip1': lambda a: a.phase_flip(1), 'global': lambda a: a.phase_global(),
             'flip01': lambda a: a.phase_flip(0, 1)}[lz](x)
    xd = blocks_of(x)
    allv = np.sort(np.concatenate(list(sv.values())))
    rank = len(allv)
    mode, cut, mb = info['cutoff_mode'], info['cutoff'], info['max_bond']
    pw = 2 if mode in (3, 4) else 1
    tot = float(np.sum(allv ** pw))
    out = []
    res, err = call_trunc(sr, x, None, cutoff=cut, cutoff_mode=mode, max_bond=mb, absorb=None)
    if res is None:
        return [('real_raises', err)]
    U, s, VH = res
    kept = {k: (len(s.blocks[k[1]]) if k[1] in s.blocks else 0) for k in sv}
    kv = np.concatenate([sv[k][:n_] for k, n_ in kept.items()])
    dv = np.concatenate([sv[k][n_:] for k, n_ in kept.items()])
    if not all(np.allclose(s.blocks[k[1]], sv[k][:n_], rtol=1e-9, atol=1e-12) for k, n_ in kept.items() if n_):
        out.append(('real_values', 'kept values are not the leading singular values of each block'))
    if len(kv) and len(dv) and kv.min() < dv.max() - 1e-12:
        out.append(('real_kept_ge_discarded', 'kept %r < discarded %r' % (kv.min(), dv.max())))
    if mb > 0 and len(kv) > mb:
        out.append(('real_bond_limit', '%d kept, max_bond %d' % (len(kv), mb)))
    # float re-statement of the rule (generic values: no ties, no boundary cases)
    if mode == 1:
        t = cut
    elif mode == 2:
        t = cut * allv[-1]
    else:
        c = cut * tot if mode in (4, 6) else cut
        idx = int(np.searchsorted(np.cumsum(allv ** pw), c, side='left'))
        t = allv[idx] if idx < rank else math.inf
    if 0 < mb < rank:
        t = max(t, allv[rank - mb])
    want = int(np.sum(allv >= t))
    if want != len(kv):
        out.append(('real_rule', '%d kept, the rule prescribes %d' % (len(kv), want)))
    Us = U.copy()
    for (c0, c1) in Us.blocks:
        Us.blocks[(c0, c1)] = Us.blocks[(c0, c1)] * s.blocks[c1].reshape(1, -1)
    P = product_blocks(sr, Us, VH)
    e2, d2 = sq_error(xd, P), float(np.sum(dv ** 2))
    if abs(e2 - d2) > 1e-8 * max(1.0, d2):
        out.append(('real_error_identity', '|x-USV|^2=%r discarded weight=%r' % (e2, d2)))
    for ab in (-1, 0, 1):
        r2, err2 = call_trunc(sr, x, None, cutoff=cut, cutoff_mode=mode, max_bond=mb, absorb=ab)
        if r2 is None or not blocks_close(product_blocks(sr, r2[0], r2[2]), P, False):
            out.append(('real_absorb', 'absorb=%r product differs' % ab))
    return out


def real_stream(ctx, sr, n, st):
    rng = ctx.rng
    out = []
    for _ in range(n):
        case = gen_case(rng, style='small')
        nrng = np.random.default_rng(rng.randrange(2 ** 32))
        blocks = {}
        for s in case['sectors']:
            d0, d1 = dict(case['ch0'])[s['c0']], dict(case['ch1'])[s['c1']]
            blocks[(s['c0'], s['c1'])] = nrng.normal(size=(d0, d1))
        allv = np.sort(np.concatenate([np.linalg.svd(b, compute_uv=False) for b in blocks.values()]))
        rank = len(allv)
        for mode in (1, 2, 3, 4, 5, 6):
            pw = 2 if mode in (3, 4) else 1
            tot = float(np.sum(allv ** pw))
            base = {1: float(allv[rank // 2]), 2: 0.5, 3: tot / 3, 4: 1 / 3, 5: tot / 3, 6: 1 / 3}[mode]
            for f in (0.3, 1.0, 1.7, 3.6):      # 3.6: beyond the total weight / the largest value
                cut = base * f * (0.9 + 0.2 * rng.random())
                mb = rng.choice([-1, rng.randint(1, rank + 1)])
                ctx.count()
                info = {'oracle': 'real_svd', 'symmetry': case['symmetry'], 'fermionic': case['fermionic'], 'duals': case['duals'],
                        'charge': case['charge'], 'ch0': case['ch0'], 'ch1': case['ch1'],
                        'blocks': [[list(k), v.tolist()] for k, v in blocks.items()], 'cutoff': cut, 'cutoff_mode': mode, 'max_bond': mb,
                        'lazy': rng.choice([None, 'flip0', 'flip1', 'global', 'flip01']) if case['fermionic'] else None,
                        'call': 'symmray.linalg.svd_truncated(x, cutoff=cutoff, cutoff_mode=cutoff_mode, max_bond=max_bond) with the real svd'}
                for kind, detail in real_eval(sr, info):
                    out.append((kind, dict(info, detail=detail)))
    return out


# ---------------------------------------------------------------- replay
def replay(path):
    import symmray as sr
    r = json.load(open(path))
    print(json.dumps({k: v for k, v in r.items() if k != 'case'}, indent=1))
    st = {'tie_excess': 0, 'absorb_runs': 0, 'f7': 0}
    if r.get('oracle') in ('calc_sub_max_bonds', 'calc_sub_max_bonds_model'):
        got = sr.linalg.calc_sub_max_bonds(tuple(r['sizes']), r['max_bond'])
        T = sum(r['sizes'])
        want_total = T if r['max_bond'] < 0 else min(r['max_bond'], T)
        print('calc_sub_max_bonds ->', got, ' expected total', want_total)
        return 0 if sum(got) == want_total and all(g <= s for g, s in zip(got, r['sizes'])) else 1
    if r.get('oracle') == 'real_svd':
        fails = real_eval(sr, r)
        for kind, detail in fails:
            print('FAILS', kind, detail)
        return 1 if fails else 0
    if 'case' not in r:
        return 0
    case = normalise(r['case'])
    x, table = build(sr, case)
    cut = Fraction(r['cutoff_num'], r['cutoff_den'])
    absorbs = ABSORBS if r.get('absorbs') else None
    ob, fails, counts = check_config(sr, case, x, table, r['cutoff_mode'], cut, r['max_bond'], absorbs, st)
    print('matrix:', json.dumps(short(case), default=str))
    print('implementation keeps per sector:', None if counts is None else sorted(counts.items()))
    if r.get('smaller_cutoff'):
        c1 = Fraction(*r['smaller_cutoff'])
        ob1, f1, k1 = check_config(sr, case, x, table, r['cutoff_mode'], c1, r['max_bond'], None, st)
        print('with the smaller cutoff %s it keeps: %r' % (c1, None if k1 is None else sorted(k1.items())))
        if k1 is not None and counts is not None and any(counts[s] > k1[s] for s in k1):
            fails.append(('cutoff_monotone', 'larger cutoff keeps more'))
    for kind, detail in fails:
        print('FAILS', kind, detail)
    return 1 if fails else 0
