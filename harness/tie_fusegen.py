"""Run-time tie of Gen/FuseGen.v (tr/gen_fuse.py: the GENERATED `calc_fuse_block_info` and
`_fuse_blocks_via_insert`) to the implementation it was generated from.

For every case (sym, x, groups) the working tree's `calc_fuse_block_info(x, groups)` is called
DIRECTLY (no cache in front of it) and its nine results are compared inside Coq (vm_compute)
with `gen_calc_fuse_block_info x groups`: num_groups, group_singlets, perm, position,
axes_before, axes_after, new_axes (insertion order), the new index list (charge tables, direction,
sub-index lists and the `extents` ordered dict of ordered dicts) and the block map (insertion
order; per stored sector the fused block shape, the fused sector and the sub-sector of every
group).  Then `_fuse_blocks_via_insert` is called directly on the implementation's own tables and
its result (the dict of fused blocks in insertion order, every element) is compared with
`gen_fuse_blocks_via_insert` applied to the same tables.  So the translator itself is tested on
every run: a translator bug shows as a disagreement, never as a silently wrong theorem.

    tie(ctx, sr, cases) -> list of broken-tie strings      cases = [(sym, x, groups), ...]
"""
import os
import sys

sys.path.insert(0, os.path.dirname(os.path.abspath(__file__)))
import numpy as np  # noqa: E402

import common  # noqa: E402
import gen  # noqa: E402

IMPORTS = ('From SV Require Import Base.Sym Base.Tensor Model.SymInst Model.Sectors Model.Array Gen.FuseGen.\n')
PREAMBLE = '''Definition bm_eqb (G : Symmetry) (a b : list (list (C G) * (list nat * list (C G) * list (list (C G))))) : bool :=
  list_eqb (pair_eqb (list_eqb (ceqb G))
              (pair_eqb (pair_eqb (list_eqb Nat.eqb) (list_eqb (ceqb G))) (list_eqb (list_eqb (ceqb G))))) a b.
Definition info_agrees (G : Symmetry) (R : Ring) (x : aarray G R) (gs : list (list Z))
    (ng : Z) (sing perm : list Z) (pos : Z) (bef aft : list Z) (nax : list (Z * Z)) (nix : list (index G))
    (bm : list (list (C G) * (list nat * list (C G) * list (list (C G))))) : bool :=
  let '(a1, a2, a3, a4, a5, a6, a7, a8, a9) := gen_calc_fuse_block_info G R x gs in
  Z.eqb a1 ng && list_eqb Z.eqb a2 sing && list_eqb Z.eqb a3 perm && Z.eqb a4 pos && list_eqb Z.eqb a5 bef &&
  list_eqb Z.eqb a6 aft && list_eqb (pair_eqb Z.eqb Z.eqb) a7 nax && list_eqb (index_eqb G) a8 nix && bm_eqb G a9 bm.
Definition insert_agrees (G : Symmetry) (R : Ring) (blks : list (list (C G) * tensor R))
    (ng : Z) (sing perm : list Z) (pos : Z) (nix : list (index G))
    (bm : list (list (C G) * (list nat * list (C G) * list (list (C G))))) (y : list (list (C G) * tensor R)) : bool :=
  blocks_eqb_strict G R (gen_fuse_blocks_via_insert G R blks ng sing perm pos nix bm) y.
'''


def gz(v):
    return gen.gnum(int(v))


def gzlist(l):
    return '[' + '; '.join(gz(v) for v in l) + ']'


def gblockmap(bm):
    items = []
    for s, (shape, ns, subs) in bm.items():
        items.append('(%s, (%s, %s, [%s]))' % (gen.gsec(s), gen.gnatlist(shape), gen.gsec(ns), '; '.join(gen.gsec(q) for q in subs)))
    return '[' + '; '.join(items) + ']'


def gblocks(blocks, ring):
    return '[' + '; '.join('(%s, %s)' % (gen.gsec(s), gen.gtensor(b, ring)) for s, b in blocks.items()) + ']'


def tie(ctx, sr, cases, name='fusegen', shard=40, limit=None):
    import autoray as ar
    import symmray.abelian_core as ac
    broken, exprs, meta = [], [], []
    stats = {'info_cases': 0, 'insert_cases': 0, 'singlet_group': 0, 'multi_group': 0, 'nested': 0, 'merged_blocks': 0,
             'kept_axes': 0}
    if not os.path.exists(os.path.join(common.COQ, 'Gen', 'FuseGen.vo')):
        ctx.extra['tie_fusegen'] = {'skipped': 'Gen/FuseGen.vo is not built'}
        return ['Gen/FuseGen.v (generated calc_fuse_block_info / _fuse_blocks_via_insert) is not available: its run-time tie was not evaluated']
    if limit is None:
        limit = 400 if ctx.thorough else 150
    for sym, x, groups in cases:
        if len(exprs) >= 2 * limit:
            break
        groups = tuple(tuple(int(a) for a in g) for g in groups if len(g))
        if not groups or not x.blocks:
            continue
        what = 'symmetry %s, groups %s, stored sectors %s' % (sym, groups, list(x.blocks))
        try:
            res = ac.calc_fuse_block_info(x, groups)
            (ng, sing, perm, pos, bef, aft, nax, nix, bm) = res
        except Exception as e:
            broken.append('calc_fuse_block_info raised %s: %s where the generated function returns a value (%s)' % (type(e).__name__, e, what))
            continue
        try:
            ring = gen.ring_of(x)
            A = '%s %s' % (sym, ring)
            X = gen.garray(x, sym, ring)
            gl = '[' + '; '.join(gzlist(g) for g in groups) + ']'
            NIX = '[' + '; '.join(gen.gindex(ix, sym) for ix in nix) + ']'
            BM = gblockmap(bm)
            NAX = '[' + '; '.join('(%s, %s)' % (gz(k), gz(v)) for k, v in nax.items()) + ']'
            tables = '%s %s %s %s' % (gz(ng), gzlist(sing), gzlist(perm), gz(pos))
            exprs.append('info_agrees %s %s %s %s %s %s %s %s %s' % (A, X, gl, tables, gzlist(bef), gzlist(aft), NAX, NIX, BM))
            meta.append(('calc_fuse_block_info', what))
            stats['info_cases'] += 1
        except Exception as e:
            broken.append('the result of calc_fuse_block_info cannot be serialised (%s): %s: %s' % (what, type(e).__name__, e))
            continue
        stats['singlet_group'] += any(len(g) == 1 for g in groups)
        stats['multi_group'] += len(groups) > 1
        stats['nested'] += any(ix.subinfo is not None for ix in x.indices)
        stats['kept_axes'] += sum(len(g) for g in groups) < x.ndim
        try:
            ex = x.get_any_array()
            backend = ar.infer_backend(ex)
            nb = ac._fuse_blocks_via_insert(x.blocks, ng, sing, perm, pos, nix, bm, ar.get_lib_fn(backend, 'transpose'),
                                            ar.get_lib_fn(backend, 'reshape'), ar.get_lib_fn(backend, 'zeros'), {'dtype': ex.dtype})
            stats['merged_blocks'] += len(nb) < len(x.blocks)
            exprs.append('insert_agrees %s %s %s %s %s %s' % (A, gblocks(x.blocks, ring), tables, NIX, BM, gblocks(nb, ring)))
            meta.append(('_fuse_blocks_via_insert', what))
            stats['insert_cases'] += 1
        except Exception as e:
            broken.append('_fuse_blocks_via_insert raised / is not serialisable (%s): %s: %s' % (what, type(e).__name__, e))
    ctx.count(len(exprs))
    bad = common.run_cases(ctx, name, IMPORTS, PREAMBLE, exprs, shard=shard)
    if bad is None:
        broken.append('cases.v (Gen.FuseGen vs calc_fuse_block_info / _fuse_blocks_via_insert) did not evaluate')
    else:
        broken += ['Gen.FuseGen: the generated %s disagrees with the implementation (%s)' % meta[i] for i in bad[:10]]
        stats['disagreements'] = len(bad)
        if bad:
            ctx.extra['fusegen_disagreeing_cases'] = [exprs[i][:3000] for i in bad[:2]]
    ctx.extra['tie_fusegen'] = stats
    return broken


def main(argv):
    n = int(argv[1]) if len(argv) > 1 else 200
    seed = int(argv[2]) if len(argv) > 2 else 0
    os.environ.setdefault('PYTHONHASHSEED', '0')
    sys.path.insert(0, common.REPO)
    import symmray as sr
    import tie_concat
    ctx = common.Ctx('C05', 'quick', seed)
    ctx.rng.seed(seed * 7919 + 11)
    cases = tie_concat.make_cases(ctx.rng, sr, n - n // 4) + tie_concat.hard_cases(ctx.rng, sr, n // 4)
    broken = tie(ctx, sr, cases, name='fusegen_selftest', limit=n)
    print('tie_fusegen self-test: implementation %s' % os.path.dirname(sr.__file__))
    print('stats: %s' % ctx.extra.get('tie_fusegen'))
    for b in broken:
        print('BROKEN-TIE: ' + b)
    for e in ctx.extra.get('cases_errors', []):
        print('CASES-ERROR: ' + e)
    return 1 if broken else 0


if __name__ == '__main__':
    sys.exit(main(sys.argv))
