"""C02 — abelian contraction equals dense contraction."""
import json

import numpy as np

import common
import gen
import refsym
import replaylib as rl

IMPORTS = 'From SV Require Import Base.Sym Base.Tensor Model.SymInst Model.Sectors Model.Array.\n'
SYMS = ['Z2', 'U1', 'Z2Z2', 'U1U1', 'Z4']
MODES = {'auto': 'MAuto', 'fused': 'MFused', 'blockwise': 'MBlockwise'}
# run-time tie of the TRANSLATED block-pairing logic (Gen/BlockwiseGen.v, tr/gen_blockwise.py): own shard and imports,
# so that the hand-model tie above keeps working when the generated file is missing
GEN_IMPORTS = IMPORTS + 'From SV Require Import Gen.BlockwiseGen.\n'
GEN_PREAMBLE = '''Definition aeq_strict (G : Symmetry) (R : Ring) (x y : aarray G R) : bool :=
  list_eqb (index_eqb G) (indices G R x) (indices G R y) && ceqb G (charge G R x) (charge G R y)
  && blocks_eqb_strict G R (blocks G R x) (blocks G R y).
'''


def rand_subsector_pair(rng, sr, sym, cplx):
    """>=2 contracted axes with identical tables on both sides, free legs with one
    charge each (or none), and blocks removed independently from a and b: inside
    one combined contracted charge the two operands store different joint
    sub-sectors, which the fused path has to intersect before it concatenates."""
    ncon = rng.choice([2, 2, 3])
    fa, fb = rng.choice([0, 1]), rng.choice([0, 1])
    nda, ndb = ncon + fa, ncon + fb
    axa = rng.sample(range(nda), ncon)
    axb = rng.sample(range(ndb), ncon)
    one = lambda: dict([rng.choice(sorted(gen.rand_chargemap(rng, sym, maxcharges=3, maxsize=2).items()))])
    cma = [one() for _ in range(nda)]
    cmb = [one() for _ in range(ndb)]
    dua = [rng.random() < 0.5 for _ in range(nda)]
    dub = [rng.random() < 0.5 for _ in range(ndb)]
    same_size = rng.random() < 0.7
    for i, j in zip(axa, axb):
        cm = gen.rand_chargemap(rng, sym, maxcharges=3, maxsize=2)
        while len(cm) < 2:
            cm = gen.rand_chargemap(rng, sym, maxcharges=3, maxsize=2)
        if same_size:
            d = rng.choice([1, 1, 2])
            cm = {c: d for c in cm}
        cma[i] = cm; cmb[j] = dict(cm); dub[j] = not dua[i]
    a = gen.rand_array(rng, sr, sym, chargemaps=cma, duals=dua, cplx=cplx, lo=-2, hi=2, keep=1.0, maxsize=2)
    sa = rng.choice(list(a.blocks)) if a.blocks else None
    qb = None
    if sa is not None:
        sb = [rng.choice(sorted(cm)) for cm in cmb]
        for i, j in zip(axa, axb):
            sb[j] = sa[i]
        qb = refsym.csum(sym, [refsym.signed(sym, c, d) for c, d in zip(sb, dub)])
    b = gen.rand_array(rng, sr, sym, chargemaps=cmb, duals=dub, charge=qb, cplx=cplx, lo=-2, hi=2, keep=1.0, maxsize=2)
    # independent removals, at least one on each side when possible
    for x in (a, b):
        ks = sorted(x.blocks)
        if len(ks) >= 2:
            for kk in rng.sample(ks, rng.randint(1, max(1, len(ks) // 2))):
                del x.blocks[kk]
    return a, b, axa, axb


def rand_pair(rng, sr, sym, cplx, maxnd=4):
    if rng.random() < 0.2:
        return rand_subsector_pair(rng, sr, sym, cplx)
    nda, ndb = rng.choice([0, 1, 2, 2, 3, 3, 4]), rng.choice([0, 1, 2, 2, 3, 3, 4])
    ncon = rng.randint(0 if rng.random() < 0.2 else min(1, nda, ndb), min(nda, ndb))
    axa = rng.sample(range(nda), ncon)
    axb = rng.sample(range(ndb), ncon)
    cma = [gen.rand_chargemap(rng, sym) for _ in range(nda)]
    dua = [rng.random() < 0.5 for _ in range(nda)]
    cmb = [gen.rand_chargemap(rng, sym) for _ in range(ndb)]
    dub = [rng.random() < 0.5 for _ in range(ndb)]
    for i, j in zip(axa, axb):
        cmb[j] = dict(cma[i])
        dub[j] = not dua[i]
    keep = None
    if ncon >= 2 and rng.random() < 0.6:
        # several contracted charge tuples per free sector: block pairs accumulate into one result block
        for i, j in zip(axa, axb):
            cm = gen.rand_chargemap(rng, sym, maxcharges=3, maxsize=2)
            while len(cm) < 2:
                cm = gen.rand_chargemap(rng, sym, maxcharges=3, maxsize=2)
            cma[i] = cm; cmb[j] = dict(cm)
        keep = rng.choice([1.0, 1.0, ('drop', 1), 0.8])
    a = gen.rand_array(rng, sr, sym, chargemaps=cma, duals=dua, cplx=cplx, lo=-2, hi=2, keep=keep, maxsize=2)
    qb = None
    if a.blocks and rng.random() < 0.8:
        # total charge of b chosen so that at least one of its valid sectors aligns with a stored sector of a
        sa = rng.choice(list(a.blocks))
        sb = [rng.choice(sorted(cm)) for cm in cmb]
        for i, j in zip(axa, axb):
            sb[j] = sa[i]
        qb = refsym.csum(sym, [refsym.signed(sym, c, d) for c, d in zip(sb, dub)])
    b = gen.rand_array(rng, sr, sym, chargemaps=cmb, duals=dub, charge=qb, cplx=cplx, lo=-2, hi=2, keep=keep, maxsize=2)
    return a, b, axa, axb


def dense_oracle(a, b, axa, axb, c):
    """numpy.tensordot on own dense embeddings vs the result embedded in the
    un-pruned tables of the free legs.  Returns None if equal, else a dict."""
    da, db = gen.densify(a), gen.densify(b)
    want = np.tensordot(da, db, axes=(axa, axb))
    free = [ix for i, ix in enumerate(a.indices) if i not in axa] + [ix for j, ix in enumerate(b.indices) if j not in axb]
    if np.ndim(c) == 0 and not hasattr(c, 'blocks'):
        got = np.asarray(c)
    else:
        try:
            got = gen.densify(c, indices=free)
        except (KeyError, ValueError) as e:
            return {'error': 'result does not embed into the free legs: %s' % e}
        if [ix.dual for ix in c.indices] != [ix.dual for ix in free]:
            return {'error': 'directions of the result legs differ from the operands\' free legs'}
        for ixc, ixf in zip(c.indices, free):
            for ch, d in ixc.chargemap.items():
                if ixf.chargemap.get(ch) != d:
                    return {'error': 'result table entry %r:%r not in operand table' % (ch, d)}
    if got.shape != want.shape or not np.array_equal(got, want):
        return {'expected_dense': want.tolist() if want.size < 200 else 'large', 'got_dense': got.tolist() if got.size < 200 else 'large'}
    return None


def describe(x):
    return {'class': type(x).__name__, 'charge': x.charge, 'indices': [([list(kv) for kv in ix.chargemap.items()], ix.dual) for ix in x.indices],
            'blocks': {str(k): np.asarray(v).tolist() for k, v in x.blocks.items()}}


def gaxes_spec(axa, axb):
    z = lambda l: '[' + '; '.join(gen.gnum(v) for v in l) + ']'
    return '(inr (%s, %s))' % (z(axa), z(axb))


def run(ctx):
    import symmray as sr
    ok = common.standard_proof_phase(ctx)
    rng = ctx.rng
    n_cases = 1500 if ctx.thorough else 260
    exprs, meta, found = [], [], []
    gexprs, gmeta, gen_broken = [], [], []
    try:
        from symmray.abelian_core import drop_misaligned_sectors
    except Exception as e:
        drop_misaligned_sectors = None
        gen_broken.append('import of symmray.abelian_core.drop_misaligned_sectors: %s: %s' % (type(e).__name__, e))
    stats = {'subsector_mismatch': 0, 'aligned_pairs>=2': 0, 'no_aligned': 0, 'scalar': 0, 'outer': 0, 'pruned': 0, 'neg_axes': 0, 'complex': 0}
    for k in range(n_cases):
        sym = SYMS[k % len(SYMS)]
        cplx = rng.random() < 0.3
        a, b, axa, axb = rand_pair(rng, sr, sym, cplx)
        ring = gen.ring_of(a, b)
        if ring == 'GRing':
            stats['complex'] += 1
        # negative axes now and then
        axa_in = [(x - a.ndim if rng.random() < 0.3 else x) for x in axa]
        axb_in = [(x - b.ndim if rng.random() < 0.3 else x) for x in axb]
        if any(x < 0 for x in axa_in + axb_in):
            stats['neg_axes'] += 1
        for mode in ('blockwise', 'fused', 'auto'):
            ctx.count()
            try:
                c = sr.tensordot(a, b, axes=(axa_in, axb_in), mode=mode, preserve_array=True)
            except Exception as e:  # the property admits no exception on contractible pairs
                found.append({'op': 'tensordot', 'mode': mode, 'a': describe(a), 'b': describe(b), 'axes': [axa_in, axb_in],
                              'raised': '%s: %s' % (type(e).__name__, e),
                              'replay': rl.record('tensordot', {'a': a, 'b': b}, {'symmetry': sym, 'mode': mode, 'axes': [axa_in, axb_in]})})
                continue
            bad = dense_oracle(a, b, axa, axb, c)
            want_charge = refsym.add(sym, a.charge, b.charge)
            if bad is None and c.charge != want_charge:
                bad = {'error': 'charge %r, expected %r' % (c.charge, want_charge)}
            if bad is not None:
                found.append({'op': 'tensordot', 'mode': mode, 'symmetry': sym, 'a': describe(a), 'b': describe(b),
                              'axes': [axa_in, axb_in], **bad,
                              'replay': rl.record('tensordot', {'a': a, 'b': b}, {'symmetry': sym, 'mode': mode, 'axes': [axa_in, axb_in]})})
            npairs = sum(1 for sa in a.blocks for sb in b.blocks if [sa[i] for i in axa] == [sb[j] for j in axb])
            if mode == 'fused' and len(axa) >= 2 and {tuple(sa[i] for i in axa) for sa in a.blocks} != {tuple(sb[j] for j in axb) for sb in b.blocks}:
                stats['subsector_mismatch'] += 1
            if npairs > len(c.blocks):
                stats['aligned_pairs>=2'] += 1
            if not c.blocks:
                stats['no_aligned'] += 1
            if c.ndim == 0:
                stats['scalar'] += 1
            if not axa:
                stats['outer'] += 1
            free = [ix for i, ix in enumerate(a.indices) if i not in axa] + [ix for j, ix in enumerate(b.indices) if j not in axb]
            if any(len(ic.chargemap) < len(fi.chargemap) for ic, fi in zip(c.indices, free)):
                stats['pruned'] += 1
            if (axa and (len(a.blocks) < 2 or len(b.blocks) < 2 or npairs != len(c.blocks))) or not c.blocks or c.ndim == 0:
                ctx.nontrivial((sym, mode, str(sorted(a.blocks)), str(sorted(b.blocks)), str(axa_in), str(axb_in)))
            exprs.append('match a_tensordot %s %s %s %s %s %s with Some c => aarray_eqb %s %s c %s | None => false end' % (
                sym, ring, gen.garray(a, sym, ring), gen.garray(b, sym, ring), gaxes_spec(axa_in, axb_in), MODES[mode],
                sym, ring, gen.garray(c, sym, ring)))
            meta.append(('tensordot', mode, sym, k))
            if mode == 'blockwise':
                # the translated `_tensordot_blockwise` (block order included) on the arguments `tensordot` passes to it
                la = [i for i in range(a.ndim) if i not in axa]
                rb = [j for j in range(b.ndim) if j not in axb]
                gexprs.append('aeq_strict %s %s (gen_tensordot_blockwise %s %s %s %s %s %s %s %s) %s' % (
                    sym, ring, sym, ring, gen.garray(a, sym, ring), gen.garray(b, sym, ring), gen.gnatlist(la), gen.gnatlist(axa),
                    gen.gnatlist(axb), gen.gnatlist(rb), gen.garray(c, sym, ring)))
                gmeta.append(('gen_tensordot_blockwise', sym, k))
        if drop_misaligned_sectors is not None:
            # the translated `drop_misaligned_sectors` on the same pair
            try:
                a2, b2 = drop_misaligned_sectors(a, b, tuple(axa), tuple(axb))
                gexprs.append('(let r := gen_drop_misaligned_sectors %s %s %s %s %s %s in aeq_strict %s %s (fst r) %s && aeq_strict %s %s (snd r) %s)' % (
                    sym, ring, gen.garray(a, sym, ring), gen.garray(b, sym, ring), gen.gnatlist(axa), gen.gnatlist(axb),
                    sym, ring, gen.garray(a2, sym, ring), sym, ring, gen.garray(b2, sym, ring)))
                gmeta.append(('gen_drop_misaligned_sectors', sym, k))
            except Exception as e:
                gen_broken.append('drop_misaligned_sectors raised on a contractible pair (symmetry %s, case %d): %s: %s' % (sym, k, type(e).__name__, e))
        # the conjugated operands right afterwards, same axes (whatever the first call cached — plans keyed by indices whose
        # direction has changed — must not be reused): dense value and directions of the result legs
        if axa and a.blocks and b.blocks:
            ac, bc = a.conj(), b.conj()
            for mode in ('fused', 'auto'):
                ctx.count()
                try:
                    cc = sr.tensordot(ac, bc, axes=(axa_in, axb_in), mode=mode, preserve_array=True)
                    badc = dense_oracle(ac, bc, axa, axb, cc)
                except Exception as e:
                    badc = {'raised': '%s: %s' % (type(e).__name__, e)}
                if badc is not None:
                    found.append({'op': 'tensordot of the conjugated operands (after the same contraction of the originals)', 'mode': mode, 'symmetry': sym,
                                  'a': describe(ac), 'b': describe(bc), 'axes': [axa_in, axb_in], **badc})
        # same contraction again with the contracted pairs listed in another order on
        # `a` only (b is transposed instead): same arrays, warm fuse cache
        if len(axa) >= 2:
            pi = list(range(len(axa))); rng.shuffle(pi)
            pb = list(range(b.ndim))
            for kk in range(len(axa)):
                pb[axb[kk]] = axb[pi[kk]]
            b2 = b.transpose(tuple(pb))
            axa2 = [axa[pi[kk]] for kk in range(len(axa))]
            for mode in ('fused', 'blockwise'):
                ctx.count()
                try:
                    c2 = sr.tensordot(a, b2, axes=(axa2, axb), mode=mode, preserve_array=True)
                    bad = dense_oracle(a, b2, axa2, axb, c2)
                except Exception as e:
                    bad = {'raised': '%s: %s' % (type(e).__name__, e)}
                if bad is not None:
                    found.append({'op': 'tensordot (axis pairs relisted, warm cache)', 'mode': mode, 'symmetry': sym, 'a': describe(a),
                                  'b': describe(b2), 'axes': [axa2, axb], 'earlier_call_axes': [axa_in, axb_in], **bad,
                                  'replay': rl.record('tensordot_relisted', {'a': a, 'b': b}, {
                                      'symmetry': sym, 'mode': mode, 'earlier_call_axes': [axa_in, axb_in], 'transpose_b': pb,
                                      'axes': [axa2, axb]})})
        if k < 3:
            ctx.sample({'op': 'tensordot', 'symmetry': sym, 'axes': [axa_in, axb_in], 'a': describe(a), 'b': describe(b)})
        # scalar return path
        if a.ndim == b.ndim == len(axa):
            ctx.count()
            want = np.tensordot(gen.densify(a), gen.densify(b), axes=(axa, axb))
            try:
                s = sr.tensordot(a, b, axes=(axa_in, axb_in))
            except Exception as e:
                s = None
                found.append({'op': 'tensordot->scalar', 'a': describe(a), 'b': describe(b), 'axes': [axa_in, axb_in],
                              'raised': '%s: %s' % (type(e).__name__, e), 'expected': complex(want),
                              'replay': rl.record('tensordot_scalar', {'a': a, 'b': b}, {'symmetry': sym, 'axes': [axa_in, axb_in]})})
            if s is not None and not np.array_equal(np.asarray(s, dtype='complex128'), want):
                found.append({'op': 'tensordot->scalar', 'a': describe(a), 'b': describe(b), 'axes': [axa_in, axb_in],
                              'got': complex(s), 'expected': complex(want),
                              'replay': rl.record('tensordot_scalar', {'a': a, 'b': b}, {'symmetry': sym, 'axes': [axa_in, axb_in]})})
    # ---- an operand with a free leg that was fused beforehand: the result keeps that leg as it is (same rank as
    #      the dense contraction of the fused operands) in every mode (dense oracle only: Model.Array.tdot_fused is
    #      the pre-fix model; the current one, Fused.tdot_fused2, is tied in C06)
    for k in range(n_cases // 6):
        sym = SYMS[k % len(SYMS)]
        try:
            cm = [gen.rand_chargemap(rng, sym, maxcharges=2, maxsize=2) for _ in range(4)]
            du = [rng.random() < 0.5 for _ in range(4)]
            a0 = gen.rand_array(rng, sr, sym, chargemaps=cm[:3], duals=du[:3], lo=-2, hi=2, keep=rng.choice([1.0, 0.7]), maxsize=2)
            if not a0.blocks:
                continue
            g = rng.sample(range(3), 2)
            a = a0.fuse(tuple(g))
            free_fused = min(g)
            con = [i for i in range(3) if i not in g][0]
            con_new = 0 if free_fused > 0 and con < free_fused else (1 if con > free_fused else 0)
            con_new = [i for i in range(a.ndim) if a.indices[i].subinfo is None][0]
            cmb = [dict(a.indices[con_new].chargemap), cm[3]]
            dub = [not a.indices[con_new].dual, du[3]]
            sa = rng.choice(list(a.blocks))
            sbq = refsym.csum(sym, [refsym.signed(sym, sa[con_new], dub[0]), refsym.signed(sym, rng.choice(sorted(cmb[1])), dub[1])])
            b = gen.rand_array(rng, sr, sym, chargemaps=cmb, duals=dub, charge=sbq, lo=-2, hi=2, keep=1.0, maxsize=2)
        except Exception as e:
            found.append({'op': 'setup of a pre-fused operand', 'symmetry': sym, 'raised': '%s: %s' % (type(e).__name__, e)})
            continue
        stats['prefused_free_leg'] = stats.get('prefused_free_leg', 0) + 1
        for (x, y, ax, ay) in ((a, b, [con_new], [0]), (b, a, [0], [con_new])):
            for mode in ('blockwise', 'fused', 'auto'):
                ctx.count()
                try:
                    c = sr.tensordot(x, y, axes=(ax, ay), mode=mode, preserve_array=True)
                    bad = dense_oracle(x, y, ax, ay, c)
                    if bad is None and c.ndim != x.ndim + y.ndim - 2:
                        bad = {'error': 'rank %d, expected %d' % (c.ndim, x.ndim + y.ndim - 2)}
                except Exception as e:
                    bad = {'raised': '%s: %s' % (type(e).__name__, e)}
                if bad is not None:
                    found.append({'op': 'tensordot (operand with a pre-fused free leg)', 'mode': mode, 'symmetry': sym, 'a': describe(x), 'b': describe(y),
                                  'axes': [ax, ay], 'fused_beforehand': g, **bad})
        ctx.nontrivial(('prefused', sym, str(sorted(a.blocks)), str(g)))
    # ---- matmul / trace / einsum
    for k in range(n_cases // 3):
        sym = SYMS[k % len(SYMS)]
        cplx = rng.random() < 0.3
        nda, ndb = rng.choice([(1, 1), (1, 2), (2, 1), (2, 2)])
        cma = [gen.rand_chargemap(rng, sym) for _ in range(nda)]
        dua = [rng.random() < 0.5 for _ in range(nda)]
        cmb = [dict(cma[-1])] + [gen.rand_chargemap(rng, sym) for _ in range(ndb - 1)]
        dub = [not dua[-1]] + [rng.random() < 0.5 for _ in range(ndb - 1)]
        a = gen.rand_array(rng, sr, sym, chargemaps=cma, duals=dua, cplx=cplx, lo=-2, hi=2)
        b = gen.rand_array(rng, sr, sym, chargemaps=cmb, duals=dub, cplx=cplx, lo=-2, hi=2)
        ring = gen.ring_of(a, b)
        ctx.count()
        try:
            c = a.__matmul__(b, preserve_array=True)
            bad = dense_oracle(a, b, [nda - 1], [0], c)
        except Exception as e:  # the property admits no exception on a contractible pair
            c, bad = None, {'raised': '%s: %s' % (type(e).__name__, e)}
        if bad is not None:
            found.append({'op': 'matmul', 'a': describe(a), 'b': describe(b), **bad,
                          'replay': rl.record('matmul', {'a': a, 'b': b}, {'symmetry': sym})})
        if c is not None:
            exprs.append('match a_matmul %s %s %s %s with Some c => aarray_eqb %s %s c %s | None => false end' % (
                sym, ring, gen.garray(a, sym, ring), gen.garray(b, sym, ring), sym, ring, gen.garray(c, sym, ring)))
            meta.append(('matmul', '', sym, k))
        # trace and einsum on a square-able array
        nd = rng.choice([2, 2, 3, 4])
        cms = [gen.rand_chargemap(rng, sym) for _ in range(nd)]
        dus = [rng.random() < 0.5 for _ in range(nd)]
        labels = list(range(nd))
        npair = rng.randint(1, nd // 2)
        pos = rng.sample(range(nd), 2 * npair)
        for p in range(npair):
            i, j = pos[2 * p], pos[2 * p + 1]
            cms[j] = dict(cms[i]); dus[j] = not dus[i]; labels[j] = labels[i]
        x = gen.rand_array(rng, sr, sym, chargemaps=cms, duals=dus, cplx=cplx, lo=-2, hi=2)
        ringx = gen.ring_of(x)
        kept = [l for l in labels if labels.count(l) == 1]
        rng.shuffle(kept)
        letters = 'abcdefgh'
        eq = ''.join(letters[l] for l in labels) + '->' + ''.join(letters[l] for l in kept)
        ctx.count()
        y = x.einsum(eq, preserve_array=True)
        want = np.einsum(eq, gen.densify(x))
        try:
            got = gen.densify(y, indices=[x.indices[labels.index(l)] for l in kept])
            if not np.array_equal(got, want):
                found.append({'op': 'einsum', 'eq': eq, 'x': describe(x), 'got': got.tolist(), 'expected': want.tolist(),
                              'replay': rl.record('einsum', {'x': x}, {'symmetry': sym, 'eq': eq, 'labels': labels, 'kept': kept})})
        except (KeyError, ValueError) as e:
            found.append({'op': 'einsum', 'eq': eq, 'x': describe(x), 'error': str(e),
                          'replay': rl.record('einsum', {'x': x}, {'symmetry': sym, 'eq': eq, 'labels': labels, 'kept': kept})})
        ctx.nontrivial(('einsum', sym, eq, str(sorted(x.blocks))))
        exprs.append('match a_einsum %s %s %s %s %s with Some c => aarray_eqb %s %s c %s | None => false end' % (
            sym, ringx, gen.garray(x, sym, ringx), gen.gnatlist(labels), gen.gnatlist(kept), sym, ringx, gen.garray(y, sym, ringx)))
        meta.append(('einsum', eq, sym, k))
        if nd == 2:
            ctx.count()
            t = x.trace()
            wt = np.trace(gen.densify(x))
            if complex(t) != complex(wt):
                found.append({'op': 'trace', 'x': describe(x), 'got': complex(t), 'expected': complex(wt),
                              'replay': rl.record('trace', {'x': x}, {'symmetry': sym})})
            tv = gen.gtensor(np.asarray(t), ringx)
            exprs.append('match a_trace %s %s %s with Some v => reqb %s v (get %s %s []) | None => false end' % (
                sym, ringx, gen.garray(x, sym, ringx), ringx, ringx, tv))
            meta.append(('trace', '', sym, k))
    bad_idx = common.run_cases(ctx, 'tdot', IMPORTS, '', exprs, shard=60)
    tie_broken = []
    import tie_prims
    tie_broken += tie_prims.tie(ctx)
    if bad_idx is None:
        tie_broken.append('cases.v (contraction model vs implementation) did not evaluate')
    elif bad_idx:
        tie_broken += ['Model.%s[%s] disagrees with the implementation (symmetry %s, case %d)' % meta[i] for i in bad_idx[:10]]
        ctx.extra['disagreeing_cases'] = [exprs[i][:3000] for i in bad_idx[:3]]
    # ---- the translated block-pairing logic against the implementation
    bad_gen = common.run_cases(ctx, 'blockwise_gen', GEN_IMPORTS, GEN_PREAMBLE, gexprs, shard=60)
    tie_broken += gen_broken[:5]
    if bad_gen is None:
        tie_broken.append('cases.v (Gen/BlockwiseGen.v, the translated block-pairing logic, vs implementation) did not evaluate')
    elif bad_gen:
        tie_broken += ['Gen.BlockwiseGen.%s disagrees with the implementation (symmetry %s, case %d)' % gmeta[i] for i in bad_gen[:10]]
        ctx.extra['disagreeing_gen_cases'] = [gexprs[i][:3000] for i in bad_gen[:3]]
    for f in found[:5]:
        ctx.violation('%s differs from the dense contraction' % f['op'], {'oracle': 'numpy on own dense embedding', **f, 'run': rl.run_info(ctx)})
    ctx.broken += tie_broken
    if (not ok or tie_broken) and not found:
        ctx.violation('proof obligation or tie of C02 no longer checks',
                      {'broken': ctx.broken, 'replay': rl.record('proof_phase')}, found_input=False)
    ctx.extra['case_classes'] = stats
    ctx.extra['tie'] = {'model_cases': len(exprs), 'translated_blockwise_cases': len(gexprs),
                        'translated_blockwise_disagreeing': (None if bad_gen is None else len(bad_gen))}
    ctx.coverage['rule'] = ('random contractible pairs (rank 0-4, 1-3 charges/index, sizes 1-3, random dualness/charge/sparsity, '
                            'real and Gaussian-integer data, 0..ndim contracted axes in random order, negative axes) x modes '
                            'blockwise/fused/auto, plus matmul/trace/einsum; non-trivial = a sparse operand with >=1 contracted axis, '
                            'accumulating block pairs, no aligned blocks, or a scalar result; distinct by (symmetry, mode, sector sets, axes)')


# ------------------------------------------------------------------ replay
def _norm_axes(ax, nd):
    return [x % nd if nd else x for x in ax]


def _rp_tensordot(sr, ins, pr, r):
    """the recorded contraction again, judged by numpy on the own dense embeddings"""
    a, b = ins['a'], ins['b']
    axa_in, axb_in = pr['axes']
    axa, axb = _norm_axes(axa_in, a.ndim), _norm_axes(axb_in, b.ndim)
    what = 'tensordot(a, b, axes=%r, mode=%r)' % ((axa_in, axb_in), pr['mode'])
    try:
        c = sr.tensordot(a, b, axes=(axa_in, axb_in), mode=pr['mode'], preserve_array=True)
    except Exception as e:
        return [{'what': what + ' raises', 'expected': 'the dense contraction', 'got': '%s: %s' % (type(e).__name__, e)}]
    bad = dense_oracle(a, b, axa, axb, c)
    want_charge = refsym.add(pr['symmetry'], a.charge, b.charge)
    if bad is None and c.charge != want_charge:
        bad = {'error': 'charge %r, expected %r' % (c.charge, want_charge)}
    return rl.fail_from(bad, what)


def _rp_relisted(sr, ins, pr, r):
    """earlier calls first (they warm the fuse cache), then the contraction with the pairs relisted"""
    a, b = ins['a'], ins['b']
    for mode in ('blockwise', 'fused', 'auto'):
        try:
            sr.tensordot(a, b, axes=tuple(pr['earlier_call_axes']), mode=mode, preserve_array=True)
        except Exception:
            pass
    axa2, axb = pr['axes']
    what = 'tensordot(a, b.transpose(%r), axes=%r, mode=%r) after the earlier call' % (tuple(pr['transpose_b']), (axa2, axb), pr['mode'])
    try:
        b2 = b.transpose(tuple(pr['transpose_b']))
        c2 = sr.tensordot(a, b2, axes=(axa2, axb), mode=pr['mode'], preserve_array=True)
        bad = dense_oracle(a, b2, axa2, axb, c2)
    except Exception as e:
        bad = {'raised': '%s: %s' % (type(e).__name__, e)}
    return rl.fail_from(bad, what)


def _rp_scalar(sr, ins, pr, r):
    a, b = ins['a'], ins['b']
    axa_in, axb_in = pr['axes']
    s = sr.tensordot(a, b, axes=(axa_in, axb_in))
    want = np.tensordot(gen.densify(a), gen.densify(b), axes=(_norm_axes(axa_in, a.ndim), _norm_axes(axb_in, b.ndim)))
    if not np.array_equal(np.asarray(s, dtype='complex128'), want):
        return [{'what': 'tensordot(a, b, axes=%r) as a scalar' % ((axa_in, axb_in),), 'expected': complex(want), 'got': complex(s)}]
    return []


def _rp_matmul(sr, ins, pr, r):
    a, b = ins['a'], ins['b']
    try:
        c = a.__matmul__(b, preserve_array=True)
    except Exception as e:
        return [{'what': 'a @ b raises', 'expected': 'the dense product', 'got': '%s: %s' % (type(e).__name__, e)}]
    return rl.fail_from(dense_oracle(a, b, [a.ndim - 1], [0], c), 'a @ b')


def _rp_einsum(sr, ins, pr, r):
    x = ins['x']
    eq, labels, kept = pr['eq'], pr['labels'], pr['kept']
    y = x.einsum(eq, preserve_array=True)
    want = np.einsum(eq, gen.densify(x))
    try:
        got = gen.densify(y, indices=[x.indices[labels.index(l)] for l in kept])
    except (KeyError, ValueError) as e:
        return [{'what': 'x.einsum(%r): result does not embed into the kept legs' % eq, 'got': str(e)}]
    if not np.array_equal(got, want):
        return [{'what': 'x.einsum(%r)' % eq, 'expected': want.tolist(), 'got': got.tolist()}]
    return []


def _rp_trace(sr, ins, pr, r):
    x = ins['x']
    t, wt = x.trace(), np.trace(gen.densify(x))
    if complex(t) != complex(wt):
        return [{'what': 'x.trace()', 'expected': complex(wt), 'got': complex(t)}]
    return []


ORACLES = {'tensordot': _rp_tensordot, 'tensordot_relisted': _rp_relisted, 'tensordot_scalar': _rp_scalar,
           'matmul': _rp_matmul, 'einsum': _rp_einsum, 'trace': _rp_trace}


def replay(path):
    """re-run the recorded failing case against $SYMMRAY_REPO: 1 = still fails, 0 = passes now"""
    import sys
    return rl.dispatch(path, 'C02', ORACLES, sys.modules[__name__])
