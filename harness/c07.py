"""C07 — reshape only regroups axes and is undone by reshaping back.

Ties and oracle:
  X1  model of calc_reshape_args (coq/Model/ReshapeArgs.v) == the real
      calc_reshape_args on the finite domain of the property (exhaustive in the
      thorough tier, random subset in quick) + a stream of malformed inputs
      (exceptions mapped to the model's error enum);
  T   the function GENERATED from the current source of calc_reshape_args
      (tr/gen_reshape.py -> coq/Gen/ReshapeGen.v; Props/C07e.v proves it equal
      to the hand model, unbounded) == the real calc_reshape_args on the same
      inputs as X1;
  X2  the model's plan executor on index trees == the nesting / sizes the real
      AbelianArray.reshape produces (real plan, real arrays, sparse included);
  oracle (implementation only): rank, no axis larger than requested, norm^2,
      multiset of stored magnitudes, reshape back restores the array, reshape
      to the current shape is the identity.
Failures belonging to one of the two pinned families (known_findings.json) are
printed as KNOWN-FINDING lines; everything else is a violation."""
import itertools
import json

import numpy as np

import common
from common import gz, gnat, glist, gopt

IMPORTS = 'From SV Require Import Model.ReshapeArgs.\n'
# the translated routine (names are prefixed g / gen_, no clash with the hand model)
IMPORTS_GEN = 'From SV Require Import Base.Prelude Base.PyList Gen.ReshapeGen.\n'
PREAMBLE_GEN = '''
Definition zl_eqb := list_eqb Z.eqb.
Definition gplan_eqb (p q : list Z * list (list (list Z)) * list Z) : bool :=
  let '(u, f, e) := p in let '(u', f', e') := q in
  zl_eqb u u' && list_eqb (list_eqb zl_eqb) f f' && zl_eqb e e'.
Definition gres_plan_eqb (r s : gres (list Z * list (list (list Z)) * list Z)) : bool :=
  match r, s with
  | GOk p, GOk q => gplan_eqb p q
  | GErrValue, GErrValue => true
  | GErrIndex, GErrIndex => true
  | GErrUnbound, GErrUnbound => true
  | GErrKey, GErrKey => true
  | GErrType, GErrType => true
  | _, _ => false
  end.
'''
SIZES = (1, 2, 3, 4, 6)


# ---------------------------------------------------------------- python index trees (input generation only)
# ('L', size) | ('F', [children]) | ('N',)
def tsize(t):
    if t[0] == 'L':
        return t[1]
    if t[0] == 'N':
        return 1
    p = 1
    for c in t[1]:
        p *= tsize(c)
    return p


def subsize(t):
    return tuple(tsize(c) for c in t[1]) if t[0] == 'F' else None


def compositions(l):
    l = list(l)
    if not l:
        return [[]]
    out = []
    for mask in range(1 << (len(l) - 1)):
        cur, comp = [l[0]], []
        for i in range(1, len(l)):
            if mask >> (i - 1) & 1:
                comp.append(cur)
                cur = [l[i]]
            else:
                cur.append(l[i])
        comp.append(cur)
        out.append(comp)
    return out


def drops(l):
    """sub-lists obtained by deleting some size-one entries"""
    ones = [i for i, d in enumerate(l) if d == 1]
    out = []
    for r in range(len(ones) + 1):
        for rm in itertools.combinations(ones, r):
            out.append([d for i, d in enumerate(l) if i not in rm])
    return out


def targets_of(shape):
    seen, out = set(), []
    for kept in drops(list(shape)):
        for comp in compositions(kept):
            t = tuple(int(np.prod(b, dtype=object)) if b else 1 for b in comp)
            if t not in seen:
                seen.add(t)
                out.append(t)
    return out


def arrays_of(ds):
    leaves = [('L', d) for d in ds]
    return [[b[0] if len(b) == 1 else ('F', b) for b in comp] for comp in compositions(leaves)]


def exec_plan_py(plan, ts):
    """the three loops of AbelianArray.reshape on trees (None = not executable)"""
    us, fs, es = plan
    ts = list(ts)
    try:
        for ax in us:
            if ts[ax][0] != 'F':
                return None
            ts = ts[:ax] + list(ts[ax][1]) + ts[ax + 1:]
        for groups in fs:
            allax = [a for g in groups for a in g]
            if len(set(allax)) != len(allax) or max(allax) >= len(ts):
                return None
            pos = min(allax)
            new = [('F', [ts[a] for a in g]) for g in groups]
            ts = ts[:pos] + new + [t for i, t in enumerate(ts) if i >= pos and i not in allax]
        for ax in es:
            if ax > len(ts):
                return None
            ts = ts[:ax] + [('N',)] + ts[ax:]
    except IndexError:
        return None
    return ts


# ---------------------------------------------------------------- Gallina literals
def g_tree(t, counter):
    if t[0] == 'L':
        counter[0] += 1
        return '(Leaf %s %s)' % (gnat(counter[0] - 1), gz(t[1]))
    if t[0] == 'N':
        return 'New'
    return '(Fused %s)' % glist([g_tree(c, counter) for c in t[1]])


def g_trees(ts):
    c = [0]
    return glist([g_tree(t, c) for t in ts])


def g_zlist(l):
    return glist([gz(int(d)) for d in l])


def g_subs(subs):
    return glist([gopt(None if s is None else g_zlist(s)) for s in subs])


def g_plan(p):
    u, f, e = p
    return '(%s, %s, %s)' % (glist([gnat(a) for a in u]),
                             glist([glist([glist([gnat(a) for a in g]) for g in grp]) for grp in f]),
                             glist([gnat(a) for a in e]))


ERR = {'ValueError': 'ErrValue', 'IndexError': 'ErrIndex', 'UnboundLocalError': 'ErrUnbound'}


def real_args(fn, triple):
    """('ok', plan) | ('err', class name)"""
    try:
        return 'ok', fn(*triple)
    except Exception as e:          # noqa: BLE001 - the class is what is compared
        return 'err', type(e).__name__


def g_res(r):
    if r[0] == 'ok':
        return '(Ok %s)' % g_plan(r[1])
    return ERR.get(r[1], 'OutOfFuel')    # an unmapped exception class can never agree with the model


GERR = {'ValueError': 'GErrValue', 'IndexError': 'GErrIndex', 'UnboundLocalError': 'GErrUnbound', 'KeyError': 'GErrKey',
        'TypeError': 'GErrType'}


def g_zplan(p):
    u, f, e = p
    return '(%s, %s, %s)' % (g_zlist(u), glist([glist([g_zlist(g) for g in grp]) for grp in f]), g_zlist(e))


def gen_args_expr(triple, r):
    """the GENERATED routine on the same input, with the fuel gen_fuel = 2 * (len shape + len newshape) + 3 that
    Props/C07e.v (C07_gen_reshape_args_never_out_of_fuel) proves sufficient for every input"""
    sh, nw, subs = triple
    fuel = 2 * (len(sh) + len(nw)) + 3
    want = '(GOk %s)' % g_zplan(r[1]) if r[0] == 'ok' else GERR.get(r[1], 'GOutOfFuel')
    return 'gres_plan_eqb (gen_calc_reshape_args %d%%nat %s %s %s) %s' % (fuel, g_zlist(sh), g_zlist(nw), g_subs(subs), want)


def args_expr(triple, r):
    sh, nw, subs = triple
    return 'res_plan_eqb (calc_reshape_args %s %s %s) %s' % (g_zlist(sh), g_zlist(nw), g_subs(subs), g_res(r))


# ---------------------------------------------------------------- X1: the axis-matching routine
def domain_cases(n):
    """(trees, target) for every array built from n original axes"""
    for ds in itertools.product(SIZES, repeat=n):
        for ts in arrays_of(ds):
            shape = tuple(tsize(t) for t in ts)
            for nw in targets_of(shape):
                yield ts, nw


def triples_of_case(fn, ts, nw):
    """the forward input and, when the real routine returns an executable plan,
    the input of the way back"""
    shape = tuple(tsize(t) for t in ts)
    t1 = (shape, tuple(nw), tuple(subsize(t) for t in ts))
    out = [t1]
    r = real_args(fn, t1)
    if r[0] == 'ok':
        ts2 = exec_plan_py(r[1], ts)
        if ts2 is not None:
            out.append((tuple(tsize(t) for t in ts2), shape, tuple(subsize(t) for t in ts2)))
    return out


def malformed_stream(rng, count):
    out = []
    for _ in range(count):
        sh = tuple(rng.choice(SIZES) for _ in range(rng.randint(0, 4)))
        nw = tuple(rng.choice((1, 1, 2, 3, 4, 6, 8, 12, 24)) for _ in range(rng.randint(0, 5)))
        subs = []
        for d in sh:
            k = rng.random()
            if k < 0.55:
                subs.append(None)
            elif k < 0.6:
                subs.append(())
            else:
                subs.append(tuple(rng.choice((1, 1, 2, 3, 4, 6)) for _ in range(rng.randint(1, 3))))
        if subs and rng.random() < 0.08:
            subs = subs[:-1]          # subsizes shorter than shape
        out.append((sh, nw, tuple(subs)))
    return out


# ---------------------------------------------------------------- real arrays
def classes(sr):
    return {('Z2', False): sr.Z2Array, ('U1', False): sr.U1Array, ('Z2Z2', False): sr.Z2Z2Array,
            ('Z2', True): sr.Z2FermionicArray, ('U1', True): sr.U1FermionicArray,
            ('Z2Z2', True): sr.Z2Z2FermionicArray}


CHARGES = {'Z2': [0, 1], 'U1': [-1, 0, 1, 2], 'Z2Z2': [(0, 0), (0, 1), (1, 0), (1, 1)]}


def tup(c):
    return tuple(c) if isinstance(c, list) else c


def build(sr, spec):
    """spec -> array: public constructor from explicit blocks, then the recorded
    sequence of fuses of adjacent axes (right to left, one group at a time, so
    the axis order is kept)"""
    cls = classes(sr)[(spec['symmetry'], spec['fermionic'])]
    ixs = [sr.BlockIndex({tup(c): int(d) for c, d in ax['chargemap']}, dual=bool(ax['dual'])) for ax in spec['axes']]
    blocks = {tuple(tup(c) for c in sector): np.array(data, dtype='float64')
              for sector, data in spec['blocks']}
    kw = {}
    if spec['fermionic'] and spec.get('oddpos') is not None:
        kw['oddpos'] = tup(spec['oddpos'])
    x = cls(indices=ixs, charge=tup(spec['charge']), blocks=blocks, **kw)
    for lengths in spec['prefuse']:
        pos = x.ndim
        for L in reversed(lengths):
            start = pos - L
            if L >= 2:
                x = x.fuse(tuple(range(start, pos)))
            pos = start
    return x


def random_spec(sr, rng, force=None):
    sym = rng.choice(['Z2', 'Z2', 'U1', 'Z2Z2'])
    ferm = rng.random() < 0.45
    S = sr.get_symmetry(sym)
    n = rng.choice([0, 1, 2, 2, 3, 3, 3, 4, 4, 4, 5])
    if force == 'ones':
        n = rng.randint(1, 4)
    if force == 'clash':
        n = rng.randint(3, 5)
    if force == 'shrunk':
        sym, n = 'Z2', rng.randint(3, 4)
        S = sr.get_symmetry(sym)
    axes = []
    for i in range(n):
        one = rng.random() < 0.4 or force == 'ones'
        if force == 'shrunk' and i < 3:
            cm = [(0, 1), (1, 1)] if i < 2 else [(rng.choice([0, 1]), 2)]
        elif one:
            cm = [(rng.choice(CHARGES[sym]) if rng.random() < 0.5 else S.combine(), 1)]
        elif force == 'clash':
            cm = [(rng.choice(CHARGES[sym]), rng.randint(1, 3))]       # single charge: fused sizes are products
        else:
            cs = rng.sample(CHARGES[sym], rng.randint(1, 2))
            cm = [(c, rng.randint(1, 2)) for c in sorted(cs)]
        axes.append({'chargemap': cm, 'dual': rng.random() < 0.5})
    if force == 'clash':
        # ... fused(…, 1), 1 ...: positions p, p+1 size one, p-1.. fused with p
        p = rng.randint(1, n - 2)
        for q in (p, p + 1):
            axes[q]['chargemap'] = [(rng.choice(CHARGES[sym]), 1)]
    # a total charge that admits at least one sector
    pick = [rng.choice(ax['chargemap'])[0] for ax in axes]
    charge = S.combine(*[S.sign(c, ax['dual']) for c, ax in zip(pick, axes)])
    cls = classes(sr)[(sym, ferm)]
    ixs = [sr.BlockIndex(dict(ax['chargemap']), dual=ax['dual']) for ax in axes]
    kw = {}
    oddpos = None
    if ferm and S.parity(charge):
        oddpos = rng.choice([1, 3, 7])
        kw['oddpos'] = oddpos
    full = cls.from_fill_fn(lambda shape: np.zeros(shape), ixs, charge=charge, **kw)
    sectors = list(full.blocks)
    keep_p = 1.0 if force == 'shrunk' else rng.choice([1.0, 0.8, 0.6, 0.4])
    kept = [s for s in sectors if rng.random() < keep_p] or [rng.choice(sectors)]
    blocks = []
    for s in kept:
        shp = full.get_block_shape(s)
        data = np.array([rng.choice([-3, -2, -1, 1, 2, 3, 4, 5]) for _ in range(int(np.prod(shp, dtype=int)))],
                        dtype='float64').reshape(shp)
        blocks.append((list(s), data.tolist()))
    prefuse = []
    if n >= 2:
        if force == 'clash':
            lengths = [1] * n
            lengths[p - 1:p + 1] = [2]
            prefuse.append(lengths)
        elif force == 'shrunk':
            prefuse.append([2] + [1] * (n - 2))
        elif rng.random() < 0.6:
            comp = rng.choice(compositions(list(range(n))))
            prefuse.append([len(b) for b in comp])
            m = len(comp)
            if m >= 2 and rng.random() < 0.3:
                comp2 = rng.choice(compositions(list(range(m))))
                prefuse.append([len(b) for b in comp2])
    prefuse = [l for l in prefuse if any(v >= 2 for v in l)]
    return {'symmetry': sym, 'fermionic': ferm, 'axes': [{'chargemap': [[c, d] for c, d in ax['chargemap']],
                                                          'dual': ax['dual']} for ax in axes],
            'charge': charge, 'blocks': blocks, 'oddpos': oddpos, 'prefuse': prefuse, 'sparse': len(kept) < len(sectors)}


def dense_spec(ts, rng):
    """the array of a domain case: Z2, one charge per original axis (so fused
    sizes are products), charged size-one axes"""
    leaves = []

    def walk(t):
        if t[0] == 'L':
            leaves.append(t[1])
        else:
            for c in t[1]:
                walk(c)
    for t in ts:
        walk(t)
    axes = [{'chargemap': [[rng.choice([0, 1]), d]], 'dual': rng.random() < 0.5} for d in leaves]
    charge = sum(ax['chargemap'][0][0] for ax in axes) % 2
    sector = [ax['chargemap'][0][0] for ax in axes]
    data = np.arange(1, 1 + int(np.prod(leaves, dtype=int)), dtype='float64').reshape(leaves)
    lengths = [len(t[1]) if t[0] == 'F' else 1 for t in ts]
    return {'symmetry': 'Z2', 'fermionic': rng.random() < 0.5, 'axes': axes, 'charge': charge,
            'blocks': [(sector, data.tolist())], 'oddpos': 1 if charge else None,
            'prefuse': [lengths] if any(v >= 2 for v in lengths) else []}


def ix_tree(ix):
    if ix.subinfo is None:
        return ('L', int(ix.size_total))
    return ('F', [ix_tree(s) for s in ix.subinfo.indices], int(ix.size_total))


def real_size(t):
    return t[1] if t[0] == 'L' else t[2]


def real_subs(t):
    return tuple(real_size(c) for c in t[1]) if t[0] == 'F' else None


def to_model_tree(t):
    return ('L', t[1]) if t[0] == 'L' else ('F', [to_model_tree(c) for c in t[1]])


def spelled(ss, nw):
    return any(nw[j:j + len(ss)] == ss for j in range(len(nw) + 1))


def clash_with(trees, nw):
    """family F12a on real index trees: a fused axis whose last sub-size is one,
    directly followed by a size-one axis, whose sub-sizes are spelled out by nw"""
    nw = tuple(nw)
    for t, nxt in zip(trees, trees[1:]):
        if t[0] == 'F' and real_size(t[1][-1]) == 1 and real_size(nxt) == 1 and spelled(real_subs(t), nw):
            return True
    return False


def shrunk_with(trees, nw):
    """family F12b (symmetric-sparse arrays): a fused axis that is smaller than the
    product of its recorded sub-sizes (sectors are missing) and whose sub-sizes
    are spelled out by nw"""
    nw = tuple(nw)
    for t in trees:
        if t[0] == 'F':
            ss = real_subs(t)
            if real_size(t) < int(np.prod(ss, dtype=object)) and spelled(ss, nw):
                return True
    return False


def ix_same(a, b):
    if dict(a.chargemap) != dict(b.chargemap) or a.dual != b.dual:
        return False
    if (a.subinfo is None) != (b.subinfo is None):
        return False
    if a.subinfo is None:
        return True
    sa, sb = a.subinfo, b.subinfo
    if len(sa.indices) != len(sb.indices) or not all(ix_same(p, q) for p, q in zip(sa.indices, sb.indices)):
        return False
    return {c: dict(e) for c, e in sa.extents.items()} == {c: dict(e) for c, e in sb.extents.items()}


def eff_blocks(x):
    """stored blocks with pending fermionic signs applied; all-zero blocks dropped
    (an absent block and a zero block are the same array)"""
    ph = getattr(x, 'phases', {}) or {}
    out = {}
    for s, b in x.blocks.items():
        b = np.asarray(b) * ph.get(s, 1)
        if np.any(b != 0):
            out[s] = b
    return out


def same_array(a, b):
    if a.ndim != b.ndim or a.charge != b.charge:
        return 'rank or total charge'
    if not all(ix_same(p, q) for p, q in zip(a.indices, b.indices)):
        return 'indices (charge tables, duals or sub-index structure)'
    if getattr(a, 'oddpos', ()) != getattr(b, 'oddpos', ()):
        return 'odd-position labels'
    ea, eb = eff_blocks(a), eff_blocks(b)
    if set(ea) != set(eb):
        return 'stored sectors'
    for s in ea:
        if ea[s].shape != eb[s].shape or not np.array_equal(ea[s], eb[s]):
            return 'block values'
    return None


def describe(x):
    return {'shape': list(x.shape), 'duals': list(x.duals), 'charge': x.charge,
            'chargemaps': [sorted(dict(ix.chargemap).items()) for ix in x.indices],
            'subsizes': [real_subs(ix_tree(ix)) for ix in x.indices],
            'num_blocks': len(x.blocks)}


def magnitudes(x):
    vals = []
    for b in x.blocks.values():
        vals += [abs(int(v)) for v in np.asarray(b).ravel().tolist() if v != 0]
    return sorted(vals)


def oracle(x, target, roundtrip=None):
    """-> list of failures {kind, detail, leg}, and the reshaped array (or None);
    roundtrip=False for targets that also insert size-one axes (content clauses only)"""
    fails = []
    target = tuple(target)
    if roundtrip is None:       # the round-trip clause is about merge / drop targets
        roundtrip = target in targets_of(tuple(x.shape))
    try:
        y = x.reshape(target)
    except Exception as e:            # noqa: BLE001
        return [{'kind': 'raises', 'leg': 'forward', 'detail': '%s: %s' % (type(e).__name__, e)}], None
    if y.ndim != len(target):
        fails.append({'kind': 'rank', 'leg': 'forward', 'detail': 'got shape %r' % (y.shape,)})
    elif any(a > b for a, b in zip(y.shape, target)):
        fails.append({'kind': 'axis larger than requested', 'leg': 'forward', 'detail': 'got shape %r' % (y.shape,)})
    mx, my = magnitudes(x), magnitudes(y)
    if sum(v * v for v in mx) != sum(v * v for v in my):
        fails.append({'kind': 'norm', 'leg': 'forward', 'detail': '%d != %d' % (sum(v * v for v in mx), sum(v * v for v in my))})
    if mx != my:
        fails.append({'kind': 'multiset of stored magnitudes', 'leg': 'forward', 'detail': ''})
    if not fails and roundtrip:
        try:
            z = y.reshape(x.shape)
            d = same_array(x, z)
            if d:
                fails.append({'kind': 'roundtrip', 'leg': 'back', 'detail': 'differs in ' + d, 'back': describe(z)})
        except Exception as e:        # noqa: BLE001
            fails.append({'kind': 'roundtrip', 'leg': 'back', 'detail': 'raises %s: %s' % (type(e).__name__, e)})
    return fails, y


def oracle_identity(x):
    try:
        w = x.reshape(x.shape)
    except Exception as e:            # noqa: BLE001
        return [{'kind': 'identity', 'leg': 'identity', 'detail': 'raises %s: %s' % (type(e).__name__, e)}]
    d = same_array(x, w)
    if d:
        return [{'kind': 'identity', 'leg': 'identity', 'detail': 'differs in ' + d, 'got': describe(w)}]
    return []


def classify(x, target, y, failure):
    """the pinned family a failure belongs to, judged from the failing input only"""
    trees = [ix_tree(ix) for ix in x.indices]
    ytrees = [ix_tree(ix) for ix in y.indices] if y is not None else None
    target = tuple(target)
    if (failure['kind'] == 'raises' and failure['detail'].startswith('IndexError')
            and len(trees) > 0 and all(real_size(t) == 1 for t in trees) and target == ()):
        return 'all_size_one_to_scalar'
    # which reshape call of the failing leg sees which requested shape
    if failure['leg'] == 'back':
        legs = [(trees, target), (ytrees, tuple(x.shape))]
    elif failure['leg'] == 'identity':
        legs = [(trees, tuple(x.shape))]
    else:
        legs = [(trees, target)]
    legs = [(t, n) for t, n in legs if t is not None]
    if failure['kind'] in ('identity', 'roundtrip') and any(clash_with(t, n) for t, n in legs):
        return 'greedy_unfuse_trailing_one'
    if any(shrunk_with(t, n) for t, n in legs):
        return 'greedy_unfuse_sparse_shrunk'
    return None


# ---------------------------------------------------------------- the check
class Findings:
    def __init__(self, ctx):
        self.ctx = ctx
        self.listed = {}
        for f in common.load_known_findings().get('findings', []):
            if isinstance(f, dict) and f.get('property') == 'C07' and f.get('family'):
                self.listed[f['family']] = f
        self.seen = {}
        self.nviol = 0

    def report(self, spec, x, target, y, failure):
        fam = classify(x, target, y, failure)
        if fam in self.listed:
            if fam not in self.seen:
                self.seen[fam] = {'spec_shape': list(x.shape), 'target': list(target), 'failure': failure['kind'],
                                  'detail': failure['detail']}
                f = self.listed[fam]
                self.ctx.known.append('KNOWN-FINDING: property=C07 %s %s' % (f.get('id', fam), f.get('what', fam)))
            self.seen[fam]['count'] = self.seen[fam].get('count', 0) + 1
            return
        self.nviol += 1
        if self.nviol <= 5:
            self.ctx.violation('reshape: %s (%s)' % (failure['kind'], failure['detail'][:120]),
                               {'oracle': 'reshape_array', 'spec': spec, 'array': describe(x), 'target': list(target),
                                'failure': failure, 'family_if_unlisted': fam})


def expanded(rng, t):
    """a target with one or two extra size-one axes"""
    t = list(t)
    for _ in range(rng.randint(1, 2)):
        t.insert(rng.randint(0, len(t)), 1)
    return tuple(t)


def run_oracle_on(sr, ctx, fnd, spec, targets=None, cap=None, expand=0, identity=True, roundtrip=None):
    x = build(sr, spec)
    tg = targets if targets is not None else targets_of(x.shape)
    if cap is not None and len(tg) > cap:
        tg = [tg[0]] + ctx.rng.sample(tg[1:], cap - 1)
    stats = []
    for t in tg:
        ctx.count()
        fails, y = oracle(x, t, roundtrip)
        stats.append((x, t, y, fails))
        for f in fails:
            fnd.report(spec, x, t, y, f)
    for _ in range(expand):
        t = expanded(ctx.rng, ctx.rng.choice(tg))
        ctx.count()
        fails, y = oracle(x, t, roundtrip=False)
        stats.append((x, t, y, fails))
        for f in fails:
            fnd.report(spec, x, t, y, f)
    if identity:
        ctx.count()
        for f in oracle_identity(x):
            fnd.report(spec, x, x.shape, None, f)
    return x, stats


def run(ctx):
    import symmray as sr
    from symmray import abelian_core
    fn = abelian_core.calc_reshape_args
    fn = getattr(fn, '__wrapped__', fn)
    rng = ctx.rng
    ok = common.standard_proof_phase(ctx)
    tie_broken = []

    # ---- X1: calc_reshape_args, model vs implementation
    triples = {}
    branch = {'unfuse': 0, 'keep': 0, 'squeeze': 0, 'expand': 0, 'fuse': 0, 'error': 0,
              'squeeze_left': 0, 'squeeze_trailing': 0, 'simultaneous_groups': 0, 'unfuse_then_fuse': 0}

    def add_case(ts, nw):
        for t in triples_of_case(fn, ts, nw):
            triples.setdefault(t, (ts, nw))

    maxn = 5
    if ctx.thorough:
        for n in range(maxn + 1):
            for ts, nw in domain_cases(n):
                add_case(ts, nw)
        chosen = list(triples)
    else:
        for n in range(0, 4):
            for ts, nw in domain_cases(n):
                add_case(ts, nw)
        small = list(triples)
        chosen = small if len(small) <= 1500 else rng.sample(small, 1500)
        extra = {}
        for n in (4, 5):
            for _ in range(700):
                ds = [rng.choice(SIZES) for _ in range(n)]
                ts = rng.choice(arrays_of(ds))
                nw = rng.choice(targets_of(tuple(tsize(t) for t in ts)))
                for t in triples_of_case(fn, ts, nw):
                    if t not in triples:
                        triples[t] = (ts, nw)
                        extra[t] = 1
        chosen += list(extra)
    mal = malformed_stream(rng, 3000 if ctx.thorough else 600)
    exprs, meta, gexprs = [], [], []
    for t in chosen + mal:
        r = real_args(fn, t)
        exprs.append(args_expr(t, r))
        gexprs.append(gen_args_expr(t, r))
        meta.append((t, r))
        ctx.count()
        if r[0] == 'ok':
            u, f, e = r[1]
            branch['unfuse'] += bool(u)
            branch['fuse'] += bool(f)
            branch['expand'] += bool(e)
            branch['keep'] += (not u and not f and not e)
            branch['squeeze'] += (len(t[0]) > 0 and 1 in t[0] and bool(f))
            branch['squeeze_left'] += (len(t[0]) > 1 and t[0][0] == 1 and (not t[1] or t[1][0] != 1) and bool(f))
            branch['squeeze_trailing'] += (len(t[0]) > 1 and t[0][-1] == 1 and (not t[1] or t[1][-1] != 1) and bool(f))
            branch['simultaneous_groups'] += any(len(g) >= 2 for g in f)
            branch['unfuse_then_fuse'] += bool(u and f)
            if u or f or e:
                ctx.nontrivial(('args', t))
        else:
            branch['error'] += 1
            ctx.nontrivial(('args-error', t))
    ctx.sample({'calc_reshape_args': [list(chosen[-1][0]), list(chosen[-1][1]), [s if s is None else list(s) for s in chosen[-1][2]]]})
    bad = common.run_cases(ctx, 'args', IMPORTS, '', exprs, shard=2000 if ctx.thorough else 300)
    args_disagree = []
    if bad is None:
        tie_broken.append('cases.v (model of calc_reshape_args vs implementation) did not evaluate')
    elif bad:
        args_disagree = [meta[i] for i in bad]
        tie_broken += ['Model.calc_reshape_args disagrees with the implementation on %r (implementation: %r)' % (m[0], m[1])
                       for m in args_disagree[:10]]

    # ---- T: the routine generated from the current source vs the implementation, same inputs
    ctx.count(len(gexprs))
    gbad = common.run_cases(ctx, 'gen', IMPORTS_GEN, PREAMBLE_GEN, gexprs, shard=2000 if ctx.thorough else 300)
    gen_disagree = []
    if gbad is None:
        tie_broken.append('cases.v (generated calc_reshape_args, Gen/ReshapeGen.v, vs implementation) did not evaluate')
    elif gbad:
        gen_disagree = [meta[i] for i in gbad]
        tie_broken += ['Gen.ReshapeGen.gen_calc_reshape_args disagrees with the implementation on %r (implementation: %r)' % (m[0], m[1])
                       for m in gen_disagree[:10]]
        seen = {m[0] for m in args_disagree}
        args_disagree += [m for m in gen_disagree if m[0] not in seen]     # searched below like the X1 disagreements

    # ---- arrays: X2 (plan executor vs real reshape) and the oracle
    fnd = Findings(ctx)
    exprs2, meta2 = [], []
    nspec = 1500 if ctx.thorough else 450
    dist = {'fermionic': 0, 'abelian': 0, 'prefused': 0, 'nested': 0, 'sparse': 0, 'charged_singleton': 0, 'odd': 0}
    specs = []
    for k in range(nspec):
        force = 'ones' if k % 23 == 5 else ('clash' if k % 11 == 3 else ('shrunk' if k % 29 == 7 else None))
        specs.append(random_spec(sr, rng, force))
    for spec in specs:
        try:
            x, stats = run_oracle_on(sr, ctx, fnd, spec, cap=None if ctx.thorough else 8, expand=2)
        except Exception as e:        # noqa: BLE001 - building the input itself failed (not reshape)
            ctx.note('input construction failed for one generated array: %s' % type(e).__name__)
            continue
        dist['fermionic' if spec['fermionic'] else 'abelian'] += 1
        dist['prefused'] += bool(spec['prefuse'])
        dist['nested'] += len(spec['prefuse']) > 1
        dist['odd'] += spec['oddpos'] is not None
        dist['sparse'] += bool(spec.get('sparse'))
        zero = sr.get_symmetry(spec['symmetry']).combine()
        dist['charged_singleton'] += any(len(ax['chargemap']) == 1 and ax['chargemap'][0][1] == 1 and tup(ax['chargemap'][0][0]) != zero
                                         for ax in spec['axes'])
        trees = [ix_tree(ix) for ix in x.indices]
        for (x_, t, y, fails) in stats:
            if y is None:
                continue
            key = (tuple(x.shape), tuple(real_subs(tt) for tt in trees), tuple(t), spec['symmetry'], spec['fermionic'])
            if len(x.shape) >= 2 and tuple(t) != tuple(x.shape):
                ctx.nontrivial(('array', key))
            subs = tuple(real_subs(tt) for tt in trees)
            r = real_args(fn, (tuple(x.shape), tuple(t), subs))
            if r[0] != 'ok':
                continue
            # the executor does not look at sizes: run the REAL plan on the real nesting
            exprs2.append('skels_eqb (exec_plan %s %s) %s' % (
                g_plan(r[1]), g_trees([to_model_tree(tt) for tt in trees]),
                g_trees([to_model_tree(ix_tree(ix)) for ix in y.indices])))
            meta2.append((spec, list(t)))
    ctx.sample({'array': describe(build(sr, specs[-1])), 'symmetry': specs[-1]['symmetry'], 'fermionic': specs[-1]['fermionic']})
    if len(exprs2) > (20000 if ctx.thorough else 1500):
        idx = sorted(rng.sample(range(len(exprs2)), 20000 if ctx.thorough else 1500))
        exprs2 = [exprs2[i] for i in idx]
        meta2 = [meta2[i] for i in idx]
    ctx.count(len(exprs2))
    bad2 = common.run_cases(ctx, 'exec', IMPORTS, '', exprs2, shard=1000 if ctx.thorough else 300)
    if bad2 is None:
        tie_broken.append('cases.v (plan executor vs real reshape) did not evaluate')
    elif bad2:
        tie_broken += ['Model.exec_plan disagrees with the nesting produced by the real reshape (target %r)' % (meta2[i][1],)
                       for i in bad2[:10]]
        for i in bad2[:3]:
            if fnd.nviol < 5:
                fnd.nviol += 1
                ctx.violation('reshape produces a different axis nesting than the plan executor',
                              {'oracle': 'exec_nesting', 'spec': meta2[i][0], 'target': meta2[i][1]})

    # ---- search from the disagreeing inputs of X1: run them as real arrays
    for (t, r) in args_disagree[:40]:
        src = triples.get(t)
        if src is None:
            if any(sub is not None for sub in t[2]) or len(t[2]) != len(t[0]):
                continue
            src = ([('L', d) for d in t[0]], t[1])     # an unfused array realises this input
        ts, nw = src
        spec = dense_spec(ts, rng)
        try:
            merge_drop = tuple(nw) in targets_of(tuple(tsize(tt) for tt in ts))
            run_oracle_on(sr, ctx, fnd, spec, targets=[tuple(nw)], roundtrip=merge_drop)
        except Exception as e:        # noqa: BLE001
            ctx.note('search: could not build the array of a disagreeing case (%s)' % type(e).__name__)
    # dense arrays of random domain cases (fused sizes are products, charged singletons)
    dom_small = [c for n in range(1, 4) for c in domain_cases(n)]
    for ts, nw in rng.sample(dom_small, 600 if ctx.thorough else 120):
        spec = dense_spec(ts, rng)
        run_oracle_on(sr, ctx, fnd, spec, targets=[tuple(nw)])

    # ---- fermionic arrays with PENDING signs: targets that only insert size-one axes, and back (the plan is expand_dims /
    #      squeeze steps only: nothing synchronises the signs on the way); arrays without fused axes, so that the pinned
    #      families of the greedy unfuse branch cannot interfere
    import gen
    import replaylib
    rl_describe = replaylib.describe_safe
    lazy_stats = {'cases': 0, 'with_pending_signs': 0, 'nested_conj': 0}
    for k in range(300 if ctx.thorough else 60):
        try:
            sym = ['Z2', 'U1', 'Z2Z2', 'U1U1'][k % 4]
            x = gen.rand_array(rng, sr, sym, ndim=rng.randint(2, 3), fermionic=True, oddpos=rng.randint(1, 9), maxsize=2, lo=-3, hi=3,
                               keep=rng.choice([1.0, 0.7]))
            x = gen.rand_lazy(rng, sr, x, steps=rng.randint(1, 3))
            if any(d == 1 for d in x.shape) or not x.blocks:
                continue
            spec = {'symmetry': sym, 'fermionic': True, 'full': rl_describe(x)}
            t = expanded(rng, x.shape)
            lazy_stats['cases'] += 1
            lazy_stats['with_pending_signs'] += bool(x.phases)
            ctx.count()
            y = x.reshape(t)
            fail = None
            want = gen.densify(x).reshape(t)
            got = gen.densify(y)
            if got.shape != want.shape or not np.array_equal(got, want):
                fail = {'kind': 'dense value after inserting size-one axes', 'leg': 'forward', 'detail': 'pending signs %r' % sorted(map(str, x.phases))}
            else:
                # the way back may merge the removed size-one axis into a neighbour and prune charges no stored sector uses
                # (smaller axis): as for every expand target, only its value on the common part could be compared — when
                # the shape does come back, the dense values must agree
                z = y.reshape(x.shape)
                if tuple(z.shape) == tuple(x.shape) and (z.charge != x.charge or not np.array_equal(gen.densify(z), gen.densify(x))):
                    fail = {'kind': 'roundtrip value', 'leg': 'back', 'detail': 'shape %r charge %r' % (tuple(z.shape), z.charge)}
            if fail:
                ctx.violation('reshape of a fermionic array with pending signs: %s (%s)' % (fail['kind'], fail['detail'][:120]),
                              {'oracle': 'reshape_lazy', 'spec': spec, 'array': describe(x), 'pending_signs': sorted(map(str, x.phases)),
                               'target': list(t), 'failure': fail})
            if x.phases:
                ctx.nontrivial(('lazy-expand', spec['symmetry'], str(x.shape), str(t), str(sorted(map(str, x.phases)))))
        except Exception as e:        # noqa: BLE001
            ctx.note('lazy stream: %s: %s' % (type(e).__name__, e))
    # ---- two levels of merging, conjugation, and back through both levels: equals the conjugate of the original
    for k in range(200 if ctx.thorough else 40):
        try:
            sym = ['Z2', 'U1', 'Z2Z2', 'U1U1'][k % 4]
            ferm = rng.random() < 0.5
            x = gen.rand_array(rng, sr, sym, ndim=3, fermionic=ferm, oddpos=rng.randint(1, 9), maxsize=2, lo=-3, hi=3, keep=rng.choice([1.0, 0.7]))
            if any(d == 1 for d in x.shape) or not x.blocks:
                continue
            spec = {'symmetry': sym, 'fermionic': ferm, 'full': rl_describe(x)}
            y1 = x.fuse((0, 1))
            y2 = y1.fuse((0, 1))
            lazy_stats['nested_conj'] += 1
            ctx.count()
            zc = y2.conj()
            via_unfuse = zc.unfuse(0).unfuse(0)
            # abelian: this is the conjugate of the original.  Fermionic: conjugation signs depend on the rank, so only the
            # second clause (merging again gives the conjugate of the merged array back) is stated
            d = same_array(x.conj(), via_unfuse) if not ferm else None
            if d is None:
                # the same through reshape; a difference between the two routes is the business of the plan (pinned families)
                try:
                    via_reshape = zc.reshape(y1.shape).reshape(x.shape)
                    if same_array(via_reshape, via_unfuse) is None:
                        again = via_reshape.reshape(y1.shape).reshape(y2.shape)
                        # (the re-merged leg may carry a differently pruned table / sub-index record than the leg that was
                        # conjugated: compared by value, total charge and directions, and only when the shape comes back)
                        if tuple(again.shape) == tuple(zc.shape):
                            if again.charge != zc.charge or list(again.duals) != list(zc.duals):
                                d = 'merging again after un-merging the conjugate: total charge or directions'
                            elif not np.array_equal(gen.densify(again), gen.densify(zc)):
                                d = 'merging again after un-merging the conjugate: values'
                except Exception:       # noqa: BLE001
                    pass
            if d:
                ctx.violation('un-merging the conjugate of a twice-merged array does not give the conjugate of the original (%s)' % d,
                              {'oracle': 'reshape_nested_conj', 'spec': spec, 'array': describe(x), 'failure': {'kind': 'nested conj', 'detail': d}})
            ctx.nontrivial(('nested-conj', spec['symmetry'], spec['fermionic'], str(x.shape), str(sorted(x.blocks))))
        except Exception as e:        # noqa: BLE001
            ctx.note('nested-conj stream: %s: %s' % (type(e).__name__, e))
    ctx.extra['lazy_and_nested_streams'] = lazy_stats

    # ---- array-level model (Model/ReshapeArray.a_reshape) vs the real reshape, on its own random arrays
    import tie_reshape
    tie_broken += tie_reshape.tie(ctx, sr)
    for f in tie_reshape.found[:3]:
        ctx.violation('reshape: %s (array-level model disagrees too)' % (f.get('error') or f.get('raised')), {'oracle': 'tie_reshape', **f})
    ctx.broken += tie_broken
    if (not ok or tie_broken) and not ctx.violations:
        ctx.violation('proof obligation or tie of C07 no longer checks', {'broken': ctx.broken}, found_input=False)
    ctx.coverage['rule'] = (
        'calc_reshape_args: every (shape, newshape, subsizes) input arising (forward and way back) from arrays built by merging adjacent '
        'axes of <=5 original axes with sizes in {1,2,3,4,6} and targets obtained by merging adjacent axes / dropping size-one axes '
        '(thorough: all; quick: all with <=3 original axes or a 1500-sample of them, + 1400 random cases with 4-5 axes) plus a malformed-input stream; '
        'arrays: random sparse abelian and fermionic Z2/U1/Z2Z2 arrays of rank 0-5, charged and uncharged size-one axes, one or two levels of '
        'pre-fused axes, every (quick: up to 8) reachable target; non-trivial = a routine input whose plan is non-empty or raises, or an '
        'array of rank >=2 reshaped to a different shape; distinct by full input')
    ctx.extra['tie'] = {'routine_cases': len(exprs), 'routine_domain_inputs': len(chosen), 'malformed_inputs': len(mal),
                        'executor_cases': len(exprs2), 'routine_disagreements': len(args_disagree),
                        'generated_routine_cases': len(gexprs), 'generated_routine_disagreements': len(gen_disagree)}
    ctx.extra['branches_reached'] = branch
    ctx.extra['array_distribution'] = dist
    ctx.extra['known_findings_observed'] = fnd.seen
    missing = [b for b, v in branch.items() if v == 0]
    if missing:
        ctx.extra['generator_gap'] = missing


def replay(path):
    import symmray as sr
    r = json.load(open(path))
    print(json.dumps({k: v for k, v in r.items() if k != 'spec'}, indent=1, default=str))
    if r.get('oracle') in ('reshape_array', 'exec_nesting'):
        x = build(sr, r['spec'])
        target = tuple(r['target'])
        print('array :', describe(x))
        print('target:', target)
        fails, y = oracle(x, target)
        fails += oracle_identity(x) if tuple(x.shape) == target else []
        if y is not None:
            print('result:', describe(y))
        for f in fails:
            print('FAIL  :', f['kind'], '-', f['detail'], '->', classify(x, target, y, f) or 'not a pinned family')
        return 1 if fails else 0
    return 0
