"""C08 — structural, elementwise and arithmetic operations commute with densification."""
import json

import numpy as np

import common
import gen
import refsym
import replaylib as rl

IMPORTS = 'From SV Require Import Base.Sym Base.Tensor Model.SymInst Model.Sectors Model.Array Model.Arith.\n'
SYMS = ['Z2', 'U1', 'Z2Z2', 'U1U1', 'Z4']


def describe(x):
    if hasattr(x, 'indices'):
        return {'class': type(x).__name__, 'charge': x.charge,
                'indices': [([list(kv) for kv in ix.chargemap.items()], ix.dual) for ix in x.indices],
                'blocks': {str(k): np.asarray(v).tolist() for k, v in x.blocks.items()}}
    return {'class': type(x).__name__, 'blocks': {str(k): np.asarray(v).tolist() for k, v in x.blocks.items()}}


def same_array(x, y):
    """exact equality of two symmray results (or scalars)"""
    if hasattr(x, 'blocks') != hasattr(y, 'blocks'):
        return False
    if not hasattr(x, 'blocks'):
        return np.array_equal(np.asarray(x), np.asarray(y))
    if set(x.blocks) != set(y.blocks):
        return False
    if hasattr(x, 'indices'):
        if x.charge != y.charge or len(x.indices) != len(y.indices):
            return False
        for a, b in zip(x.indices, y.indices):
            if a.chargemap != b.chargemap or a.dual != b.dual:
                return False
    return all(np.array_equal(np.asarray(x.blocks[k]), np.asarray(y.blocks[k])) for k in x.blocks)


def vec_dense(v, layout):
    out = np.zeros(sum(d for _, d in layout), dtype='complex128')
    off = 0
    for c, d in layout:
        if c in v.blocks:
            out[off:off + d] = np.asarray(v.blocks[c])
        off += d
    return out


def gvec(v, ring):
    return '[' + '; '.join('(%s, %s)' % (gen.gch(c), gen.gtensor(b, ring)) for c, b in v.blocks.items()) + ']'


def run(ctx):
    import autoray as ar
    import symmray as sr
    ok = common.standard_proof_phase(ctx)
    rng = ctx.rng
    n_cases = 900 if ctx.thorough else 170
    exprs, meta, found = [], [], []
    raised = {}
    opcount = {}
    import tie_binop        # translator tie of the block-level arithmetic (Gen/BinopGen.v); own cases shard
    binop_tie = tie_binop.Collector(ctx)

    def three_ways(name, calls):
        """call an operation as method / symmray function / autoray dispatch; all
        must agree exactly (or all raise)."""
        outs = []
        for how, f in calls:
            try:
                outs.append((how, f(), None))
            except RecursionError as e:
                outs.append((how, None, 'RecursionError'))
            except Exception as e:
                outs.append((how, None, type(e).__name__))
        errs = [e for _, _, e in outs]
        if any(errs):
            raised[name] = raised.get(name, 0) + 1
            if not all(errs):
                return outs, {'error': 'entry points disagree: %r' % [(h, e) for h, _, e in outs]}
            return outs, None
        for how, r, _ in outs[1:]:
            if not same_array(outs[0][1], r):
                return outs, {'error': 'entry point %s returns something else than %s' % (how, outs[0][0])}
        return outs, None

    def record(op, x_desc, bad, _inputs=None, **kw):
        if bad is not None:
            # `replay`: complete, re-executable description (x is the array of the current case)
            found.append({'op': op, **x_desc, **kw, **bad,
                          'replay': rl.record(op, {'x': x, **(_inputs or {})}, {'symmetry': x_desc.get('symmetry'), **kw})})

    def dense_cmp(got_arr, want, indices=None):
        try:
            got = gen.densify(got_arr, indices=indices)
        except (KeyError, ValueError) as e:
            return {'error': str(e)}
        if got.shape != want.shape or not np.array_equal(got, want):
            return {'got_dense': got.tolist() if got.size < 300 else 'large', 'expected_dense': want.tolist() if want.size < 300 else 'large'}
        return None

    for k in range(n_cases):
        sym = SYMS[k % len(SYMS)]
        cplx = rng.random() < 0.35
        nd = rng.randint(1, 4)
        cms = [gen.rand_chargemap(rng, sym) for _ in range(nd)]
        dus = [rng.random() < 0.5 for _ in range(nd)]
        x = gen.rand_array(rng, sr, sym, chargemaps=cms, duals=dus, cplx=cplx)
        y = gen.rand_array(rng, sr, sym, chargemaps=cms, duals=dus, charge=x.charge, cplx=cplx)
        ring = gen.ring_of(x, y)
        X, Y = gen.garray(x, sym, ring), gen.garray(y, sym, ring)
        dx, dy = gen.densify(x), gen.densify(y)
        xd = {'symmetry': sym, 'x': describe(x)}
        A = '%s %s' % (sym, ring)

        def add_case(op, model_expr, result, detail=''):
            opcount[op] = opcount.get(op, 0) + 1
            ctx.count()
            if hasattr(result, 'indices'):
                exprs.append('match %s with Some c => aarray_eqb %s c %s | None => false end' % (model_expr, A, gen.garray(result, sym, ring)))
            else:
                exprs.append(model_expr)
            meta.append((op, sym, k, detail))

        # ---- transpose
        perm = list(range(nd)); rng.shuffle(perm)
        outs, bad = three_ways('transpose', [('method', lambda: x.transpose(tuple(perm))),
                                             ('symmray', lambda: sr.transpose(x, tuple(perm))),
                                             ('autoray', lambda: ar.do('transpose', x, tuple(perm)))])
        if bad is None and outs[0][2] is None:
            bad = dense_cmp(outs[0][1], np.transpose(dx, perm))
            add_case('transpose', 'Some (a_transpose %s %s %s)' % (A, X, gen.gnatlist(perm)), outs[0][1], str(perm))
        record('transpose', xd, bad, perm=perm)
        # ---- conj / dagger
        outs, bad = three_ways('conj', [('method', lambda: x.conj()), ('symmray', lambda: sr.conj(x)), ('autoray', lambda: ar.do('conj', x))])
        if bad is None and outs[0][2] is None:
            c = outs[0][1]
            bad = dense_cmp(c, np.conj(dx))
            if bad is None and (c.charge != refsym.neg(sym, x.charge) or [i.dual for i in c.indices] != [not d for d in dus]):
                bad = {'error': 'conj must negate the charge and flip every direction', 'charge': c.charge, 'duals': [i.dual for i in c.indices]}
            add_case('conj', 'Some (a_conj %s %s)' % (A, X), c)
        record('conj', xd, bad)
        try:
            d = x.dagger()
            bad = dense_cmp(d, np.conj(dx).transpose())
            if bad is None and not same_array(d, x.H):
                bad = {'error': '.H differs from dagger()'}
            add_case('dagger', 'Some (a_dagger %s %s)' % (A, X), d)
        except Exception as e:
            bad = None; raised['dagger'] = raised.get('dagger', 0) + 1
        record('dagger', xd, bad)
        # ---- scalar multiply / divide, negation
        s = rng.choice([-2, -1, 2, 3])
        for name, f, want in (('scale', lambda: x * s, dx * s), ('rscale', lambda: s * x, dx * s), ('neg', lambda: -x, -dx),
                              ('div', lambda: (x * 4) / 2, dx * 2)):
            try:
                r = f()
                record(name, xd, dense_cmp(r, want), scalar=s)
                if name == 'scale':
                    sv = gen.gtensor(np.asarray(complex(s) if ring == 'GRing' else float(s)), ring)
                    add_case('scale', 'Some (a_scale %s %s (get %s %s []))' % (A, X, ring, sv), r)
                elif name == 'neg':
                    add_case('neg', 'Some (a_neg %s %s)' % (A, X), r)
                else:
                    ctx.count()
            except Exception:
                raised[name] = raised.get(name, 0) + 1
        # ---- binary: + (outer), - (strict), * (inner)
        only_x = set(x.blocks) - set(y.blocks); only_y = set(y.blocks) - set(x.blocks); both = set(x.blocks) & set(y.blocks)
        if (only_x and only_y) or (both and (only_x or only_y)):
            ctx.nontrivial((sym, str(sorted(x.blocks)), str(sorted(y.blocks))))
        for name, f, want, model in (('add', lambda: x + y, dx + dy, 'Some (a_add %s %s %s)' % (A, X, Y)),
                                     ('sub', lambda: x - y, dx - dy, 'a_sub %s %s %s' % (A, X, Y)),
                                     ('mul', lambda: x * y, dx * dy, 'Some (a_mul %s %s %s)' % (A, X, Y))):
            try:
                r = f()
                record(name, {**xd, 'y': describe(y)}, dense_cmp(r, want), _inputs={'y': y})
                add_case(name, model, r)
            except Exception as e:
                raised[name] = raised.get(name, 0) + 1
                if name == 'sub':
                    opcount['sub'] = opcount.get('sub', 0) + 1
                    ctx.count()
                    exprs.append('match %s with None => true | Some _ => false end' % model)
                    meta.append(('sub-raises', sym, k, ''))
        binop_tie.add_pair(x, y, sym, ring, k, scalar=s)
        # in-place variants
        try:
            z = x.copy(); z += y
            record('iadd', {**xd, 'y': describe(y)}, dense_cmp(z, dx + dy), _inputs={'y': y}); ctx.count()
            z = x.copy(); z *= y
            record('imul', {**xd, 'y': describe(y)}, dense_cmp(z, dx * dy), _inputs={'y': y}); ctx.count()
        except Exception:
            raised['inplace'] = raised.get('inplace', 0) + 1
        # ---- sum / norm
        try:
            if x.blocks:
                sm = x.sum(); ctx.count()
                if complex(sm) != complex(dx.sum()):
                    record('sum', xd, {'got': complex(sm), 'expected': complex(dx.sum())})
                if not same_array(np.asarray(sm), np.asarray(sr.sum(x))) or not same_array(np.asarray(sm), np.asarray(ar.do('sum', x))):
                    record('sum', xd, {'error': 'entry points disagree'})
                sv = gen.gtensor(np.asarray(sm), ring)
                add_case('sum', 'reqb %s (a_sum %s %s) (get %s %s [])' % (ring, A, X, ring, sv), None)
                n2 = float(x.norm()) ** 2; w2 = float(np.sum(np.abs(dx) ** 2)); ctx.count()
                if abs(n2 - w2) > 1e-9 * max(1.0, w2):
                    record('norm', xd, {'got_norm2': n2, 'expected_norm2': w2})
        except Exception as e:
            record('sum/norm', xd, {'raised': '%s: %s' % (type(e).__name__, e)})
        # ---- mixed real / complex block sets (first stored block real): conj and adjoint still conjugate every block
        try:
            xr = gen.rand_array(rng, sr, sym, chargemaps=cms, duals=dus, charge=x.charge, cplx=False, keep=1.0)
            yc = gen.rand_array(rng, sr, sym, chargemaps=cms, duals=dus, charge=x.charge, cplx=True, keep=0.6)
            if xr.blocks and yc.blocks:
                first = next(iter(xr.blocks))
                yc.blocks.pop(first, None)
                zm = xr + yc
                dz = gen.densify(zm)
                ctx.count(3)
                record('conj (mixed real/complex blocks)', {'symmetry': sym, 'x': describe(zm)}, dense_cmp(zm.conj(), np.conj(dz)))
                record('dagger (mixed real/complex blocks)', {'symmetry': sym, 'x': describe(zm)}, dense_cmp(zm.dagger(), np.conj(dz).transpose()))
                record('sr.conj (mixed real/complex blocks)', {'symmetry': sym, 'x': describe(zm)}, dense_cmp(sr.conj(zm), np.conj(dz)))
                if yc.blocks:
                    ctx.nontrivial(('mixed', sym, str(sorted(xr.blocks)), str(sorted(yc.blocks))))
        except Exception as e:
            raised['mixed'] = raised.get('mixed', 0) + 1
        # ---- norms of arrays whose stored blocks are all exactly zero (dense norm 0)
        try:
            for nm, z0 in (('(x - x).norm()', x - x), ('(0 * x).norm()', x * 0), ('(x * (x - x)).norm()', x * (x - x))):
                if not z0.blocks:
                    continue
                ctx.count()
                v0 = z0.norm()
                if not (float(np.real(v0)) == 0.0):
                    record('norm of an all-zero array', {'symmetry': sym, 'x': describe(x)}, {'expression': nm, 'got': repr(v0), 'expected': 0.0})
                v1 = sr.linalg.norm(z0)
                if not (float(np.real(v1)) == 0.0):
                    record('linalg.norm of an all-zero array', {'symmetry': sym, 'x': describe(x)}, {'expression': nm, 'got': repr(v1), 'expected': 0.0})
        except Exception as e:
            raised['zero_norm'] = raised.get('zero_norm', 0) + 1
        # ---- multiply_diagonal with a vector missing some charges
        axis = rng.randrange(nd)
        tab = x.indices[axis].chargemap
        vb = {c: gen.rand_data(rng, (d,), cplx, -2, 2) for c, d in tab.items() if rng.random() < 0.7}
        v = sr.BlockVector(vb)
        vd = vec_dense(v, sorted(tab.items()))
        shape = [1] * nd; shape[axis] = -1
        outs, bad = three_ways('multiply_diagonal', [('method', lambda: x.multiply_diagonal(v, axis)),
                                                     ('symmray', lambda: sr.multiply_diagonal(x, v, axis)),
                                                     ('autoray', lambda: ar.do('multiply_diagonal', x, v, axis))])
        if bad is None and outs[0][2] is None:
            r = outs[0][1]
            bad = dense_cmp(r, dx * vd.reshape(shape), indices=x.indices)
            ringv = 'GRing' if (ring == 'GRing' or any(np.iscomplexobj(b) for b in vb.values())) else 'ZRing'
            if ringv == ring:
                add_case('multiply_diagonal', 'Some (a_multiply_diagonal %s %s %s %s)' % (A, X, gvec(v, ring), '%d%%nat' % axis), r, 'axis %d' % axis)
            if len(vb) < len(tab):
                ctx.nontrivial(('mdiag', sym, str(sorted(x.blocks)), str(sorted(vb)), axis))
        record('multiply_diagonal', {**xd, 'v': describe(v)}, bad, _inputs={'v': v}, axis=axis)
        # ---- expand_dims / squeeze
        ax = rng.randint(0, nd)
        outs, bad = three_ways('expand_dims', [('method', lambda: x.expand_dims(ax)), ('symmray', lambda: sr.expand_dims(x, ax)),
                                               ('autoray', lambda: ar.do('expand_dims', x, ax))])
        if bad is None and outs[0][2] is None:
            e = outs[0][1]
            bad = dense_cmp(e, np.expand_dims(dx, ax))
            add_case('expand_dims', 'Some (a_expand_dims %s %s %d%%nat)' % (A, X, ax), e)
            try:
                q = e.squeeze(ax)
                bad = bad or (None if same_array(q, x) else {'error': 'squeeze(expand_dims(x)) differs from x'})
                add_case('squeeze', 'a_squeeze %s %s (Some [%d%%nat])' % (A, gen.garray(e, sym, ring), ax), q)
                q2 = sr.squeeze(e, ax)
                if not same_array(q, q2):
                    bad = bad or {'error': 'sr.squeeze differs from method'}
            except Exception as ex:
                bad = bad or {'raised': 'squeeze of a zero-charge singleton: %s' % ex}
        record('expand_dims/squeeze', xd, bad, axis=ax)
        # ---- squeeze with NO axis argument: exactly the axes of total size one go (numpy.squeeze of the dense array)
        try:
            for nm, f in (('squeeze()', lambda a: a.squeeze()), ('sr.squeeze(x)', lambda a: sr.squeeze(a)), ('ar.do(squeeze)', lambda a: ar.do('squeeze', a))):
                ctx.count()
                try:
                    q = f(x)
                except Exception as ex:
                    # only a charged size-one axis may refuse to go (characterised by squeeze_none)
                    if not any(ix.size_total == 1 for ix in x.indices):
                        record('squeeze (no axis)', xd, {'raised': '%s: %s: %s' % (nm, type(ex).__name__, ex)})
                    continue
                want = np.squeeze(dx)
                got = gen.densify(q) if hasattr(q, 'blocks') else np.asarray(q)
                if got.shape != want.shape or not np.array_equal(got, want):
                    record('squeeze (no axis)', xd, {'error': '%s: shape %r, numpy.squeeze of the dense array has shape %r' % (nm, got.shape, want.shape)})
            if any(len(ix.chargemap) == 1 and ix.size_total > 1 for ix in x.indices):
                ctx.nontrivial(('squeeze-none', sym, str([sorted(ix.chargemap.items()) for ix in x.indices])))
        except Exception as ex:
            raised['squeeze_none'] = raised.get('squeeze_none', 0) + 1
        # ---- in-place scaling of a COPY (and of a sum that keeps operand blocks by reference): value of the result, and the
        #      values of the arrays it was made from afterwards
        try:
            ctx.count(2)
            z = x.copy(); z *= 3
            bad2 = dense_cmp(z, 3 * dx) or dense_cmp(x, dx)
            z = x.copy(); z /= 2
            bad2 = bad2 or dense_cmp(z, dx / 2) or dense_cmp(x, dx)
            record('scalar *= / /= on a copy', xd, bad2 and {**bad2, 'note': 'result, or the array the copy was taken from, has the wrong value afterwards'})
        except Exception as ex:
            raised['iscale'] = raised.get('iscale', 0) + 1
        if k < 2:
            ctx.sample({'symmetry': sym, 'x': describe(x), 'perm': perm, 'axis': axis})

        # ---- BlockVector.to_dense: ascending charge order whatever the insertion order of the blocks (the order of an array's axis)
        try:
            tabv = sorted(gen.rand_chargemap(rng, sym).items())
            order = list(tabv); rng.shuffle(order)
            vv = sr.BlockVector({c: gen.rand_data(rng, (d,), cplx, -3, 3) for c, d in order})
            ctx.count()
            gotv = np.asarray(vv.to_dense())
            wantv = vec_dense(vv, tabv)
            if gotv.shape != wantv.shape or not np.array_equal(gotv, wantv):
                found.append({'op': 'BlockVector.to_dense', 'symmetry': sym, 'insertion_order': [str(c) for c, _ in order],
                              'got_dense': gotv.tolist(), 'expected_dense': wantv.tolist(), 'error': 'blocks are not laid out in ascending charge order'})
            if [c for c, _ in order] != [c for c, _ in tabv]:
                ctx.nontrivial(('vec_to_dense', sym, str(order)))
        except Exception as ex:
            raised['vec_to_dense'] = raised.get('vec_to_dense', 0) + 1
        # ---- block vectors: arithmetic and elementwise functions
        tab2 = sorted(gen.rand_chargemap(rng, sym).items())
        v1 = sr.BlockVector({c: gen.rand_data(rng, (d,), cplx, 1, 4) for c, d in tab2 if rng.random() < 0.8})
        v2 = sr.BlockVector({c: gen.rand_data(rng, (d,), cplx, 1, 4) for c, d in tab2 if rng.random() < 0.8})
        d1, d2 = vec_dense(v1, tab2), vec_dense(v2, tab2)
        vdesc = {'symmetry': sym, 'v1': describe(v1), 'v2': describe(v2)}
        for name, f, want in (('v+v', lambda: v1 + v2, d1 + d2), ('v-v', lambda: v1 - v2, d1 - d2),
                              ('v*v', lambda: v1 * v2, d1 * d2), ('v*s', lambda: v1 * 3, d1 * 3), ('s*v', lambda: 3 * v1, d1 * 3),
                              ('-v', lambda: -v1, -d1), ('v/s', lambda: (v1 * 4) / 2, d1 * 2)):
            ctx.count()
            try:
                r = f()
            except Exception:
                raised[name] = raised.get(name, 0) + 1
                continue
            got = vec_dense(r, tab2)
            if not np.array_equal(got, want):
                found.append({'op': name, **vdesc, 'got': got.tolist(), 'expected': want.tolist(),
                              'replay': rl.record('vec_arith', {'v1': v1, 'v2': v2}, {'symmetry': sym, 'op': name, 'table': tab2})})
        rv = gen.ring_of(v1, v2)
        if v1.blocks or v2.blocks:
            r = v1 + v2
            exprs.append('list_eqb (pair_eqb %s (tensor_eqb %s)) (v_add %s %s %s %s) %s' % (
                '(pair_eqb Z.eqb Z.eqb)' if refsym.IS_PAIR[sym] else 'Z.eqb', rv, sym, rv, gvec(v1, rv), gvec(v2, rv), gvec(r, rv)))
            meta.append(('v_add', sym, k, '')); ctx.count()
        # elementwise functions on full vectors (dense = concatenation of own blocks)
        if v1.blocks:
            own = sorted((c, len(b)) for c, b in v1.blocks.items())
            dd = vec_dense(v1, own)
            for name, calls, want in (
                    ('abs', [lambda: v1.abs(), lambda: sr.abs(v1), lambda: ar.do('abs', v1)], np.abs(dd)),
                    ('sqrt', [lambda: (v1 * v1).sqrt() if not cplx else v1.sqrt(), lambda: sr.sqrt(v1 * v1) if not cplx else sr.sqrt(v1),
                              lambda: ar.do('sqrt', v1 * v1) if not cplx else ar.do('sqrt', v1)], np.sqrt(dd * dd) if not cplx else np.sqrt(dd)),
                    ('conj', [lambda: v1.conj() if hasattr(v1, 'conj') else (_ for _ in ()).throw(AttributeError()), ], np.conj(dd))):
                outs, bad = three_ways('vec.' + name, [('w%d' % i, c) for i, c in enumerate(calls)])
                ctx.count()
                if bad is None and outs[0][2] is None:
                    got = vec_dense(outs[0][1], own)
                    if not np.allclose(got, want, rtol=1e-12, atol=0):
                        bad = {'got': got.tolist(), 'expected': want.tolist()}
                if bad:
                    found.append({'op': 'vec.' + name, **vdesc, **bad,
                                  'replay': rl.record('vec_fn', {'v1': v1, 'v2': v2}, {'symmetry': sym, 'op': name, 'complex': cplx})})
            if not cplx:
                for name, want in (('max', dd.real.max()), ('min', dd.real.min()), ('sum', dd.real.sum())):
                    ctx.count()
                    try:
                        g1 = getattr(v1, name)(); g2 = getattr(sr, name)(v1); g3 = ar.do(name, v1)
                        if not (float(g1) == float(g2) == float(g3) == float(want)):
                            found.append({'op': 'vec.' + name, **vdesc, 'got': [float(g1), float(g2), float(g3)], 'expected': float(want),
                                          'replay': rl.record('vec_reduce', {'v1': v1, 'v2': v2}, {'symmetry': sym, 'op': name})})
                    except Exception:
                        raised['vec.' + name] = raised.get('vec.' + name, 0) + 1
    # log / log2 / log10: must raise or be right (they recurse -> RecursionError = raises)
    for fn in ('log', 'log2', 'log10'):
        v = sr.BlockVector({0: np.array([1.0, 2.0])})
        try:
            r = getattr(sr, fn)(v)
            want = getattr(np, fn)(np.array([1.0, 2.0]))
            if not np.allclose(np.asarray(r.blocks[0]), want):
                found.append({'op': fn, 'got': np.asarray(r.blocks[0]).tolist(), 'expected': want.tolist(),
                              'replay': rl.record('vec_log', {}, {'op': fn})})
        except (RecursionError, AttributeError):
            raised[fn] = raised.get(fn, 0) + 1

    bad_idx = common.run_cases(ctx, 'ops', IMPORTS, '', exprs, shard=120)
    tie_broken = []
    import tie_prims
    tie_broken += tie_prims.tie(ctx)
    tie_broken += binop_tie.run()
    ctx.extra.setdefault('tie', {})['model_cases'] = len(exprs)
    if bad_idx is None:
        tie_broken.append('cases.v (structural/arithmetic model vs implementation) did not evaluate')
    elif bad_idx:
        tie_broken += ['Model.%s disagrees with the implementation (symmetry %s, case %d %s)' % meta[i] for i in bad_idx[:10]]
        ctx.extra['disagreeing_cases'] = [exprs[i][:2500] for i in bad_idx[:3]]
    for f in found[:5]:
        ctx.violation('%s differs from the dense operation' % f['op'], {'oracle': 'numpy on own dense embedding / entry-point agreement', **f, 'run': rl.run_info(ctx)})
    ctx.broken += tie_broken
    if (not ok or tie_broken) and not found:
        ctx.violation('proof obligation or tie of C08 no longer checks',
                      {'broken': ctx.broken, 'replay': rl.record('proof_phase')}, found_input=False)
    ctx.extra['ops_compared_with_model'] = opcount
    ctx.extra['operations_that_raised'] = raised
    ctx.coverage['rule'] = ('random abelian arrays (rank 1-4, five symmetries, random dualness/charge/sparsity, real + Gaussian-integer data) and a '
                            'second array on the same indices with an independently chosen sector subset; every listed operation through method / '
                            'symmray function / autoray dispatch; block vectors with independently missing charges; non-trivial = binary operation '
                            'whose operands have left-only and right-only (or shared plus one-sided) sectors, or a diagonal vector lacking a charge; '
                            'distinct by (symmetry, sector sets)')

    # ---- BEGIN tie-helpers block (harness/tie_helpers.py): translated interface vs the Python source
    import tie_helpers
    tb = tie_helpers.tie(ctx, parts=('interface',))
    fi = tie_helpers.failing_inputs(ctx, parts=('interface',))
    for f in fi[:3]:
        ctx.violation('%s differs from its specification' % f['op'], f)
    if tb:
        ctx.broken += tb
        if not fi and not ctx.violations:
            ctx.violation('tie of C08 (Gen/Interface.v vs interface.py) no longer checks', {'broken': tb}, found_input=False)
    # ---- END tie-helpers block

# ------------------------------------------------------------------ replay
def _three_ways(calls):
    """as in run(): method / symmray function / autoray dispatch must agree exactly (or all raise)"""
    outs = []
    for how, f in calls:
        try:
            outs.append((how, f(), None))
        except RecursionError:
            outs.append((how, None, 'RecursionError'))
        except Exception as e:
            outs.append((how, None, type(e).__name__))
    errs = [e for _, _, e in outs]
    if any(errs):
        if not all(errs):
            return outs, {'error': 'entry points disagree: %r' % [(h, e) for h, _, e in outs]}
        return outs, None
    for how, res, _ in outs[1:]:
        if not same_array(outs[0][1], res):
            return outs, {'error': 'entry point %s returns something else than %s' % (how, outs[0][0])}
    return outs, None


def _dense_cmp(got_arr, want, indices=None):
    try:
        got = gen.densify(got_arr, indices=indices)
    except (KeyError, ValueError) as e:
        return {'error': str(e)}
    if got.shape != want.shape or not np.array_equal(got, want):
        return {'got_dense': got.tolist() if got.size < 300 else 'large', 'expected_dense': want.tolist() if want.size < 300 else 'large'}
    return None


def _rp_array_op(op):
    def f(sr, ins, pr, r):
        import autoray as ar
        x = ins['x']
        sym = pr.get('symmetry')
        dx = gen.densify(x)
        nd = x.ndim
        bad = None
        if op == 'transpose':
            perm = pr['perm']
            outs, bad = _three_ways([('method', lambda: x.transpose(tuple(perm))), ('symmray', lambda: sr.transpose(x, tuple(perm))),
                                     ('autoray', lambda: ar.do('transpose', x, tuple(perm)))])
            if bad is None and outs[0][2] is None:
                bad = _dense_cmp(outs[0][1], np.transpose(dx, perm))
        elif op == 'conj':
            outs, bad = _three_ways([('method', lambda: x.conj()), ('symmray', lambda: sr.conj(x)), ('autoray', lambda: ar.do('conj', x))])
            if bad is None and outs[0][2] is None:
                c = outs[0][1]
                bad = _dense_cmp(c, np.conj(dx))
                if bad is None and (c.charge != refsym.neg(sym, x.charge) or [i.dual for i in c.indices] != [not i.dual for i in x.indices]):
                    bad = {'error': 'conj must negate the charge and flip every direction', 'expected': [refsym.neg(sym, x.charge), [not i.dual for i in x.indices]],
                           'got': [c.charge, [i.dual for i in c.indices]]}
        elif op == 'dagger':
            try:
                d = x.dagger()
            except Exception:
                return []       # raising is allowed (counted, not a finding)
            bad = _dense_cmp(d, np.conj(dx).transpose())
            if bad is None and not same_array(d, x.H):
                bad = {'error': '.H differs from dagger()'}
        elif op in ('scale', 'rscale', 'neg', 'div'):
            s = pr['scalar']
            f2, want = {'scale': (lambda: x * s, dx * s), 'rscale': (lambda: s * x, dx * s), 'neg': (lambda: -x, -dx),
                        'div': (lambda: (x * 4) / 2, dx * 2)}[op]
            try:
                res = f2()
            except Exception:
                return []
            bad = _dense_cmp(res, want)
        elif op in ('add', 'sub', 'mul', 'iadd', 'imul'):
            y = ins['y']
            dy = gen.densify(y)
            try:
                if op == 'add':
                    res, want = x + y, dx + dy
                elif op == 'sub':
                    res, want = x - y, dx - dy
                elif op == 'mul':
                    res, want = x * y, dx * dy
                elif op == 'iadd':
                    res = x.copy(); res += y; want = dx + dy
                else:
                    res = x.copy(); res *= y; want = dx * dy
            except Exception:
                return []
            bad = _dense_cmp(res, want)
        elif op in ('sum', 'norm', 'sum/norm'):
            try:
                if x.blocks:
                    sm = x.sum()
                    if complex(sm) != complex(dx.sum()):
                        return [{'what': 'x.sum()', 'expected': complex(dx.sum()), 'got': complex(sm)}]
                    if not same_array(np.asarray(sm), np.asarray(sr.sum(x))) or not same_array(np.asarray(sm), np.asarray(ar.do('sum', x))):
                        return [{'what': 'sum: entry points disagree'}]
                    n2 = float(x.norm()) ** 2; w2 = float(np.sum(np.abs(dx) ** 2))
                    if abs(n2 - w2) > 1e-9 * max(1.0, w2):
                        return [{'what': 'x.norm()**2', 'expected': w2, 'got': n2}]
            except Exception as e:
                return [{'what': 'sum / norm raises', 'expected': 'a number', 'got': '%s: %s' % (type(e).__name__, e)}]
            return []
        elif op == 'multiply_diagonal':
            v, axis = ins['v'], pr['axis']
            tab = x.indices[axis].chargemap
            vd = vec_dense(v, sorted(tab.items()))
            shape = [1] * nd; shape[axis] = -1
            outs, bad = _three_ways([('method', lambda: x.multiply_diagonal(v, axis)), ('symmray', lambda: sr.multiply_diagonal(x, v, axis)),
                                     ('autoray', lambda: ar.do('multiply_diagonal', x, v, axis))])
            if bad is None and outs[0][2] is None:
                bad = _dense_cmp(outs[0][1], dx * vd.reshape(shape), indices=x.indices)
        elif op == 'expand_dims/squeeze':
            ax = pr['axis']
            outs, bad = _three_ways([('method', lambda: x.expand_dims(ax)), ('symmray', lambda: sr.expand_dims(x, ax)),
                                     ('autoray', lambda: ar.do('expand_dims', x, ax))])
            if bad is None and outs[0][2] is None:
                e = outs[0][1]
                bad = _dense_cmp(e, np.expand_dims(dx, ax))
                try:
                    q = e.squeeze(ax)
                    bad = bad or (None if same_array(q, x) else {'error': 'squeeze(expand_dims(x)) differs from x'})
                    if not same_array(q, sr.squeeze(e, ax)):
                        bad = bad or {'error': 'sr.squeeze differs from method'}
                except Exception as ex:
                    bad = bad or {'raised': 'squeeze of a zero-charge singleton: %s' % ex}
        elif op == 'squeeze (no axis)':
            bad = None
            for nm, f2 in (('squeeze()', lambda a: a.squeeze()), ('sr.squeeze(x)', lambda a: sr.squeeze(a)), ('ar.do(squeeze)', lambda a: ar.do('squeeze', a))):
                try:
                    q = f2(x)
                except Exception as ex:
                    if not any(ix.size_total == 1 for ix in x.indices):
                        bad = bad or {'raised': '%s: %s: %s' % (nm, type(ex).__name__, ex)}
                    continue
                want = np.squeeze(dx)
                got = gen.densify(q) if hasattr(q, 'blocks') else np.asarray(q)
                if got.shape != want.shape or not np.array_equal(got, want):
                    bad = bad or {'error': '%s: shape %r, numpy.squeeze of the dense array has shape %r' % (nm, got.shape, want.shape)}
        elif op == 'scalar *= / /= on a copy':
            z = x.copy(); z *= 3
            bad = _dense_cmp(z, 3 * dx) or _dense_cmp(x, dx)
            z = x.copy(); z /= 2
            bad = bad or _dense_cmp(z, dx / 2) or _dense_cmp(x, dx)
        else:
            return [{'what': 'unknown operation %r in the replay file' % op}]
        extra = {k: v for k, v in pr.items() if k != 'symmetry'}
        return rl.fail_from(bad, '%s%s vs numpy on the dense form / the other entry points' % (op, ' %s' % extra if extra else ''))
    return f


def _rp_vec_arith(sr, ins, pr, r):
    v1, v2 = ins['v1'], ins['v2']
    tab2 = [(rl.dec_charge(c), d) for c, d in pr['table']]
    d1, d2 = vec_dense(v1, tab2), vec_dense(v2, tab2)
    f, want = {'v+v': (lambda: v1 + v2, d1 + d2), 'v-v': (lambda: v1 - v2, d1 - d2), 'v*v': (lambda: v1 * v2, d1 * d2),
               'v*s': (lambda: v1 * 3, d1 * 3), 's*v': (lambda: 3 * v1, d1 * 3), '-v': (lambda: -v1, -d1),
               'v/s': (lambda: (v1 * 4) / 2, d1 * 2)}[pr['op']]
    try:
        res = f()
    except Exception:
        return []
    got = vec_dense(res, tab2)
    if not np.array_equal(got, want):
        return [{'what': 'block vectors: %s' % pr['op'], 'expected': want.tolist(), 'got': got.tolist()}]
    return []


def _rp_vec_fn(sr, ins, pr, r):
    import autoray as ar
    v1, cplx, name = ins['v1'], pr['complex'], pr['op']
    own = sorted((c, len(b)) for c, b in v1.blocks.items())
    dd = vec_dense(v1, own)
    calls, want = {
        'abs': ([lambda: v1.abs(), lambda: sr.abs(v1), lambda: ar.do('abs', v1)], np.abs(dd)),
        'sqrt': ([lambda: (v1 * v1).sqrt() if not cplx else v1.sqrt(), lambda: sr.sqrt(v1 * v1) if not cplx else sr.sqrt(v1),
                  lambda: ar.do('sqrt', v1 * v1) if not cplx else ar.do('sqrt', v1)], np.sqrt(dd * dd) if not cplx else np.sqrt(dd)),
        'conj': ([lambda: v1.conj() if hasattr(v1, 'conj') else (_ for _ in ()).throw(AttributeError()), ], np.conj(dd))}[name]
    outs, bad = _three_ways([('w%d' % i, c) for i, c in enumerate(calls)])
    if bad is None and outs[0][2] is None:
        got = vec_dense(outs[0][1], own)
        if not np.allclose(got, want, rtol=1e-12, atol=0):
            bad = {'got': got.tolist(), 'expected': want.tolist()}
    return rl.fail_from(bad, 'vec.%s' % name)


def _rp_vec_reduce(sr, ins, pr, r):
    import autoray as ar
    v1, name = ins['v1'], pr['op']
    own = sorted((c, len(b)) for c, b in v1.blocks.items())
    dd = vec_dense(v1, own)
    want = {'max': dd.real.max, 'min': dd.real.min, 'sum': dd.real.sum}[name]()
    try:
        g1 = getattr(v1, name)(); g2 = getattr(sr, name)(v1); g3 = ar.do(name, v1)
    except Exception:
        return []
    if not (float(g1) == float(g2) == float(g3) == float(want)):
        return [{'what': 'vec.%s through method / symmray / autoray' % name, 'expected': float(want), 'got': [float(g1), float(g2), float(g3)]}]
    return []


def _rp_vec_log(sr, ins, pr, r):
    fn = pr['op']
    v = sr.BlockVector({0: np.array([1.0, 2.0])})
    try:
        res = getattr(sr, fn)(v)
        want = getattr(np, fn)(np.array([1.0, 2.0]))
        if not np.allclose(np.asarray(res.blocks[0]), want):
            return [{'what': 'symmray.%s of a block vector' % fn, 'expected': want.tolist(), 'got': np.asarray(res.blocks[0]).tolist()}]
    except (RecursionError, AttributeError):
        pass
    return []


ORACLES = {op: _rp_array_op(op) for op in ('transpose', 'conj', 'dagger', 'scale', 'rscale', 'neg', 'div', 'add', 'sub', 'mul', 'iadd', 'imul',
                                           'sum', 'norm', 'sum/norm', 'multiply_diagonal', 'expand_dims/squeeze', 'squeeze (no axis)',
                                           'scalar *= / /= on a copy')}
ORACLES.update({'vec_arith': _rp_vec_arith, 'vec_fn': _rp_vec_fn, 'vec_reduce': _rp_vec_reduce, 'vec_log': _rp_vec_log})


def replay(path):
    """re-run the recorded failing case against $SYMMRAY_REPO: 1 = still fails, 0 = passes now"""
    import sys
    return rl.dispatch(path, 'C08', ORACLES, sys.modules[__name__])
