"""C18 — local fermionic operator arrays reproduce the second-quantised operator.

Correspondence: the real `build_local_fermionic_elements` against the Coq model
(`Model.LocalOps.elements`, the algorithm as written) and against the Coq
reference semantics (`ref_element`, Jordan-Wigner VEVs) through cases.v.
Oracle (independent of the library and of the Coq model): numpy integer
Jordan-Wigner matrices; at the array level Hermiticity / spectrum / product
of operator arrays through the library's own fermionic tensordot."""
import itertools
import json
import warnings

import numpy as np

import common
from common import gz, gnat, gbool, glist, gpair

IMPORTS = 'From SV Require Import Model.LocalOps.\n'
IMPORTS_GEN = 'From SV Require Import Model.LocalOps Gen.LocalOpsData.\n'
# translator tie of the ALGORITHM: Gen/LocalAlgGen.v is build_local_fermionic_elements itself, statement by statement
# (own shard: Gen.OpOrder and Model.LocalOps both define `op` / `label`)
IMPORTS_ALG = 'From SV Require Import Base.PyList Gen.OpOrder Gen.LocalAlgGen.\n'


# ====================================================================== independent oracle
class JW:
    """Jordan-Wigner matrices over M modes, exact int64.  Mode 0 is the most
    significant tensor factor; a_m = Z x ... x Z x [[0,1],[0,0]] x 1 x ... x 1."""
    _cache = {}

    def __init__(self, M):
        self.M = M
        I2 = np.eye(2, dtype=np.int64)
        Zm = np.array([[1, 0], [0, -1]], dtype=np.int64)
        lower = np.array([[0, 1], [0, 0]], dtype=np.int64)   # |0><1|
        self.ann = []
        for m in range(M):
            mat = np.ones((1, 1), dtype=np.int64)
            for k in range(M):
                mat = np.kron(mat, Zm if k < m else (lower if k == m else I2))
            self.ann.append(mat)
        self.cre = [a.T.copy() for a in self.ann]
        self.dim = 2 ** M

    @classmethod
    def get(cls, M):
        if M not in cls._cache:
            cls._cache[M] = cls(M)
        return cls._cache[M]

    def op(self, rank, dagger):
        return (self.cre if dagger else self.ann)[rank]

    def string(self, ops):
        """matrix of the product ops[0] ops[1] ... (ops = [(rank, dagger)])"""
        mat = np.eye(self.dim, dtype=np.int64)
        for r, d in ops:
            mat = mat @ self.op(r, d)
        return mat

    def vev(self, ops):
        return int(self.string(ops)[0, 0])

    def poly(self, terms):
        """matrix of sum_t coeff * string (coefficients may be int / float / Fraction-free)"""
        dt = np.int64 if all(isinstance(c, (int, np.integer)) for c, _ in terms) else np.float64
        mat = np.zeros((self.dim, self.dim), dtype=dt)
        for c, ops in terms:
            mat = mat + c * self.string(ops)
        return mat


def dagger_string(ops):
    return [(r, not d) for r, d in reversed(ops)]


def oracle_dense(terms, bases, M):
    """<bra(l)| sum_t c_t t |ket(r)> with bra = per-site dagger, sites in order.
    Written from the property text, not from the library."""
    jw = JW.get(M)
    H = jw.poly(terms) if terms else np.zeros((jw.dim, jw.dim), dtype=np.int64)
    dims = [len(b) for b in bases]
    vac = np.zeros(jw.dim, dtype=np.int64)
    vac[0] = 1
    kets, bras = {}, {}
    for idx in itertools.product(*[range(d) for d in dims]):
        k = [o for b, i in zip(bases, idx) for o in b[i]]
        kets[idx] = jw.string(k) @ vac
        # <0| (x_1)^dag (x_2)^dag ... : row vector
        brow = vac.copy()
        for b, i in zip(bases, idx):
            brow = brow @ jw.string(dagger_string(list(b[i])))
        bras[idx] = brow
    out = {}
    for l in kets:
        for r in kets:
            out[l + r] = bras[l] @ H @ kets[r]
    return out


# ====================================================================== generation
LABEL_KINDS = ('int', 'str', 'tuple', 'negint')


def make_labels(rng, n):
    kind = rng.choice(LABEL_KINDS)
    if kind == 'int':
        labs = rng.sample(range(0, 9), n)
    elif kind == 'negint':
        labs = rng.sample(range(-5, 5), n)
    elif kind == 'str':
        labs = rng.sample(['a', 'b', 'au', 'ad', 'bu', 'bd', 'c', 'Z', 'aa', 'b0'], n)
    else:
        labs = rng.sample([(i, j) for i in range(3) for j in range(3)], n)
    return kind, labs


def gen_case(rng, thorough=False):
    """returns dict with python-level description: labels, terms [(coeff, [(label, dag)])],
    bases [[ [(label, dag)] ]], flavour"""
    nsites = rng.choice([1, 1, 2, 2, 2, 3])
    nmodes = rng.randint(max(1, nsites if rng.random() < 0.8 else 1), 4)
    kind, labs = make_labels(rng, nmodes)
    flavour = rng.choice(['occ', 'occ', 'occ', 'occ_subset', 'occ_subset', 'junk'])
    # distribute modes over sites
    site_modes = [[] for _ in range(nsites)]
    for i, l in enumerate(labs):
        site_modes[i % nsites if rng.random() < 0.85 else rng.randrange(nsites)].append(l)
    bases = []
    for s in range(nsites):
        ms = site_modes[s]
        states = []
        for r in range(len(ms) + 1):
            for sub in itertools.combinations(ms, r):
                st = list(sub)
                rng.shuffle(st)
                states.append([(l, True) for l in st])
        rng.shuffle(states)
        if flavour in ('occ_subset', 'junk') and len(states) > 1:
            states = states[:rng.randint(1, len(states))]
        if flavour == 'junk':
            for _ in range(rng.randint(1, 2)):
                states.insert(rng.randrange(len(states) + 1),
                              [(rng.choice(labs), rng.random() < 0.7) for _ in range(rng.randint(0, 3))])
        # keep index grids small enough for vm_compute
        states = states[:4] if nsites == 3 else states[:6] if nsites == 2 else states[:16]
        bases.append(states)
    nterms = rng.randint(0, 5)
    terms = []
    for _ in range(nterms):
        c = rng.choice([-3, -2, -1, 1, 2, 3, 1, -1, 0, 5])
        L = rng.choice([0, 1, 2, 2, 2, 3, 4, 4, 5, 6])
        style = rng.random()
        if style < 0.35 and L >= 2:
            # number-conserving-ish / structured strings so that many elements are non-zero
            ops = []
            for _ in range(L // 2):
                ops.append((rng.choice(labs), True))
                ops.append((rng.choice(labs), False))
            if rng.random() < 0.5:
                rng.shuffle(ops)
        else:
            ops = [(rng.choice(labs), rng.random() < 0.5) for _ in range(L)]
        terms.append((c, ops))
    return {'kind': kind, 'labels': labs, 'terms': terms, 'bases': bases, 'flavour': flavour}


def gen_special_case(rng):
    """legal inputs the uniform generator reaches only rarely: partial bases without a fully occupied state
    (no-double-occupancy t-J site, one-particle sector of a 3-orbital site) and operator strings that hit one mode
    three or more times with alternating daggers (n.n, a+ a a+ a, hop-back-hop), as products of ordinary operators
    expanded term by term contain them"""
    kind, labs = make_labels(rng, 4)
    which = rng.choice(['tJ', 'one_particle', 'nn', 'nn', 'hop_back_hop'])
    n = lambda m: [(m, True), (m, False)]
    hop = lambda i, j: [(i, True), (j, False)]
    coef = lambda: rng.choice([-3, -2, -1, 1, 2, 3])
    if which == 'tJ':
        au, ad, bu, bd = labs
        site = lambda u, d: [[], [(d, True)], [(u, True)]]
        bases = [site(au, ad), site(bu, bd)]
        for b in bases:
            rng.shuffle(b)
        terms = [(coef(), hop(au, bu)), (coef(), hop(bu, au)), (coef(), hop(ad, bd)), (coef(), hop(bd, ad)),
                 (coef(), n(au) + n(bd)), (0, hop(au, bd)), (coef(), n(ad))]
        rng.shuffle(terms)
        terms = terms[:rng.randint(3, len(terms))]
    elif which == 'one_particle':
        x, y, z, w = labs
        b0 = [[(y, True)], [(x, True)], [(z, True)]]
        rng.shuffle(b0)
        bases = [b0] if rng.random() < 0.5 else [b0, [[], [(w, True)]]]
        terms = [(coef(), hop(x, z)), (coef(), hop(z, x)), (coef(), hop(x, y)), (coef(), n(y)), (coef(), hop(w, x) + hop(x, w))]
        rng.shuffle(terms)
        terms = terms[:rng.randint(2, len(terms))]
    else:
        a, b = labs[0], labs[1]
        full = lambda ms: [[(m, True) for m in sub] for r in range(len(ms) + 1) for sub in itertools.combinations(ms, r)]
        bases = [full([a, b])] if rng.random() < 0.5 else [full([a]), full([b])]
        for bb in bases:
            rng.shuffle(bb)
        if which == 'nn':
            pool = [n(a) + n(a), n(a) + n(b) + n(a), n(a) + n(a) + n(a), [(a, False), (a, True), (a, False), (a, True)],
                    n(b) + n(b), n(a) + hop(a, b) + n(b)]
        else:
            pool = [hop(a, b) + hop(b, a) + hop(a, b), hop(b, a) + hop(a, b) + hop(b, a), hop(a, b) + hop(b, a),
                    hop(a, b) + n(b) + hop(b, a)]
        terms = [(coef(), list(rng.choice(pool))) for _ in range(rng.randint(1, 3))]
        if rng.random() < 0.5:
            terms.insert(rng.randrange(len(terms) + 1), (rng.choice([0, 1, -2]), hop(a, b)))
    return {'kind': kind, 'labels': labs, 'terms': terms, 'bases': bases, 'flavour': 'special_' + which}


def rank_map(case):
    """order-isomorphic relabelling label -> rank (uses Python's own ordering of the labels)"""
    labs = set(case['labels'])
    for _, ops in case['terms']:
        labs |= {l for l, _ in ops}
    for b in case['bases']:
        for st in b:
            labs |= {l for l, _ in st}
    return {l: i for i, l in enumerate(sorted(labs))}


def to_impl(case, FermionicOperator, rng=None):
    """library inputs: mix of FermionicOperator instances and (label, symbol) tuples"""
    def mk(l, d):
        if rng is not None and rng.random() < 0.3:
            return (l, '+' if d else '-')
        return FermionicOperator(l, d)
    terms = tuple((c, tuple(mk(l, d) for l, d in ops)) for c, ops in case['terms'])
    bases = tuple(tuple(tuple(mk(l, d) for l, d in st) for st in b) for b in case['bases'])
    return terms, bases


def ranked(case):
    rk = rank_map(case)
    terms = [(c, [(rk[l], d) for l, d in ops]) for c, ops in case['terms']]
    bases = [[[(rk[l], d) for l, d in st] for st in b] for b in case['bases']]
    return terms, bases, len(rk)


def gop(o):
    return '(mkop %s %s)' % (gnat(o[0]), gbool(o[1]))


def gterms(terms):
    return glist([gpair(gz(c), glist([gop(o) for o in ops])) for c, ops in terms])


def gbases(bases):
    return glist([glist([glist([gop(o) for o in st]) for st in b]) for b in bases])


def glabel(l):
    """a Python label as the `list Z` of Gen/OpOrder.v: int n -> [n], str -> code points, tuple of ints -> its entries"""
    if isinstance(l, bool):
        raise ValueError('label %r' % (l,))
    if isinstance(l, int):
        return glist([gz(l)])
    if isinstance(l, str):
        return glist([gz(ord(ch)) for ch in l])
    if isinstance(l, tuple) and all(isinstance(x, int) and not isinstance(x, bool) for x in l):
        return glist([gz(x) for x in l])
    raise ValueError('label %r' % (l,))


def galg_op(o):
    return gpair(glabel(o[0]), gbool(o[1]))


def galg_terms(terms):
    return glist([gpair(gz(c), glist([galg_op(o) for o in ops])) for c, ops in terms])


def galg_bases(bases):
    return glist([glist([glist([galg_op(o) for o in st]) for st in b]) for b in bases])


def alg_expr(case, got):
    """generated build_local_fermionic_elements (Gen/LocalAlgGen.v) on the case's OWN labels = the dict the
    implementation returned, item by item in insertion order"""
    fuel = gnat(fuel_for(case['terms'], case['bases']))
    items = glist([gpair(glist([gz(i) for i in k]), gz(as_int(v))) for k, v in got.items()])
    return ('match build_local_fermionic_elements_gen %s %s %s with Some d => list_eqb (pair_eqb (list_eqb Z.eqb) Z.eqb) d %s '
            '| None => false end' % (fuel, galg_terms(case['terms']), galg_bases(case['bases']), items))


def fuel_for(terms, bases):
    mb = sum(max((len(st) for st in b), default=0) for b in bases)
    n = 2 * mb + max((len(ops) for _, ops in terms), default=0)
    return n * n + 1


def as_int(v):
    """library values are python floats / ints holding integers"""
    f = float(v)
    if f != int(f):
        raise ValueError('non-integral element %r' % (v,))
    return int(f)


def jsonable_case(case):
    return {'kind': case['kind'], 'flavour': case['flavour'],
            'terms': [[c, [[repr(l), d] for l, d in ops]] for c, ops in case['terms']],
            'bases': [[[[repr(l), d] for l, d in st] for st in b] for b in case['bases']],
            'terms_ranked': None, 'bases_ranked': None}


def replay_payload(case):
    t, b, M = ranked(case)
    j = jsonable_case(case)
    j['terms_ranked'] = [[c, [[r, d] for r, d in ops]] for c, ops in t]
    j['bases_ranked'] = [[[[r, d] for r, d in st] for st in bb] for bb in b]
    j['modes'] = M
    return j


def impl_elements_ranked(terms, bases):
    """run the real builder on rank-labelled operators"""
    from symmray.fermionic_local_operators import FermionicOperator, build_local_fermionic_elements
    T = tuple((c, tuple(FermionicOperator(r, d) for r, d in ops)) for c, ops in terms)
    B = tuple(tuple(tuple(FermionicOperator(r, d) for r, d in st) for st in b) for b in bases)
    return build_local_fermionic_elements(T, B)


def check_elements_against_oracle(got, terms, bases, M):
    """first index where the library's entries differ from <bra|H|ket>; None if all agree"""
    want = oracle_dense(terms, bases, M)
    for idx, w in want.items():
        g = as_int(got.get(idx, 0))
        if g != int(w):
            return {'index': list(idx), 'library': g, 'jordan_wigner': int(w)}
    extra = [k for k in got if k not in want]
    if extra:
        return {'index': list(extra[0]), 'library': as_int(got[extra[0]]), 'jordan_wigner': 'index outside the grid'}
    return None


# ====================================================================== array level (implementation + oracle)
SPINLESS = ('Z2', 'U1')
SPINFUL = ('Z2', 'U1', 'Z2Z2', 'U1U1')


def conserving_terms(rng, sym, modes, species, nterms, hermitian=True):
    """random integer-coefficient term list conserving `sym` (modes = ranks, species[r] in {0,1});
    with hermitian=True every term comes with its dagger-reverse."""
    terms = []
    for _ in range(nterms):
        for _try in range(200):
            L = rng.choice([2, 2, 4, 4, 6]) if sym in ('U1', 'U1U1') else rng.choice([2, 2, 4, 4, 6, 2])
            ops = [(rng.choice(modes), rng.random() < 0.5) for _ in range(L)]
            if sym == 'Z2':
                ok = L % 2 == 0
            elif sym == 'U1':
                ok = sum(1 if d else -1 for _, d in ops) == 0
            elif sym == 'Z2Z2':
                ok = all(sum(1 for r, _ in ops if species[r] == s) % 2 == 0 for s in (0, 1))
            else:
                ok = all(sum((1 if d else -1) for r, d in ops if species[r] == s) == 0 for s in (0, 1))
            if ok:
                break
        else:
            continue
        c = rng.choice([-3, -2, -1, 1, 2, 3])
        terms.append((c, ops))
        if hermitian:
            terms.append((c, dagger_string(ops)))
    return terms


def site_setup(spinful, nsites):
    """documented bases of the builders, in ranks.  spinless: site i has mode i,
    basis ((), (m+,)).  spinful: labels sort as ad < au < bd < bu ..., i.e. site i has
    down = 2i, up = 2i+1, basis ((), (d+,), (u+,), (u+, d+))."""
    if not spinful:
        bases = [[[], [(i, True)]] for i in range(nsites)]
        species = {i: 0 for i in range(nsites)}
        return bases, species, nsites
    bases = [[[], [(2 * i, True)], [(2 * i + 1, True)], [(2 * i + 1, True), (2 * i, True)]] for i in range(nsites)]
    species = {}
    for i in range(nsites):
        species[2 * i] = 1      # down -> second component, as in [(0,0),(0,1),(1,0),(1,1)]
        species[2 * i + 1] = 0
    return bases, species, 2 * nsites


def dense_perm(indexmap):
    """to_dense orders an axis by sorted charge (stable inside a charge)"""
    return sorted(range(len(indexmap)), key=lambda i: (indexmap[i], i))


def arr_grid(arr, axis_maps):
    """Observe an array as a dense tensor in BASIS-INDEX order: every stored block
    (pending signs multiplied in) is placed at the linear indices that carry its
    charges in `axis_maps` (offsets inside a charge are in increasing linear index,
    as from_dense slices them).  Does not rely on the indices the array reports, so
    it also works when an operation dropped unused charges from an index."""
    a = arr.phase_sync()
    out = np.zeros([len(m) for m in axis_maps], dtype=float)
    pos = [{c: [i for i, cc in enumerate(m) if cc == c] for c in set(m)} for m in axis_maps]
    for sector, blk in a.blocks.items():
        ix = np.ix_(*[pos[ax][c] for ax, c in enumerate(sector)])
        out[ix] = np.asarray(blk)
    return out


def arr_matrix(arr, index_maps, nsites):
    """(out..., in...) tensor of an operator array in basis-index order, as a matrix"""
    d = arr_grid(arr, list(index_maps) * 2)
    n = int(np.prod(d.shape[:nsites]))
    return d.reshape(n, n)


def site_sigma(bases, nsites):
    """sigma(k) = (-1)^(sum_{i<j} p_i p_j) over the index grid, row-major"""
    dims = [len(b) for b in bases]
    out = []
    for idx in itertools.product(*[range(d) for d in dims]):
        ps = [len(b[i]) % 2 for b, i in zip(bases, idx)]
        s = sum(ps[i] * ps[j] for i in range(len(ps)) for j in range(i + 1, len(ps)))
        out.append(-1 if s % 2 else 1)
    return np.array(out)


def fock_block(terms, bases, M):
    """matrix of the operator between the FULL-dagger basis states: <k|H|k'> (k over the grid)"""
    jw = JW.get(M)
    H = jw.poly(terms)
    dims = [len(b) for b in bases]
    vac = np.zeros(jw.dim, dtype=np.int64)
    vac[0] = 1
    kets = []
    for idx in itertools.product(*[range(d) for d in dims]):
        k = [o for b, i in zip(bases, idx) for o in b[i]]
        kets.append(jw.string(k) @ vac)
    K = np.array(kets).T            # columns = kets (orthonormal up to sign, complete bases)
    return K.T @ H @ K


def impl_array(terms, bases, sym, index_maps):
    from symmray.fermionic_local_operators import FermionicOperator, build_local_fermionic_array
    T = tuple((c, tuple(FermionicOperator(r, d) for r, d in ops)) for c, ops in terms)
    B = tuple(tuple(tuple(FermionicOperator(r, d) for r, d in st) for st in b) for b in bases)
    with warnings.catch_warnings():
        warnings.simplefilter('error')
        return build_local_fermionic_array(T, B, sym, list(index_maps))


# ---------------------------------------------------------------- array-level case generation
def charge_of(sym, state, species):
    n = [0, 0]
    for r, d in state:
        n[species[r]] += 1
    if sym == 'Z2':
        return (n[0] + n[1]) % 2
    if sym == 'U1':
        return n[0] + n[1]
    if sym == 'Z2Z2':
        return (n[0] % 2, n[1] % 2)
    return (n[0], n[1])


def combine(sym, cs):
    """group operation, written here (not the library's)"""
    if sym == 'Z2':
        return sum(cs) % 2
    if sym == 'U1':
        return sum(cs)
    if sym == 'Z2Z2':
        return (sum(c[0] for c in cs) % 2, sum(c[1] for c in cs) % 2)
    return (sum(c[0] for c in cs), sum(c[1] for c in cs))


def parity_of(sym, c):
    return (c % 2) if sym in ('Z2', 'U1') else ((c[0] + c[1]) % 2)


def gen_array_case(rng, documented=False):
    spinful = rng.random() < 0.55
    sym = rng.choice(SPINFUL if spinful else SPINLESS)
    nsites = rng.choice([1, 2, 2, 2, 3]) if not spinful else rng.choice([1, 2, 2])
    bases, species, M = site_setup(spinful, nsites)
    if not documented:
        # any ordering of the occupation states, any operator order inside a state
        nb = []
        for b in bases:
            b2 = [list(st) for st in b]
            for st in b2:
                rng.shuffle(st)
            rng.shuffle(b2)
            nb.append(b2)
        bases = nb
    index_maps = [[charge_of(sym, st, species) for st in b] for b in bases]
    return {'sym': sym, 'spinful': spinful, 'nsites': nsites, 'bases': bases, 'species': species,
            'modes': M, 'index_maps': index_maps}


def grid_of(bases):
    return list(itertools.product(*[range(len(b)) for b in bases]))


def apply_to_states(G, ac, rng, cls):
    """matrix of psi -> tensordot(G, psi) obtained from unit state tensors of every
    total charge (the library's contraction supplies all signs)"""
    import symmray as sr
    ns, ims, sym = ac['nsites'], ac['index_maps'], ac['sym']
    grid = grid_of(ac['bases'])
    dims = [len(b) for b in ac['bases']]
    A = np.zeros((len(grid), len(grid)))
    for gi, idx in enumerate(grid):
        q = combine(sym, [ims[s][i] for s, i in enumerate(idx)])
        dense = np.zeros(dims)
        dense[idx] = 1.0
        psi = cls.from_dense(dense, ims, duals=[False] * ns, charge=q,
                             oddpos=('psi', gi) if parity_of(sym, q) else None)
        out = sr.tensordot(G, psi, axes=(list(range(ns, 2 * ns)), list(range(ns))))
        A[:, gi] = arr_grid(out, ims).reshape(-1)
    return A


def array_level_check(ac, t1, t2, rng, full_map=True):
    """returns None or a dict describing the first failed check.  All expectations
    come from the Jordan-Wigner matrices and the sign sigma(k)."""
    import symmray as sr
    ns, ims, sym, bases, M = ac['nsites'], ac['index_maps'], ac['sym'], ac['bases'], ac['modes']
    sig = site_sigma(bases, ns)
    G1 = impl_array(t1, bases, sym, ims)
    H1 = fock_block(t1, bases, M)
    M1 = arr_matrix(G1, ims, ns)
    ident = combine(sym, [])
    if tuple(G1.duals) != (False,) * ns + (True,) * ns or G1.charge != ident:
        return {'check': 'layout: duals (ket..., bra...) / zero charge', 'duals': list(G1.duals), 'charge': G1.charge}
    for ax, ix in enumerate(G1.indices):
        im = ims[ax % ns]
        if dict(ix.chargemap) != {c: im.count(c) for c in set(im)}:
            return {'check': 'layout: index_maps * 2', 'axis': ax, 'chargemap': dict(ix.chargemap)}
    if not np.array_equal(M1, sig[:, None] * H1):
        bad = np.argwhere(M1 != sig[:, None] * H1)[0]
        return {'check': 'array elements = sigma(l) <l|H|r> (second-quantised elements in the documented layout)',
                'row': int(bad[0]), 'col': int(bad[1]), 'library': float(M1[tuple(bad)]),
                'expected': float((sig[:, None] * H1)[tuple(bad)])}
    want = sig[:, None] * H1 * sig[None, :]          # S H S
    if full_map:
        A = apply_to_states(G1, ac, rng, type(G1))
        if not np.array_equal(A, want):
            bad = np.argwhere(A != want)[0]
            return {'check': 'tensordot(G, psi) acts as the operator (fixed sign convention S H S)',
                    'row': int(bad[0]), 'col': int(bad[1]), 'library': float(A[tuple(bad)]), 'expected': float(want[tuple(bad)])}
        if not np.array_equal(A, A.T):
            return {'check': 'Hermitian term set gives a Hermitian map'}
        ev_lib = np.linalg.eigvalsh(A)
        ev_jw = np.linalg.eigvalsh(JW.get(M).poly(t1).astype(float))
        if ev_lib.shape != ev_jw.shape or not np.allclose(ev_lib, ev_jw, atol=1e-8):
            return {'check': 'exact Fock-space spectrum', 'library': ev_lib.tolist(), 'jordan_wigner': ev_jw.tolist()}
    else:
        # random state tensor of every total charge
        grid = grid_of(bases)
        dims = [len(b) for b in bases]
        sectors = {}
        for gi, idx in enumerate(grid):
            sectors.setdefault(combine(sym, [ims[s][i] for s, i in enumerate(idx)]), []).append(gi)
        for q, members in sectors.items():
            vec = np.zeros(len(grid))
            for gi in members:
                vec[gi] = rng.randint(-3, 3)
            psi = type(G1).from_dense(vec.reshape(dims), ims, duals=[False] * ns, charge=q,
                                      oddpos='psi' if parity_of(sym, q) else None)
            out = sr.tensordot(G1, psi, axes=(list(range(ns, 2 * ns)), list(range(ns))))
            got = arr_grid(out, ims).reshape(-1)
            if not np.array_equal(got, want @ vec):
                return {'check': 'tensordot(G, psi) acts as the operator (fixed sign convention S H S)',
                        'charge': q, 'psi': vec.tolist(), 'library': got.tolist(), 'expected': (want @ vec).tolist()}
    if t2 is not None:
        G2 = impl_array(t2, bases, sym, ims)
        t12 = [(c1 * c2, o1 + o2) for c1, o1 in t1 for c2, o2 in t2]
        G12 = impl_array(t12, bases, sym, ims)
        P = sr.tensordot(G1, G2, axes=(list(range(ns, 2 * ns)), list(range(ns))))
        MP, M12 = arr_matrix(P, ims, ns), arr_matrix(G12, ims, ns)
        if not np.array_equal(MP, M12):
            bad = np.argwhere(MP != M12)[0]
            return {'check': 'two operator arrays in succession = array of the product operator',
                    'row': int(bad[0]), 'col': int(bad[1]), 'tensordot': float(MP[tuple(bad)]), 'product_array': float(M12[tuple(bad)])}
        H12 = fock_block(t12, bases, M)
        if not np.array_equal(M12, sig[:, None] * H12):
            return {'check': 'product operator array elements'}
    return None


# ---------------------------------------------------------------- the five builders against the documented formulas
def builder_cases(rng, n):
    out = []
    for _ in range(n):
        kind = rng.choice(['hubbard_spinless', 'hubbard', 'hubbard', 'number_spinless', 'number_spinful', 'spin'])
        spinful = kind in ('hubbard', 'number_spinful', 'spin')
        sym = rng.choice(SPINFUL if spinful else SPINLESS)
        p = {'t': float(rng.choice([1, -1, 2, 3, 0.5])), 'UV': rng.choice([8.0, 1.0, -2.0, (4.0, 2.0)]),
             'mu': rng.choice([0.0, 1.0, -3.0, (1.0, 2.0), (0.5, -4.0)]),
             'coordinations': rng.choice([(1, 1), (2, 1), (2, 2), (4, 2), (1, 4)])}
        out.append({'kind': kind, 'sym': sym, 'params': p})
    return out


def pair(x):
    return tuple(x) if isinstance(x, (tuple, list)) else (x, x)


def documented_terms(kind, p):
    """README / docstring formulas as operator polynomials over ranks
    (spinless: a=0, b=1; spinful: ad=0, au=1, bd=2, bu=3)."""
    n = lambda m: [(m, True), (m, False)]
    hop = lambda i, j: [[(i, True), (j, False)], [(j, True), (i, False)]]
    c0, c1 = p['coordinations']
    mua, mub = pair(p['mu'])
    if kind == 'hubbard_spinless':
        V = p['UV'] if not isinstance(p['UV'], tuple) else p['UV'][0]
        T = [(-p['t'], s) for s in hop(0, 1)]
        T += [(V, n(0) + n(1)), (-mua / c0, n(0)), (-mub / c1, n(1))]
        return T, 2, V
    if kind == 'hubbard':
        Ua, Ub = pair(p['UV'])
        T = [(-p['t'], s) for s in hop(1, 3) + hop(0, 2)]
        T += [(Ua / c0, n(1) + n(0)), (Ub / c1, n(3) + n(2))]
        T += [(-mua / c0, n(1)), (-mua / c0, n(0)), (-mub / c1, n(3)), (-mub / c1, n(2))]
        return T, 4, p['UV']
    if kind == 'number_spinless':
        return [(1, n(0))], 1, None
    if kind == 'number_spinful':
        return [(1, n(1)), (1, n(0))], 2, None
    if kind == 'spin':
        return [(0.5, n(1)), (-0.5, n(0))], 2, None
    raise ValueError(kind)


def call_builder(bc):
    import symmray as sr
    k, sym, p = bc['kind'], bc['sym'], bc['params']
    with warnings.catch_warnings():
        warnings.simplefilter('error')
        if k == 'hubbard_spinless':
            V = p['UV'] if not isinstance(p['UV'], tuple) else p['UV'][0]
            return sr.fermi_hubbard_spinless_local_array(sym, t=p['t'], V=V, mu=p['mu'], coordinations=p['coordinations'])
        if k == 'hubbard':
            return sr.fermi_hubbard_local_array(sym, t=p['t'], U=p['UV'], mu=p['mu'], coordinations=p['coordinations'])
        if k == 'number_spinless':
            return sr.fermi_number_operator_spinless_local_array(sym)
        if k == 'number_spinful':
            return sr.fermi_number_operator_spinful_local_array(sym)
        return sr.fermi_spin_operator_local_array(sym)


def builder_check(bc, rng):
    k, sym = bc['kind'], bc['sym']
    terms, M, _ = documented_terms(k, bc['params'])
    spinful = k in ('hubbard', 'number_spinful', 'spin')
    ns = 2 if k in ('hubbard', 'hubbard_spinless') else 1
    bases, species, M2 = site_setup(spinful, ns)
    assert M2 == M
    ims = [[charge_of(sym, st, species) for st in b] for b in bases]
    G = call_builder(bc)
    # charge maps of the library are parity-correct and are the documented ones
    from symmray.fermionic_local_operators import get_spinful_charge_indexmap, get_spinless_charge_indexmap
    im = (get_spinful_charge_indexmap if spinful else get_spinless_charge_indexmap)(sym)
    for c, st in zip(im, bases[0]):
        if parity_of(sym, c) != len(st) % 2:
            return {'check': 'charge map parity = number of operators mod 2', 'indexmap': list(im)}
    if list(im) != ims[0]:
        return {'check': 'charge map counts the particles (per species)', 'indexmap': list(im), 'expected': ims[0]}
    sig = site_sigma(bases, ns)
    H = fock_block(terms, bases, M).astype(float)
    Mx = arr_matrix(G, ims, ns)
    if not np.array_equal(Mx, sig[:, None] * H):
        bad = np.argwhere(Mx != sig[:, None] * H)[0]
        return {'check': 'builder array = documented Hamiltonian', 'row': int(bad[0]), 'col': int(bad[1]),
                'library': float(Mx[tuple(bad)]), 'expected': float((sig[:, None] * H)[tuple(bad)])}
    ac = {'nsites': ns, 'index_maps': ims, 'sym': sym, 'bases': bases, 'modes': M}
    A = apply_to_states(G, ac, rng, type(G))
    if not np.array_equal(A, A.T):
        return {'check': 'builder array is a Hermitian map'}
    ev = np.linalg.eigvalsh(A)
    ev0 = np.linalg.eigvalsh(JW.get(M).poly(terms).astype(float))
    if not np.allclose(ev, ev0, atol=1e-8):
        return {'check': 'builder spectrum', 'library': ev.tolist(), 'documented': ev0.tolist()}
    return None


# ---------------------------------------------------------------- translator tie: Gen/LocalOpsData.v vs what the builders pass on
GEN_NAMES = {'hubbard_spinless': 'fermi_hubbard_spinless', 'hubbard': 'fermi_hubbard', 'number_spinless': 'fermi_number_operator_spinless',
             'number_spinful': 'fermi_number_operator_spinful', 'spin': 'fermi_spin_operator'}
SYM_INDEX = {'Z2': 0, 'U1': 1, 'Z2Z2': 2, 'U1U1': 3}


def capture_builder(bc):
    """run the builder with build_local_fermionic_array replaced by a recorder"""
    import symmray.fermionic_local_operators as flo
    rec = {}
    orig = flo.build_local_fermionic_array

    def spy(terms, bases, symmetry, index_maps, like='numpy'):
        rec.update(terms=terms, bases=bases, symmetry=symmetry, index_maps=index_maps)
        return None
    flo.build_local_fermionic_array = spy
    try:
        call_builder(bc)
    finally:
        flo.build_local_fermionic_array = orig
    return rec


def gen_tie_exprs(bc):
    """boolean Gallina terms: generated data = captured arguments (coefficients as exact rationals)"""
    from fractions import Fraction
    rec = capture_builder(bc)
    labels = sorted({o.label for _, ops in rec['terms'] for o in ops} | {o.label for b in rec['bases'] for st in b for o in st})
    rk = {l: i for i, l in enumerate(labels)}
    p = bc['params']
    ua, ub = pair(p['UV'])
    mua, mub = pair(p['mu'])
    V = p['UV'] if not isinstance(p['UV'], tuple) else p['UV'][0]
    c0, c1 = p['coordinations']
    vals = [p['t'], V, ua, ub, mua, mub, c0, c1]
    if any(float(v) != int(v) for v in vals):
        return None
    args = ' '.join(gz(int(v)) for v in vals)
    g = GEN_NAMES[bc['kind']]
    qts = []
    for c, ops in rec['terms']:
        fr = Fraction(c)
        qts.append('(%s, %s, %s)' % (gz(fr.numerator), gz(fr.denominator), glist([gop((rk[o.label], o.dual)) for o in ops])))
    e_terms = 'list_eqb qterm_eqb (%s_terms %s) %s' % (g, args, glist(qts))
    e_bases = 'list_eqb (list_eqb (list_eqb op_eqb)) %s_bases %s' % (
        g, gbases([[[(rk[o.label], o.dual) for o in st] for st in b] for b in rec['bases']]))
    e_labels = 'list_eqb (list_eqb Z.eqb) %s_labels %s' % (g, glist([glist([gz(ord(ch)) for ch in l]) for l in labels]))
    im = rec['index_maps'][0]
    gim = glist([glist([gz(x) for x in (c if isinstance(c, tuple) else (c,))]) for c in im])
    e_map = ('match lookup Z.eqb %s %s_indexmap with Some m => list_eqb (list_eqb Z.eqb) m %s | None => false end'
             % (gz(SYM_INDEX[bc['sym']]), g, gim))
    same_maps = all(list(m) == list(im) for m in rec['index_maps']) and len(rec['index_maps']) == len(rec['bases'])
    return ['(%s) && (%s) && (%s) && (%s) && %s' % (e_terms, e_bases, e_labels, e_map, gbool(same_maps))]


# ====================================================================== driver
class Timeout(Exception):
    pass


def with_timeout(sec, f, *a):
    import signal

    def h(sig, frm):
        raise Timeout()
    old = signal.signal(signal.SIGALRM, h)
    signal.setitimer(signal.ITIMER_REAL, sec)
    try:
        return f(*a)
    finally:
        signal.setitimer(signal.ITIMER_REAL, 0)
        signal.signal(signal.SIGALRM, old)


def coq_exprs(case, got):
    terms_r, bases_r, M = ranked(case)
    T, B = gterms(terms_r), gbases(bases_r)
    fuel = gnat(fuel_for(terms_r, bases_r))
    items = glist([gpair(glist([gnat(i) for i in k]), gz(as_int(v))) for k, v in got.items()])
    strict = ('match elements %s %s %s with Some d => list_eqb (pair_eqb (list_eqb Nat.eqb) Z.eqb) d %s | None => false end'
              % (fuel, T, B, items))
    grid = grid_of(bases_r)
    dense = glist([gz(as_int(got.get(l + r, 0))) for l in grid for r in grid])
    dims = glist([gnat(len(b)) for b in bases_r])
    ref = ('list_eqb Z.eqb (map (fun lr => ref_element %s %s (fst lr) (snd lr)) (list_prod (cart %s) (cart %s))) %s'
           % (T, B, dims, dims, dense))
    return strict, ref


def run(ctx):
    from symmray.fermionic_local_operators import FermionicOperator, build_local_fermionic_elements
    rng = ctx.rng
    ok = common.standard_proof_phase(ctx)
    found = []        # concrete failing inputs (oracle)
    tie_broken = []

    # ---------------- 1. elements: implementation vs Coq model / Coq reference / numpy JW oracle
    ncases = 2500 if ctx.thorough else 500
    strict_e, ref_e, alg_e, cases = [], [], [], []
    stats = {'sites': {1: 0, 2: 0, 3: 0}, 'flavour': {}, 'label_kind': {}, 'nonzero_elements': 0, 'negative_elements': 0,
             'elements': 0, 'cases_with_cancelling_or_multi_term_entries': 0}
    corpus = []
    cdir = common.os.path.join(common.VERIF, 'corpus', 'C18')
    if common.os.path.isdir(cdir):
        for f in sorted(common.glob.glob(common.os.path.join(cdir, '*.json'))):
            corpus.append(json.load(open(f)))
    hard_failures = 0
    for i in range(ncases):
        if hard_failures >= 3:      # non-termination / crashes: three concrete inputs are enough
            break
        case = gen_special_case(rng) if i % 6 == 5 else gen_case(rng, ctx.thorough)
        T, B = to_impl(case, FermionicOperator, rng)
        payload = replay_payload(case)
        try:
            got = with_timeout(5, build_local_fermionic_elements, T, B)
            terms_r, bases_r, M = ranked(case)
            diff = check_elements_against_oracle(got, terms_r, bases_r, M)
        except Timeout:
            hard_failures += 1
            found.append({'oracle': 'elements_vs_jordan_wigner', 'detail': 'build_local_fermionic_elements does not terminate (5 s)', **payload})
            continue
        except Exception as e:   # noqa: BLE001 — a crashing builder is a finding with this input
            hard_failures += 1
            found.append({'oracle': 'elements_vs_jordan_wigner', 'detail': 'raises %s: %s' % (type(e).__name__, e), **payload})
            continue
        ctx.count()
        vals = [as_int(v) for v in got.values()]
        nz = sum(1 for v in vals if v != 0)
        stats['elements'] += len(grid_of(bases_r)) ** 2
        stats['nonzero_elements'] += nz
        stats['negative_elements'] += sum(1 for v in vals if v < 0)
        stats['sites'][len(bases_r)] += 1
        stats['flavour'][case['flavour']] = stats['flavour'].get(case['flavour'], 0) + 1
        stats['label_kind'][case['kind']] = stats['label_kind'].get(case['kind'], 0) + 1
        if nz and sum(1 for c, o in terms_r if c != 0) >= 2:
            stats['cases_with_cancelling_or_multi_term_entries'] += 1
        if nz >= 1 and any(len(o) >= 2 and c != 0 for c, o in terms_r):
            ctx.nontrivial(json.dumps(payload['terms_ranked']) + json.dumps(payload['bases_ranked']))
        if diff is not None:
            found.append({'oracle': 'elements_vs_jordan_wigner', 'first_difference': diff, **payload})
            # the Coq comparison would only repeat it (and non-integers cannot be serialised)
            continue
        s, r = coq_exprs(case, got)
        strict_e.append(s)
        ref_e.append(r)
        alg_e.append(alg_expr(case, got))
        cases.append(payload)
        if i < 3:
            ctx.sample({'terms': payload['terms'], 'bases': payload['bases'], 'entries': {str(k): v for k, v in got.items()}})
    bad_ref = common.run_cases(ctx, 'ref', IMPORTS, '', ref_e, shard=40)
    bad_strict = common.run_cases(ctx, 'model', IMPORTS, '', strict_e, shard=40)
    bad_alg = common.run_cases(ctx, 'alg', IMPORTS_ALG, '', alg_e, shard=40)
    ctx.count(len(ref_e) + len(strict_e) + len(alg_e))
    if bad_alg is None:
        tie_broken.append('cases.v (Gen/LocalAlgGen.v, the translated build_local_fermionic_elements, vs implementation) did not evaluate')
    elif bad_alg:
        tie_broken += ['Gen.LocalAlgGen.build_local_fermionic_elements_gen disagrees with build_local_fermionic_elements on case %d '
                       '(terms %s, bases %s)' % (i, json.dumps(cases[i]['terms']), json.dumps(cases[i]['bases'])) for i in bad_alg[:3]]
    if bad_ref is None:
        tie_broken.append('cases.v (Coq reference semantics vs implementation) did not evaluate')
    elif bad_ref:
        # the proved reference disagrees with the implementation although numpy JW agreed: report with input
        for i in bad_ref[:5]:
            found.append({'oracle': 'elements_vs_coq_reference(ref_element)', **cases[i]})
    if bad_strict is None:
        tie_broken.append('cases.v (Coq model of the algorithm vs implementation) did not evaluate')
    elif bad_strict:
        if bad_ref == [] and not found:
            # same values, different dict (order / explicit zeros): drift of the hand model, not of the property
            ctx.extra['model_drift'] = {'count': len(bad_strict), 'first': cases[bad_strict[0]],
                                        'meaning': 'entries dict differs from Model.LocalOps.elements in key order or stored zeros; '
                                                   'every element still equals the Coq reference and the Jordan-Wigner oracle'}
            ctx.note('model_drift: strict dict comparison differs on %d cases, observable values agree' % len(bad_strict))
        else:
            tie_broken += ['Model.LocalOps.elements disagrees with build_local_fermionic_elements on case %d' % i for i in bad_strict[:5]]

    # ---------------- 2. arrays: layout, action on state tensors, Hermiticity, spectrum, product
    narr = 240 if ctx.thorough else 60
    arr_stats = {}
    arr_hard = 0
    if hard_failures >= 3:
        narr = 0
        ctx.note('array-level checks skipped: the element builder crashed / did not terminate on three inputs')
    for j in range(narr):
        if arr_hard >= 2:
            break
        ac = gen_array_case(rng, documented=(j % 4 == 0))
        modes = list(range(ac['modes']))
        t1 = conserving_terms(rng, ac['sym'], modes, ac['species'], rng.randint(1, 3), hermitian=True)
        t2 = conserving_terms(rng, ac['sym'], modes, ac['species'], rng.randint(1, 2), hermitian=(rng.random() < 0.5))
        if not t1:
            continue
        small = len(grid_of(ac['bases'])) <= 16
        desc = {'oracle': 'array_level', 'symmetry': ac['sym'], 'spinful': ac['spinful'], 'sites': ac['nsites'],
                'bases_ranked': ac['bases'], 'index_maps': ac['index_maps'], 'terms1': t1, 'terms2': t2,
                'species': {str(k): v for k, v in ac['species'].items()}, 'full_map': small}
        try:
            res = with_timeout(30, array_level_check, ac, t1, t2, random_from(rng), small)
        except Timeout:
            arr_hard += 1
            res = {'check': 'timeout (30 s)'}
        except Exception as e:   # noqa: BLE001
            arr_hard += 1
            res = {'check': 'raises %s: %s' % (type(e).__name__, e)}
        ctx.count()
        key = '%s/%s/%d' % (ac['sym'], 'spinful' if ac['spinful'] else 'spinless', ac['nsites'])
        arr_stats[key] = arr_stats.get(key, 0) + 1
        ctx.nontrivial('arr' + json.dumps(desc, default=str))
        if res is not None:
            found.append({**desc, 'failed': res})
    nb = 90 if ctx.thorough else 24
    if hard_failures >= 3:
        nb = 0
    bhard = 0
    for bc in builder_cases(rng, nb):
        if bhard >= 2:
            break
        try:
            res = with_timeout(30, builder_check, bc, random_from(rng))
        except Timeout:
            bhard += 1
            res = {'check': 'timeout (30 s)'}
        except Exception as e:   # noqa: BLE001
            res = {'check': 'raises %s: %s' % (type(e).__name__, e)}
        ctx.count()
        ctx.nontrivial('builder' + json.dumps(bc, default=str))
        if res is not None:
            found.append({'oracle': 'builder_vs_documented_formula', **bc, 'failed': res})

    # ---------------- 3. translator tie: generated builder data vs the arguments the builders really pass
    gen_e, gen_meta = [], []
    for bc in builder_cases(rng, 40 if ctx.thorough else 16):
        bc['params']['t'] = float(int(bc['params']['t'])) if float(bc['params']['t']) == int(bc['params']['t']) else 2.0
        mu = bc['params']['mu']
        bc['params']['mu'] = tuple(float(int(x * 4)) for x in mu) if isinstance(mu, tuple) else float(int(mu))
        try:
            e = gen_tie_exprs(bc)
        except Exception as ex:   # noqa: BLE001
            tie_broken.append('capturing builder arguments failed: %s %s' % (type(ex).__name__, ex))
            continue
        if e:
            gen_e += e
            gen_meta.append(bc)
    bad_gen = common.run_cases(ctx, 'gen', IMPORTS_GEN, '', gen_e, shard=40)
    ctx.count(len(gen_e))
    if bad_gen is None:
        tie_broken.append('cases.v (Gen/LocalOpsData.v vs builder arguments) did not evaluate')
    elif bad_gen:
        tie_broken += ['Gen.LocalOpsData disagrees with the arguments passed by %r' % (gen_meta[i],) for i in bad_gen[:5]]

    # ---------------- report
    seen = set()
    nrep = 0
    for f in found:
        k = (f['oracle'], f.get('failed', {}).get('check') if isinstance(f.get('failed'), dict) else f.get('detail'))
        if nrep >= 5 or (k in seen and nrep >= 2):
            continue
        seen.add(k)
        nrep += 1
        what = {'elements_vs_jordan_wigner': 'an element differs from the vacuum expectation value of the operator string',
                'elements_vs_coq_reference(ref_element)': 'an element differs from the proved reference semantics',
                'array_level': 'operator array does not act as the second-quantised operator',
                'builder_vs_documented_formula': 'model builder differs from the documented Hamiltonian'}[f['oracle']]
        ctx.violation(what, f)
    ctx.broken += tie_broken
    if (not ok or tie_broken) and not found:
        ctx.violation('proof obligation or tie of C18 no longer checks', {'broken': ctx.broken}, found_input=False)
    ctx.coverage['rule'] = (
        'elements: random term lists (integer coefficients incl. 0, strings of length 0-6 over <=4 modes, repeated operators, '
        'operators given as FermionicOperator or (label, symbol)), labels int/negative int/str/tuple, 1-3 sites, bases = full / '
        'subset / junk (annihilators, repeated, cross-site) occupation states in random order with random operator order; every sixth '
        'case structured: no-double-occupancy / one-particle-sector bases, strings hitting one mode >= 3 times (n.n, hop-back-hop); every '
        'element of the index grid compared (absent key = 0). non-trivial = at least one non-zero element and a term of length>=2 '
        'with non-zero coefficient; distinct by (ranked terms, ranked bases). arrays: Z2/U1 spinless, Z2/U1/Z2Z2/U1U1 spinful, '
        '1-3 sites, complete bases (documented and shuffled), Hermitian conserving term sets; the five builders with exactly '
        'representable parameters')
    ctx.extra['tie'] = {'element_cases_vs_coq_reference': len(ref_e), 'element_cases_vs_coq_model_strict': len(strict_e),
                        'array_cases': narr, 'builder_cases': nb, 'generated_data_cases': len(gen_e),
                        'generated_algorithm_cases': len(alg_e)}
    ctx.extra['distribution'] = {'elements': stats, 'arrays': arr_stats}
    ctx.note('labels are replaced by their rank under Python\'s own ordering before they reach the Coq model (order isomorphism; '
             'the library uses labels only through > and dict-key equality)')
    ctx.note('array level (from_dense layout, tensordot action, Hermiticity, spectrum, product) is checked on the implementation '
             'against numpy Jordan-Wigner matrices; it is not covered by a Coq theorem (C18_product_statement is stated, not proved)')


def random_from(rng):
    import random
    return random.Random(rng.getrandbits(64))


def replay(path):
    r = json.load(open(path))
    print(json.dumps(r, indent=1, default=str)[:6000])
    orc = r.get('oracle')
    if orc in ('elements_vs_jordan_wigner', 'elements_vs_coq_reference(ref_element)'):
        terms = [(c, [(a, bool(d)) for a, d in ops]) for c, ops in r['terms_ranked']]
        bases = [[[(a, bool(d)) for a, d in st] for st in b] for b in r['bases_ranked']]
        try:
            got = with_timeout(10, impl_elements_ranked, terms, bases)
            diff = check_elements_against_oracle(got, terms, bases, r['modes'])
        except Timeout:
            diff = 'does not terminate'
        except Exception as e:   # noqa: BLE001
            diff = 'raises %r' % (e,)
        print('implementation vs Jordan-Wigner:', diff or 'agree on every element')
        return 1 if diff else 0
    if orc == 'array_level':
        import random
        ac = {'sym': r['symmetry'], 'spinful': r['spinful'], 'nsites': r['sites'],
              'bases': [[[(a, bool(d)) for a, d in st] for st in b] for b in r['bases_ranked']],
              'index_maps': [[tuple(c) if isinstance(c, list) else c for c in m] for m in r['index_maps']],
              'species': {int(k): v for k, v in r['species'].items()}}
        ac['modes'] = len(ac['species'])
        t1 = [(c, [(a, bool(d)) for a, d in ops]) for c, ops in r['terms1']]
        t2 = [(c, [(a, bool(d)) for a, d in ops]) for c, ops in r['terms2']]
        try:
            res = array_level_check(ac, t1, t2, random.Random(0), r.get('full_map', True))
        except Exception as e:   # noqa: BLE001
            res = 'raises %r' % (e,)
        print('array-level check:', res or 'passes')
        return 1 if res else 0
    if orc == 'builder_vs_documented_formula':
        import random
        bc = {'kind': r['kind'], 'sym': r['sym'], 'params': {k: (tuple(v) if isinstance(v, list) else v) for k, v in r['params'].items()}}
        try:
            res = builder_check(bc, random.Random(0))
        except Exception as e:   # noqa: BLE001
            res = 'raises %r' % (e,)
        print('builder check:', res or 'passes')
        return 1 if res else 0
    return 0
