"""Self-test of the translated helpers (Gen/Helpers.v) and of the generated
interface data (Gen/Interface.v) against the Python they came from, plus an
independent oracle on the implementation alone.

    tie(ctx)             -> list of broken-tie strings  (helpers + interface)
    failing_inputs(ctx)  -> list of dicts: concrete inputs on which the
                            implementation's helper / interface function differs
                            from an independent reference (not derived from the
                            code under test); call after tie(ctx) (cached).

Both are cheap (about 1500 vm_compute'd cases, a few seconds).  Intended use at
the end of `run` in harness/c05.py (parts=('helpers',)) and harness/c08.py
(parts=('interface',)):

    import tie_helpers
    tb = tie_helpers.tie(ctx, parts=('helpers',))
    for f in tie_helpers.failing_inputs(ctx, parts=('helpers',))[:3]:
        ctx.violation('%s differs from its specification' % f['op'], f)
    ctx.broken += tb        # and `found_input=False` violation if nothing concrete was found
"""
import ast
import os

import common
from common import gz, gbool, glist, gpair, gopt

IMPORTS = 'From SV Require Import Base.PyList Gen.Helpers.\n'
PREAMBLE = '''Definition oz_eqb (a b : option Z) : bool :=
  match a, b with Some x, Some y => Z.eqb x y | None, None => true | _, _ => false end.
Definition zl_eqb := list_eqb Z.eqb.
Definition d1_eqb := list_eqb (pair_eqb Z.eqb oz_eqb).
Definition d2_eqb := list_eqb (pair_eqb Z.eqb Z.eqb).
'''

ALLOW_DISPATCH = ('tensordot',)
ALLOW_TRY = ('abs', 'sqrt', 'log', 'log2', 'log10')
RECEIVER_LAST = ('einsum',)


def zlist(xs):
    return glist([gz(int(x)) for x in xs])


# ------------------------------------------------------------------ references
# written from the documentation of the helpers, not from their code
def ref_permuted(it, perm):
    n = len(it)
    return [it[p if p >= 0 else n + p] for p in perm]


def ref_without(it, remove):
    out = []
    for k in range(len(it)):
        if k not in remove:
            out.append(it[k])
    return out


def ref_replace_with_seq(it, index, seq):
    it = list(it)
    return it[0:index] + list(seq) + it[index + 1:len(it)]


def ref_accum(sizes):
    out, a = [], 0
    for d in sizes:
        out.append((a, a + d))
        a += d
    return out


def ref_cfgi(groups, duals):
    """specification of calc_fuse_group_info for well-formed groups (disjoint, non-empty, in range)"""
    nd = len(duals)
    where = {}
    for g, ga in enumerate(groups):
        for ax in ga:
            where[ax] = g
    pos = min(where)                         # first fused axis
    before = [ax for ax in range(nd) if ax not in where and ax < pos]
    after = [ax for ax in range(nd) if ax not in where and ax > pos]
    cells = [[ax] for ax in before] + [list(ga) for ga in groups] + [[ax] for ax in after]
    new_axes = {ax: k for k, cell in enumerate(cells) for ax in cell}
    return {
        'num_groups': len(groups),
        'group_singlets': [g for g, ga in enumerate(groups) if len(ga) == 1],
        'new_ndim': len(cells),
        'perm': [ax for cell in cells for ax in cell],
        'position': pos,
        'axes_before': before,
        'axes_after': after,
        'ax2group': {ax: where.get(ax) for ax in range(nd)},
        'group_duals': [bool(duals[ga[0]]) for ga in groups],
        'new_axes': new_axes,
    }


CFGI_NAMES = ('num_groups', 'group_singlets', 'new_ndim', 'perm', 'position', 'axes_before', 'axes_after',
              'ax2group', 'group_duals', 'new_axes')


def cfgi_names_from_source():
    """order of the returned tuple, read from the source (as tr/gen_helpers.py does)"""
    src = open(os.path.join(common.REPO, 'symmray', 'abelian_core.py')).read()
    for n in ast.parse(src).body:
        if isinstance(n, ast.FunctionDef) and n.name == 'calc_fuse_group_info':
            rets = [s for s in ast.walk(n) if isinstance(s, ast.Return)]
            if len(rets) == 1 and isinstance(rets[0].value, ast.Tuple) and \
                    all(isinstance(e, ast.Name) for e in rets[0].value.elts):
                return [e.id for e in rets[0].value.elts]
    return None


def rand_groups(rng, nd, overlap=False):
    axes = list(range(nd))
    rng.shuffle(axes)
    k = rng.randint(1, nd)
    chosen = axes[:k]
    groups, i = [], 0
    while i < len(chosen):
        ln = rng.randint(1, min(3, len(chosen) - i))
        groups.append(tuple(chosen[i:i + ln]))
        i += ln
    if overlap and len(groups) > 1:
        g = rng.randrange(len(groups))
        other = rng.choice([a for h, ga in enumerate(groups) if h != g for a in ga])
        groups[g] = groups[g] + (other,)
    rng.shuffle(groups)
    return tuple(groups)


def _cmp_component(name, got):
    """Gallina boolean comparing projection cfgi_<name> with the Python value"""
    if name in ('num_groups', 'new_ndim', 'position'):
        return 'Z.eqb', gz(int(got))
    if name in ('group_singlets', 'perm', 'axes_before', 'axes_after'):
        return 'zl_eqb', zlist(got)
    if name == 'group_duals':
        return 'list_eqb Bool.eqb', glist([gbool(bool(b)) for b in got])
    if name == 'ax2group':
        return 'd1_eqb', glist([gpair(gz(k), gopt(None if v is None else gz(v))) for k, v in got.items()])
    if name == 'new_axes':
        return 'd2_eqb', glist([gpair(gz(k), gz(v)) for k, v in got.items()])
    raise KeyError(name)


def _norm(name, v):
    if isinstance(v, dict):
        return dict(v)
    if isinstance(v, (list, tuple)):
        return list(v)
    return v


# ------------------------------------------------------------------ helpers tie
def _helpers(ctx):
    import symmray.abelian_core as ac
    rng = ctx.rng
    n = 260 if ctx.thorough else 110
    exprs, meta, failing = [], [], []

    def case(expr, what, inp):
        exprs.append(expr)
        meta.append((what, inp))

    def differs(op, inp, got, want):
        if got != want and len(failing) < 40:
            failing.append({'op': 'abelian_core.' + op, 'input': inp, 'implementation': repr(got), 'specification': repr(want),
                            'oracle': 'independent reference written from the docstring (harness/tie_helpers.py)'})

    for _ in range(n):
        ln = rng.randint(0, 6)
        it = [rng.randint(-9, 9) for _ in range(ln)]
        # permuted (negative positions count from the end, as Python does)
        perm = [rng.randint(-ln, ln - 1) if rng.random() < 0.2 else rng.randrange(ln) for _ in range(rng.randint(0, 6))] if ln else []
        got = list(ac.permuted(it, perm))
        case('zl_eqb (permuted 0 %s %s) %s' % (zlist(it), zlist(perm), zlist(got)), 'permuted', (it, perm))
        differs('permuted', {'it': it, 'perm': perm}, got, ref_permuted(it, perm))
        # without
        remove = [rng.randint(-1, ln + 1) for _ in range(rng.randint(0, 4))]
        got = list(ac.without(it, remove))
        case('zl_eqb (without %s %s) %s' % (zlist(it), zlist(remove), zlist(got)), 'without', (it, remove))
        differs('without', {'it': it, 'remove': remove}, got, ref_without(it, remove))
        # replace_with_seq (translation also on out-of-range / negative positions; reference only in range)
        idx = rng.randint(-ln - 1, ln + 1) if rng.random() < 0.3 else (rng.randrange(ln) if ln else 0)
        seq = [rng.randint(10, 19) for _ in range(rng.randint(0, 3))]
        got = list(ac.replace_with_seq(it, idx, seq))
        case('zl_eqb (replace_with_seq %s %s %s) %s' % (zlist(it), gz(idx), zlist(seq), zlist(got)), 'replace_with_seq', (it, idx, seq))
        if 0 <= idx < ln:
            differs('replace_with_seq', {'it': it, 'index': idx, 'seq': seq}, got, ref_replace_with_seq(it, idx, seq))
        # accum_for_split
        sizes = [rng.randint(0, 4) for _ in range(rng.randint(0, 6))]
        sl = ac.accum_for_split(sizes)
        got = [(s.start, s.stop) for s in sl]
        case('list_eqb (pair_eqb Z.eqb Z.eqb) (accum_for_split %s) %s' % (
            zlist(sizes), glist([gpair(gz(a), gz(b)) for a, b in got])), 'accum_for_split', (sizes,))
        differs('accum_for_split', {'sizes': sizes}, got, ref_accum(sizes))

    # calc_fuse_group_info
    names = cfgi_names_from_source()
    f = getattr(ac.calc_fuse_group_info, '__wrapped__', ac.calc_fuse_group_info)
    stats = {'wellformed': 0, 'overlapping': 0, 'position_not_in_first_group': 0, 'singlet': 0, 'kept_before_and_after': 0}
    broken = []
    if names is None or sorted(names) != sorted(CFGI_NAMES):
        broken.append('calc_fuse_group_info no longer returns one tuple of the ten known names')
        names = None
    for _ in range(n if names else 0):
        nd = rng.randint(1, 6)
        overlap = rng.random() < 0.15
        groups = rand_groups(rng, nd, overlap)
        duals = tuple(rng.random() < 0.5 for _ in range(nd))
        try:
            res = f(groups, duals)
        except Exception as e:   # the helper must not raise on well-formed input
            if not overlap:
                failing.append({'op': 'abelian_core.calc_fuse_group_info', 'input': {'axes_groups': groups, 'duals': duals},
                                'raised': '%s: %s' % (type(e).__name__, e)})
            continue
        res = {nm: _norm(nm, v) for nm, v in zip(names, res)}
        ag = glist([zlist(g) for g in groups])
        dl = glist([gbool(d) for d in duals])
        for nm in names:
            eq, lit = _cmp_component(nm, res[nm])
            case('%s (cfgi_%s %s %s) %s' % (eq, nm, ag, dl, lit), 'calc_fuse_group_info.' + nm, (groups, duals))
        wellformed = len({a for g in groups for a in g}) == sum(len(g) for g in groups)
        if wellformed:
            stats['wellformed'] += 1
            want = ref_cfgi(groups, duals)
            for nm in names:
                differs('calc_fuse_group_info[%s]' % nm, {'axes_groups': groups, 'duals': duals}, res[nm], want[nm])
            if min(groups[0]) != want['position']:
                stats['position_not_in_first_group'] += 1
            if want['group_singlets']:
                stats['singlet'] += 1
            if want['axes_before'] and want['axes_after']:
                stats['kept_before_and_after'] += 1
            ctx.nontrivial(('cfgi', groups, duals))
        else:
            stats['overlapping'] += 1
    ctx.count(len(exprs))
    bad = common.run_cases(ctx, 'tiehelpers', IMPORTS, PREAMBLE, exprs)
    if bad is None:
        broken.append('cases.v (Gen/Helpers.v vs abelian_core.py) did not evaluate')
    elif bad:
        broken += ['Gen.Helpers.%s disagrees with the Python function on %r' % meta[i] for i in bad[:10]]
    ctx.extra.setdefault('tie_helpers', {}).update({'generated_definition_cases': len(exprs), 'cfgi_case_classes': stats})
    return broken, failing


# ------------------------------------------------------------------ interface tie
class _Rec:
    """records the one method call made on it"""

    def __init__(self):
        self.calls = []

    def __getattr__(self, name):
        if name.startswith('__'):
            raise AttributeError(name)

        def m(*a, **k):
            self.calls.append((name, a, k))
            return ('result-of', name)
        return m


def _interface(ctx):
    import importlib
    import numpy as np
    import gen_interface as gi
    iface = importlib.import_module('symmray.interface')
    src = open(os.path.join(common.REPO, 'symmray', 'interface.py')).read()
    tree = ast.parse(src)
    broken, failing = [], []
    n = 0
    for fdef in tree.body:
        if not isinstance(fdef, ast.FunctionDef) or fdef.name.startswith('_'):
            continue
        name = fdef.name
        fn = getattr(iface, name, None)
        if fn is None:
            broken.append('interface.%s is defined in the source but not an attribute of the module' % name)
            continue
        a = fdef.args
        plain = [p.arg for p in a.args]
        body = gi.strip_doc(fdef.body)
        claim = None     # what the generator says: (method, receiver, args)
        if len(body) == 1 and not fdef.decorator_list:
            claim = gi.method_return(body[0])
            if claim is None:
                t = gi.try_forward(body[0])
                claim = t[:3] if t else None
        if name in ALLOW_DISPATCH:
            continue
        # ---- run the real function on a recording receiver and distinct sentinels
        recv_name = plain[-1] if name in RECEIVER_LAST else plain[0]
        rec = _Rec()
        vals, pos_sent = [], []
        for p in plain:
            if p == recv_name:
                vals.append(rec)
            else:
                s = ('arg', p)
                vals.append(s)
                pos_sent.append(s)
        star = [('star', 0), ('star', 1)] if a.vararg is not None else []
        kw = {'kw0': ('kw', 0)} if a.kwarg is not None else {}
        n += 1
        ctx.count()
        inp = {'function': 'symmray.interface.' + name, 'args': [repr(v) if v is not rec else '<array>' for v in vals] + [repr(s) for s in star],
               'kwargs': {k: repr(v) for k, v in kw.items()}}
        try:
            out = fn(*vals, *star, **kw)
        except Exception as e:
            failing.append({'op': 'interface.' + name, 'input': inp, 'raised': '%s: %s' % (type(e).__name__, e),
                            'oracle': 'a forwarder called with a recording array must call exactly array.%s(<its other arguments in order>)' % name})
            continue
        want = [(name, tuple(pos_sent) + tuple(star), kw)]
        if rec.calls != want or out != ('result-of', name):
            failing.append({'op': 'interface.' + name, 'input': inp, 'observed_calls': repr(rec.calls), 'expected_calls': repr(want),
                            'returned': repr(out),
                            'oracle': 'a forwarder called with a recording array must call exactly array.%s(<its other arguments in order>) and return its result' % name})
        # ---- the generator's claim must describe what just happened
        if claim is not None:
            cm, cr, cargs = claim
            exp_args = []
            for c in cargs:
                kind, _, rest = c.partition(' ')
                pname = rest.strip('"')
                if kind == 'APos':
                    exp_args.append(('arg', pname))
                elif kind == 'AStar':
                    exp_args += star
            claimed = [(cm, tuple(exp_args), kw if any(c.startswith('AKwargs') for c in cargs) else {})]
            if cr == recv_name and rec.calls != claimed:
                broken.append('Gen/Interface.v describes interface.%s as %r but calling it does %r' % (name, claim, rec.calls))
        if name in ALLOW_TRY:
            x = np.array([0.25, 4.0])
            try:
                got = fn(x)
                ok = np.array_equal(got, getattr(np, name)(x))
            except Exception:
                ok = False
            if not ok:
                failing.append({'op': 'interface.' + name, 'input': {'function': 'symmray.interface.' + name, 'args': ['numpy.array([0.25, 4.0])']},
                                'oracle': 'on a non-symmray array the function falls back to the backend function of the same name'})
    ctx.extra.setdefault('tie_helpers', {})['interface_functions_exercised'] = n
    return broken, failing


_CACHE = {}


def _run(ctx, parts):
    out_b, out_f = [], []
    for p in parts:
        if (id(ctx), p) not in _CACHE:
            try:
                _CACHE[(id(ctx), p)] = {'helpers': _helpers, 'interface': _interface}[p](ctx)
            except Exception as e:    # an import / attribute error in the mutated tree is a broken tie, not a crash
                _CACHE[(id(ctx), p)] = (['tie_helpers.%s could not run: %s: %s' % (p, type(e).__name__, e)], [])
        b, f = _CACHE[(id(ctx), p)]
        out_b += b
        out_f += f
    return out_b, out_f


def tie(ctx, parts=('helpers', 'interface')):
    return _run(ctx, parts)[0]


def failing_inputs(ctx, parts=('helpers', 'interface')):
    return _run(ctx, parts)[1]
