"""C10 — conjugation gives the bra: norms are positive and adjoint laws hold."""
import itertools
import json

import numpy as np

import common
import gen
import refsym
import replaylib as rl
from c09 import value_eq, describe

IMPORTS = ('From SV Require Import Base.Sym Base.Tensor Gen.PhasePerm Model.SymInst Model.Sectors Model.Array Model.Arith Model.Fermi.\n')
# the executable chain functions (chain_contract / conj_chain / chain_norm) of Props/C10d.v live in a Proofs file
IMPORTS_CHAIN = ('From SV Require Import Base.Sym Base.Tensor Gen.PhasePerm Model.SymInst Model.Sectors Model.Array Model.Arith Model.Fermi '
                 'Proofs.NetworkNormProofs.\n')
SYMS = ['Z2', 'U1', 'Z2Z2', 'U1U1']


def norm2_exact(x):
    return sum(float(np.sum(np.abs(np.asarray(b)) ** 2)) for b in x.blocks.values())


class TN:
    """tiny named-leg tensor network helper on top of symmray.tensordot"""

    def __init__(self, arr, legs):
        self.arr, self.legs = arr, list(legs)


def contract(sr, t1, t2, mode):
    shared = [l for l in t1.legs if l in t2.legs]
    ax1 = [t1.legs.index(l) for l in shared]
    ax2 = [t2.legs.index(l) for l in shared]
    c = sr.tensordot(t1.arr, t2.arr, axes=(ax1, ax2), mode=mode, preserve_array=True)
    legs = [l for l in t1.legs if l not in shared] + [l for l in t2.legs if l not in shared]
    return TN(c, legs)


def contract_route(sr, tensors, route, rng):
    ts = list(tensors)
    for (i, j) in route:
        a, b = ts[i], ts[j]
        c = contract(sr, a, b, rng.choice(['fused', 'blockwise']))
        ts = [t for k, t in enumerate(ts) if k not in (i, j)] + [c]
    assert len(ts) == 1
    return ts[0]


def random_route(rng, n):
    route = []
    while n > 1:
        i, j = rng.sample(range(n), 2)
        route.append((i, j))
        n -= 1
    return route


def scalar_of(t):
    x = t.arr
    if hasattr(x, 'blocks'):
        x = x.phase_sync()
        return complex(np.asarray(x.blocks[()]).item()) if () in x.blocks else 0j
    return complex(x)


def make_network(rng, sr, sym, ntens, cplx):
    """chain (2-3 tensors) or triangle (3), each tensor with 0-1 dangling legs"""
    shape = 'chain' if ntens == 2 or rng.random() < 0.6 else 'triangle'
    bonds = [(k, k + 1) for k in range(ntens - 1)]
    if shape == 'triangle':
        bonds.append((0, 2))
    legs = [[] for _ in range(ntens)]
    cms = [[] for _ in range(ntens)]
    dus = [[] for _ in range(ntens)]
    for bi, (i, j) in enumerate(bonds):
        cm = gen.rand_chargemap(rng, sym, maxcharges=2, maxsize=2)
        d = rng.random() < 0.5
        legs[i].append('b%d' % bi); cms[i].append(cm); dus[i].append(d)
        legs[j].append('b%d' % bi); cms[j].append(dict(cm)); dus[j].append(not d)
    for t in range(ntens):
        if rng.random() < 0.7:
            legs[t].append('d%d' % t); cms[t].append(gen.rand_chargemap(rng, sym, maxcharges=2, maxsize=2)); dus[t].append(rng.random() < 0.5)
    tens = []
    labels = rng.sample(range(1, 20), ntens)
    for t in range(ntens):
        order = list(range(len(legs[t]))); rng.shuffle(order)
        arr = gen.rand_array(rng, sr, sym, chargemaps=[cms[t][o] for o in order], duals=[dus[t][o] for o in order], cplx=cplx,
                             fermionic=True, oddpos=labels[t], lo=-2, hi=2, keep=rng.choice([1.0, 1.0, 0.7]))
        arr = gen.rand_lazy(rng, sr, arr, steps=rng.randint(0, 2))
        tens.append(TN(arr, [legs[t][o] for o in order]))
    return tens


def conj_network(tensors):
    out = []
    for t in tensors:
        c = t.arr.conj()
        # dangling legs that were bra-like (dual) in the ket network get a sign flip
        flip = [k for k, l in enumerate(t.legs) if l.startswith('d') and t.arr.indices[k].dual]
        if flip:
            c = c.phase_flip(*flip)
        out.append(TN(c, [l + '*' if l.startswith('b') else l for l in t.legs]))
    return out


def chain_steps(tens):
    """left-to-right steps (tensor, axes of the running result, axes of the tensor) of a network listed in chain order"""
    legs = list(tens[0].legs)
    steps = []
    for t in tens[1:]:
        shared = [l for l in legs if l in t.legs]
        steps.append((t.arr, [legs.index(l) for l in shared], [t.legs.index(l) for l in shared]))
        legs = [l for l in legs if l not in shared] + [l for l in t.legs if l not in shared]
    return steps


def chain_impl(sr, first, steps):
    """the implementation's left-to-right ket y_n, the conjugated network contracted in the reversed order c_n
    (transposed back to the leg order of y_n after every step) and <N|N> = tensordot(flip(c_n), y_n)"""
    y = first
    c = first.conj()
    for (t, aa, ab) in steps:
        nl, nr = c.ndim - len(aa), t.ndim - len(ab)
        y = sr.tensordot(y, t, axes=(aa, ab), mode='blockwise', preserve_array=True)
        c2 = sr.tensordot(t.conj(), c, axes=(ab, aa), mode='blockwise', preserve_array=True)
        c = c2.transpose(tuple(range(nr, nr + nl)) + tuple(range(nr)))
    flip = [k for k, ix in enumerate(c.indices) if not ix.dual]
    cf = c.phase_flip(*flip) if flip else c
    n = y.ndim
    z = sr.tensordot(cf, y, axes=(list(range(n)), list(range(n))), mode='blockwise', preserve_array=True)
    return y, c, z


def gsteps(steps, sym, ring):
    return '[' + '; '.join('(%s, %s, %s)' % (gen.gfarray(t, sym, ring), gen.gnatlist(aa), gen.gnatlist(ab)) for t, aa, ab in steps) + ']'


def run(ctx):
    import symmray as sr
    ok = common.standard_proof_phase(ctx)
    rng = ctx.rng
    n_cases = 600 if ctx.thorough else 120
    exprs, meta, found = [], [], []
    chain_exprs, chain_meta = [], []
    stats = {'odd': 0, 'mixed_dual': 0, 'pending': 0, 'complex': 0, 'networks': 0, 'net_with_bra_dangling': 0, 'multi_label': 0,
             'chain_cases': 0, 'chain_odd_result': 0}
    for k in range(n_cases):
        sym = SYMS[k % len(SYMS)]
        cplx = rng.random() < 0.4
        nd = rng.randint(1, 3)
        x = gen.rand_lazy(rng, sr, gen.rand_array(rng, sr, sym, ndim=nd, cplx=cplx, fermionic=True, oddpos=rng.randint(1, 9),
                                                  lo=-2, hi=2, maxsize=2), steps=rng.randint(0, 3))
        if k % 3 == 2 and x.ndim >= 1:
            # an array that has subsumed several odd tensors: >= 2 labels
            y0 = gen.rand_array(rng, sr, sym, ndim=1, fermionic=True, oddpos=rng.randint(11, 19), lo=-2, hi=2, maxsize=2)
            try:
                x2 = sr.tensordot(x, y0, axes=0, preserve_array=True)
                if len(x2.oddpos) >= 2:
                    x = x2
                    stats['multi_label'] += 1
                    if rng.random() < 0.6 and x.ndim <= 3:
                        # ... and a third one: an odd array holding THREE labels (or an even one holding two, ...)
                        y1 = gen.rand_array(rng, sr, sym, ndim=1, fermionic=True, oddpos=rng.randint(21, 29), lo=-2, hi=2, maxsize=2)
                        x3 = sr.tensordot(x, y1, axes=0, preserve_array=True)
                        if len(x3.oddpos) >= 3:
                            x = x3
                            stats['three_labels'] = stats.get('three_labels', 0) + 1
            except Exception:
                pass
        nd = x.ndim
        ring = gen.ring_of(x)
        A = '%s %s' % (sym, ring)
        n2 = norm2_exact(x)
        par = refsym.par(sym, x.charge)
        all_ket = all(not ix.dual for ix in x.indices)
        stats['odd'] += par; stats['pending'] += bool(x.phases); stats['complex'] += cplx
        stats['mixed_dual'] += (not all_ket and any(not ix.dual for ix in x.indices))
        xd = {'symmetry': sym, 'x': describe(x)}
        x_full = rl.describe_safe(x)     # complete description for the replay files, taken before any operation runs
        if par or x.phases:
            ctx.nontrivial((sym, str(sorted(x.blocks)), str([ix.dual for ix in x.indices]), par, str(sorted(x.phases)), len(x.oddpos)))
        # ---- norms: <x|x> in both operand orders
        for pd in (False, True):
            if not (pd or all_ket):
                continue
            for order in ('conj_first', 'conj_second'):
                ctx.count()
                try:
                    xc = x.conj(phase_dual=pd)
                    axes = (list(range(nd)), list(range(nd)))
                    v = sr.tensordot(xc, x, axes=axes) if order == 'conj_first' else sr.tensordot(x, xc, axes=axes)
                    if abs(complex(v) - n2) > 1e-9 * max(1.0, n2):
                        found.append({'op': 'norm via conj(phase_dual=%s), %s' % (pd, order), **xd, 'got': complex(v), 'expected_norm2': n2,
                                      'replay': rl.record('norm', {'x': x_full}, {'symmetry': sym, 'phase_dual': pd, 'order': order})})
                    # the adjoint route: dagger reverses the axes
                    xh = x.dagger(phase_dual=pd)
                    ax_r = (list(range(nd))[::-1], list(range(nd)))
                    v2 = sr.tensordot(xh, x, axes=ax_r) if order == 'conj_first' else sr.tensordot(x, xh, axes=(list(range(nd)), list(range(nd))[::-1]))
                    if abs(complex(v2) - n2) > 1e-9 * max(1.0, n2):
                        found.append({'op': 'norm via dagger(phase_dual=%s), %s' % (pd, order), **xd, 'got': complex(v2), 'expected_norm2': n2,
                                      'replay': rl.record('norm', {'x': x_full}, {'symmetry': sym, 'phase_dual': pd, 'order': order})})
                except Exception as e:
                    found.append({'op': 'norm', **xd, 'raised': '%s: %s' % (type(e).__name__, e), 'phase_dual': pd, 'order': order,
                                  'replay': rl.record('norm', {'x': x_full}, {'symmetry': sym, 'phase_dual': pd, 'order': order})})
        # ---- adjoint laws
        ctx.count()
        try:
            if not value_eq(x.conj().conj(), x):
                found.append({'op': 'conj(conj(x))', **xd, 'error': 'conjugating twice does not return the original',
                              'replay': rl.record('adjoint', {'x': x_full}, {'symmetry': sym})})
            if not value_eq(x.dagger().dagger(), x):
                found.append({'op': 'dagger(dagger(x))', **xd, 'error': 'taking the adjoint twice does not return the original',
                              'replay': rl.record('adjoint', {'x': x_full}, {'symmetry': sym})})
            if not value_eq(x.H.H, x):
                found.append({'op': 'x.H.H', **xd, 'error': '.H twice does not return the original',
                              'replay': rl.record('adjoint', {'x': x_full}, {'symmetry': sym})})
            for pd in (False, True):
                if not value_eq(x.dagger(phase_dual=pd), x.conj(phase_dual=pd).transpose()):
                    found.append({'op': 'dagger(phase_dual=%s) vs conj then reversal' % pd, **xd,
                                  'error': 'the adjoint is not the conjugate followed by the fermionic reversal of axes',
                                  'replay': rl.record('adjoint', {'x': x_full}, {'symmetry': sym})})
        except Exception as e:
            found.append({'op': 'adjoint laws', **xd, 'raised': '%s: %s' % (type(e).__name__, e),
                          'replay': rl.record('adjoint', {'x': x_full}, {'symmetry': sym})})
        # ---- model tie
        for pp, pd in ((True, False), (True, True), (False, False), (False, True)):
            r = x.conj(phase_permutation=pp, phase_dual=pd)
            exprs.append('farray_eqb %s (f_conj %s %s %s %s) %s' % (A, A, gen.gfarray(x, sym, ring), 'true' if pp else 'false',
                                                                      'true' if pd else 'false', gen.gfarray(r, sym, ring)))
            meta.append(('conj(pp=%s,pd=%s)' % (pp, pd), sym, k)); ctx.count()
        for pd in (False, True):
            r = x.dagger(phase_dual=pd)
            exprs.append('farray_eqb %s (f_dagger %s %s %s) %s' % (A, A, gen.gfarray(x, sym, ring), 'true' if pd else 'false', gen.gfarray(r, sym, ring)))
            meta.append(('dagger(pd=%s)' % pd, sym, k)); ctx.count()
        if k < 2:
            ctx.sample(xd)
        # ---- networks: <N|N> = |[[N]]|^2 along every route
        if k % 2 == 0:
            ntens = rng.choice([2, 2, 3])
            try:
                tens = make_network(rng, sr, sym, ntens, cplx)
            except Exception:
                continue
            stats['networks'] += 1
            if any(l.startswith('d') and t.arr.indices[i].dual for t in tens for i, l in enumerate(t.legs)):
                stats['net_with_bra_dangling'] += 1
            # for the replay files: the tensors before anything is contracted, and the generator state the
            # contraction routes and modes are drawn from
            net_full = [rl.describe_safe(t.arr) for t in tens]
            net_rng = rl.rng_state(rng)

            def rp_net():
                return rl.record('network', {'tensors': net_full}, {'symmetry': sym, 'legs': [t.legs for t in tens], 'rng': net_rng})
            # ---- the left-to-right chain of Props/C10d.v: model tie + norm oracle
            try:
                steps = chain_steps(tens)
                yk, ck, zk = chain_impl(sr, tens[0].arr, steps)
                cring = gen.ring_of(*([t.arr for t in tens] + [yk, ck, zk]))
                CA = '%s %s' % (sym, cring)
                g1, gl = gen.gfarray(tens[0].arr, sym, cring), gsteps(steps, sym, cring)
                for what, term, res in (('chain_contract', 'chain_contract %s %s %s' % (CA, g1, gl), yk),
                                        ('conj_chain', 'conj_chain %s (f_conj %s %s true false) %s' % (CA, CA, g1, gl), ck),
                                        ('chain_norm', 'chain_norm %s %s %s' % (CA, g1, gl), zk)):
                    chain_exprs.append('match %s with Some y => farray_eqb %s y %s | None => false end' % (term, CA, gen.gfarray(res, sym, cring)))
                    chain_meta.append((what, sym, k)); ctx.count()
                stats['chain_cases'] += 1
                stats['chain_odd_result'] += refsym.par(sym, yk.charge)
                ctx.count()
                want_c = norm2_exact(yk)
                got_c = scalar_of(TN(zk, []))
                if abs(got_c - want_c) > 1e-9 * max(1.0, want_c):
                    found.append({'op': 'chain norm <N|N> (left to right, bra in reversed order)', 'symmetry': sym,
                                  'tensors': [describe(t.arr) for t in tens], 'legs': [t.legs for t in tens], 'got': got_c, 'expected': want_c,
                                  'replay': rl.record('chain', {'tensors': net_full}, {'symmetry': sym, 'legs': [t.legs for t in tens]})})
            except Exception as e:
                found.append({'op': 'chain norm', 'symmetry': sym, 'tensors': [describe(t.arr) for t in tens], 'legs': [t.legs for t in tens],
                              'raised': '%s: %s' % (type(e).__name__, e),
                              'replay': rl.record('chain', {'tensors': net_full}, {'symmetry': sym, 'legs': [t.legs for t in tens]})})
            try:
                ket = contract_route(sr, tens, random_route(rng, ntens), rng)
                ket_arr = ket.arr.phase_sync()
                want = sum(float(np.sum(np.abs(np.asarray(b)) ** 2)) for b in ket_arr.blocks.values())
                bra = conj_network(tens)
                for rep in range(3):
                    ctx.count()
                    allt = bra + tens if rng.random() < 0.5 else tens + bra
                    rng.shuffle(allt)
                    # only contract pairs that share a leg (keeps every intermediate connected or outer)
                    got = scalar_of(contract_route(sr, allt, random_route(rng, len(allt)), rng))
                    if abs(got - want) > 1e-9 * max(1.0, want):
                        found.append({'op': 'network norm <N|N>', 'symmetry': sym, 'tensors': [describe(t.arr) for t in tens],
                                      'legs': [t.legs for t in tens], 'got': got, 'expected': want, 'replay': rp_net()})
                        break
                ctx.nontrivial(('net', sym, ntens, str([t.legs for t in tens]), str([t.arr.charge for t in tens])))
            except Exception as e:
                found.append({'op': 'network norm', 'symmetry': sym, 'tensors': [describe(t.arr) for t in tens], 'legs': [t.legs for t in tens],
                              'raised': '%s: %s' % (type(e).__name__, e), 'replay': rp_net()})
    bad_idx = common.run_cases(ctx, 'conj', IMPORTS, '', exprs, shard=80)
    tie_broken = []
    if bad_idx is None:
        tie_broken.append('cases.v (conj/dagger model vs implementation) did not evaluate')
    elif bad_idx:
        tie_broken += ['Model.%s disagrees with the implementation (symmetry %s, case %d)' % meta[i] for i in bad_idx[:10]]
        ctx.extra['disagreeing_cases'] = [exprs[i][:3000] for i in bad_idx[:2]]
    bad_chain = common.run_cases(ctx, 'chain', IMPORTS_CHAIN, '', chain_exprs, shard=60)
    if bad_chain is None:
        tie_broken.append('cases.v (chain_contract / conj_chain / chain_norm vs implementation) did not evaluate')
    elif bad_chain:
        tie_broken += ['NetworkNormProofs.%s disagrees with the implementation (symmetry %s, case %d)' % chain_meta[i] for i in bad_chain[:10]]
        ctx.extra['disagreeing_chain_cases'] = [chain_exprs[i][:3000] for i in bad_chain[:2]]
    seen = set()
    for f in found:
        if f['op'] in seen or len(seen) >= 5:
            continue
        seen.add(f['op'])
        ctx.violation('%s fails' % f['op'], {'oracle': 'integer |x|^2 / adjoint laws on the implementation', **f, 'run': rl.run_info(ctx)})
    ctx.broken += tie_broken
    if (not ok or tie_broken) and not found:
        ctx.violation('proof obligation or tie of C10 no longer checks',
                      {'broken': ctx.broken, 'replay': rl.record('proof_phase')}, found_input=False)
    ctx.extra['case_classes'] = stats
    ctx.extra['tie'] = {'model_cases': len(exprs), 'chain_cases': len(chain_exprs)}
    ctx.coverage['rule'] = ('random fermionic arrays (rank 1-3(+1), four symmetries, every dualness pattern, even/odd with labels incl. arrays carrying '
                            '>=2 labels, pending signs, real + Gaussian-integer) and 2-3 tensor networks (chains, triangles, dangling legs of both '
                            'directions) conjugated tensor by tensor and contracted along random routes in random modes, and as the left-to-right '
                            'chain with the bra in the reversed order (chain_contract / conj_chain / chain_norm of Props/C10d.v against the '
                            'blockwise implementation, plus the integer norm); non-trivial = odd parity or '
                            'pending signs, or a network; distinct by full structure')


# ------------------------------------------------------------------ replay
def _rp_norm(sr, ins, pr, r):
    """<x|x> through conj and through dagger, in both operand orders, against the integer |x|^2"""
    x = ins['x']
    nd = x.ndim
    n2 = norm2_exact(x)
    all_ket = all(not ix.dual for ix in x.indices)
    fails = []
    for pd in (False, True):
        if not (pd or all_ket):
            continue
        for order in ('conj_first', 'conj_second'):
            try:
                xc = x.conj(phase_dual=pd)
                axes = (list(range(nd)), list(range(nd)))
                v = sr.tensordot(xc, x, axes=axes) if order == 'conj_first' else sr.tensordot(x, xc, axes=axes)
                if abs(complex(v) - n2) > 1e-9 * max(1.0, n2):
                    fails.append({'what': '<x|x> via conj(phase_dual=%s), %s' % (pd, order), 'expected': n2, 'got': complex(v)})
                xh = x.dagger(phase_dual=pd)
                ax_r = (list(range(nd))[::-1], list(range(nd)))
                v2 = sr.tensordot(xh, x, axes=ax_r) if order == 'conj_first' else sr.tensordot(x, xh, axes=(list(range(nd)), list(range(nd))[::-1]))
                if abs(complex(v2) - n2) > 1e-9 * max(1.0, n2):
                    fails.append({'what': '<x|x> via dagger(phase_dual=%s), %s' % (pd, order), 'expected': n2, 'got': complex(v2)})
            except Exception as e:
                fails.append({'what': 'norm (phase_dual=%s, %s) raises' % (pd, order), 'expected': n2, 'got': '%s: %s' % (type(e).__name__, e)})
    return fails


def _rp_adjoint(sr, ins, pr, r):
    x = ins['x']
    fails = []
    try:
        if not value_eq(x.conj().conj(), x):
            fails.append({'what': 'conj(conj(x)) is not x', 'expected': describe(x), 'got': describe(x.conj().conj())})
        if not value_eq(x.dagger().dagger(), x):
            fails.append({'what': 'dagger(dagger(x)) is not x', 'expected': describe(x), 'got': describe(x.dagger().dagger())})
        if not value_eq(x.H.H, x):
            fails.append({'what': 'x.H.H is not x', 'expected': describe(x), 'got': describe(x.H.H)})
        for pd in (False, True):
            if not value_eq(x.dagger(phase_dual=pd), x.conj(phase_dual=pd).transpose()):
                fails.append({'what': 'dagger(phase_dual=%s) is not conj followed by the fermionic reversal of axes' % pd,
                              'expected': describe(x.conj(phase_dual=pd).transpose()), 'got': describe(x.dagger(phase_dual=pd))})
    except Exception as e:
        fails.append({'what': 'adjoint laws raise', 'expected': 'results', 'got': '%s: %s' % (type(e).__name__, e)})
    return fails


def _rp_network(sr, ins, pr, r):
    """<N|N> = |[[N]]|^2 along the recorded routes (drawn again from the recorded generator state)"""
    rng = rl.rng_from_state(pr['rng'])
    tens = [TN(a, legs) for a, legs in zip(ins['tensors'], pr['legs'])]
    ntens = len(tens)
    try:
        ket = contract_route(sr, tens, random_route(rng, ntens), rng)
        ket_arr = ket.arr.phase_sync()
        want = sum(float(np.sum(np.abs(np.asarray(b)) ** 2)) for b in ket_arr.blocks.values())
        bra = conj_network(tens)
        for rep in range(3):
            allt = bra + tens if rng.random() < 0.5 else tens + bra
            rng.shuffle(allt)
            got = scalar_of(contract_route(sr, allt, random_route(rng, len(allt)), rng))
            if abs(got - want) > 1e-9 * max(1.0, want):
                return [{'what': 'network norm <N|N> along route %d' % rep, 'expected': want, 'got': got}]
    except Exception as e:
        return [{'what': 'network norm raises', 'expected': 'a number', 'got': '%s: %s' % (type(e).__name__, e)}]
    return []


def _rp_chain(sr, ins, pr, r):
    """<N|N> of the left-to-right chain with the bra contracted in the reversed order against the integer |y_n|^2"""
    tens = [TN(a, legs) for a, legs in zip(ins['tensors'], pr['legs'])]
    try:
        yk, ck, zk = chain_impl(sr, tens[0].arr, chain_steps(tens))
        want = norm2_exact(yk)
        got = scalar_of(TN(zk, []))
        if abs(got - want) > 1e-9 * max(1.0, want):
            return [{'what': 'chain norm <N|N>', 'expected': want, 'got': got}]
    except Exception as e:
        return [{'what': 'chain norm raises', 'expected': 'a number', 'got': '%s: %s' % (type(e).__name__, e)}]
    return []


ORACLES = {'norm': _rp_norm, 'adjoint': _rp_adjoint, 'network': _rp_network, 'chain': _rp_chain}


def replay(path):
    """re-run the recorded failing case against $SYMMRAY_REPO: 1 = still fails, 0 = passes now"""
    import sys
    return rl.dispatch(path, 'C10', ORACLES, sys.modules[__name__])
