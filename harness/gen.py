"""Random symmray arrays with exact (small integer / Gaussian integer) data, an
independent densifier, and the serialiser of symmray states to Gallina
literals of Model/Array.v."""
import itertools

import numpy as np

import refsym

SMALL = {
    'Z2': [0, 1], 'Z4': [0, 1, 2, 3], 'U1': [-2, -1, 0, 1, 2],
    'Z2Z2': [(0, 0), (0, 1), (1, 0), (1, 1)],
    'U1U1': [(0, 0), (0, 1), (1, 0), (1, -1), (-1, 0), (1, 1)],
}
STATIC = {'Z2': 'Z2Array', 'U1': 'U1Array', 'Z2Z2': 'Z2Z2Array', 'U1U1': 'U1U1Array'}
STATIC_F = {'Z2': 'Z2FermionicArray', 'U1': 'U1FermionicArray', 'Z2Z2': 'Z2Z2FermionicArray',
            'U1U1': 'U1U1FermionicArray'}
DTYPES = {False: 'float64', True: 'complex128'}


# ------------------------------------------------------------------ generation
def rand_chargemap(rng, sym, maxcharges=3, maxsize=3):
    pool = SMALL[sym]
    k = rng.randint(1, min(maxcharges, len(pool)))
    cs = rng.sample(pool, k)
    return {c: rng.randint(1, maxsize) for c in cs}


def rand_data(rng, shape, cplx, lo=-3, hi=3):
    n = int(np.prod(shape)) if len(shape) else 1
    re = np.array([rng.randint(lo, hi) for _ in range(n)], dtype='float64').reshape(shape)
    if not cplx:
        return re
    im = np.array([rng.randint(lo, hi) for _ in range(n)], dtype='float64').reshape(shape)
    return re + 1j * im


def pick_charge(rng, sym, chargemaps, duals):
    """a total charge for which at least one sector is valid (when possible)"""
    if not chargemaps:
        return refsym.zero(sym) if rng.random() < 0.8 else rng.choice(SMALL[sym])
    if rng.random() < 0.85:
        s = [rng.choice(sorted(cm)) for cm in chargemaps]
        return refsym.csum(sym, [refsym.signed(sym, c, d) for c, d in zip(s, duals)])
    return rng.choice(SMALL[sym])


def rand_array(rng, sr, sym, ndim=None, chargemaps=None, duals=None, charge=None, cplx=False,
               keep=None, fermionic=False, static=None, oddpos=None, maxcharges=3, maxsize=3, lo=-3, hi=3, keep_label=False):
    """Build an Abelian/Fermionic array with integer data; a random subset of
    the valid sectors is stored (keep = probability, None = random regime)."""
    if ndim is None:
        ndim = len(chargemaps) if chargemaps is not None else rng.randint(0, 4)
    if chargemaps is None:
        chargemaps = [rand_chargemap(rng, sym, maxcharges, maxsize) for _ in range(ndim)]
    if duals is None:
        duals = [rng.random() < 0.5 for _ in range(ndim)]
    if charge is None:
        charge = pick_charge(rng, sym, chargemaps, duals)
    secs = refsym.valid_sectors(sym, [sorted(cm) for cm in chargemaps], duals, charge)
    if keep is None:
        keep = rng.choice([1.0, 1.0, 1.0, 0.8, 0.8, 0.6, 0.6, 0.4, 0.2, 0.0])
    if isinstance(keep, tuple):          # ('drop', n): all valid sectors but n random ones
        drop = set(rng.sample(range(len(secs)), min(keep[1], max(0, len(secs) - 1)))) if secs else set()
        kept = [s for i, s in enumerate(secs) if i not in drop]
    else:
        kept = [s for s in secs if rng.random() < keep]
        if not kept and secs and keep > 0:
            kept = [rng.choice(secs)]      # an entirely empty array only when asked for (keep = 0)
    rng.shuffle(kept)
    blocks = {}
    for s in kept:
        shape = tuple(cm[c] for cm, c in zip(chargemaps, s))
        blk = rand_data(rng, shape, cplx, lo, hi)
        if rng.random() < 0.05:
            blk = blk * 0
        blocks[tuple(s)] = blk
    ixs = [sr.BlockIndex(dict(cm), dual=d) for cm, d in zip(chargemaps, duals)]
    if static is None:
        static = rng.random() < 0.5 and sym in STATIC
    if fermionic:
        cls = getattr(sr, STATIC_F[sym]) if static else sr.FermionicArray
        par = refsym.par(sym, charge)
        if oddpos is None and par:
            oddpos = rng.randint(1, 50)
        kw = dict(indices=ixs, charge=charge, blocks=blocks, oddpos=oddpos if (par or isinstance(oddpos, list) or keep_label) else None)   # keep_label: an even array GIVEN a label (the library drops it)
    else:
        cls = getattr(sr, STATIC[sym]) if static else sr.AbelianArray
        kw = dict(indices=ixs, charge=charge, blocks=blocks)
    if not static:
        kw['symmetry'] = sym
    return cls(**kw)


# ------------------------------------------------------------------ independent densifier
def index_layout(ix):
    """charge -> (offset, size) in sorted-charge order"""
    off, out = 0, {}
    for c in sorted(ix.chargemap):
        out[c] = (off, ix.chargemap[c])
        off += ix.chargemap[c]
    return out, off


def densify(x, indices=None, phases=True):
    """Own dense embedding (does not call library to_dense).  `indices` may be
    a list of index tables larger than x's own (to embed pruned results)."""
    ixs = list(indices if indices is not None else x.indices)
    lay = [index_layout(ix) for ix in ixs]
    dt = 'complex128'
    out = np.zeros([t for _, t in lay], dtype=dt)
    ph = getattr(x, 'phases', {}) if phases else {}
    for s, blk in x.blocks.items():
        sl = []
        for (l, _), c in zip(lay, s):
            if c not in l:
                raise KeyError('sector %r uses charge %r absent from the embedding table' % (s, c))
            o, d = l[c]
            sl.append(slice(o, o + d))
        b = np.asarray(blk)
        tgt = out[tuple(sl)]
        if tgt.shape != b.shape:
            raise ValueError('block %r has shape %r, table says %r' % (s, b.shape, tgt.shape))
        out[tuple(sl)] = (-b if ph.get(s, 1) == -1 else b)
    return out


# ------------------------------------------------------------------ serialisation
def gnum(v):
    v = int(v)
    return str(v) if v >= 0 else '(%d)' % v


def gch(c):
    if isinstance(c, tuple):
        return '(%s, %s)' % (gnum(c[0]), gnum(c[1]))
    return gnum(c)


def gsec(s):
    return '[' + '; '.join(gch(c) for c in s) + ']'


def gnatlist(l):
    return '[' + '; '.join('%d%%nat' % int(v) for v in l) + ']'


def exact_int(v):
    r = int(round(float(v)))
    if abs(float(v) - r) > 1e-9:
        raise ValueError('non-integer datum %r' % (v,))
    return r


def gtensor(arr, ring):
    a = np.asarray(arr)
    flat = a.reshape(-1) if a.shape else a.reshape(1)
    if ring == 'GRing':
        data = ['(%s, %s)' % (gnum(exact_int(np.real(v))), gnum(exact_int(np.imag(v)))) for v in flat]
    else:
        if np.iscomplexobj(a) and np.any(np.imag(a) != 0):
            raise ValueError('complex data for ZRing')
        data = [gnum(exact_int(np.real(v))) for v in flat]
    return '(@mkT %s %s [%s])' % (ring, gnatlist(a.shape), '; '.join(data))


def gindex(ix, sym):
    cm = '[' + '; '.join('(%s, %d%%nat)' % (gch(c), d) for c, d in ix.chargemap.items()) + ']'
    if ix.subinfo is None:
        sub = 'None'
    else:
        subs = '[' + '; '.join(gindex(s, sym) for s in ix.subinfo.indices) + ']'
        ext = '[' + '; '.join(
            '(%s, [%s])' % (gch(c), '; '.join('(%s, %d%%nat)' % (gsec(ss), d) for ss, d in e.items()))
            for c, e in ix.subinfo.extents.items()) + ']'
        sub = '(Some (%s, %s))' % (subs, ext)
    return '(Index %s %s %s %s)' % (sym, cm, 'true' if ix.dual else 'false', sub)


def garray(x, sym, ring):
    ixs = '[' + '; '.join(gindex(ix, sym) for ix in x.indices) + ']'
    blks = '[' + '; '.join('(%s, %s)' % (gsec(s), gtensor(b, ring)) for s, b in x.blocks.items()) + ']'
    return '(mkA %s %s %s %s %s)' % (sym, ring, ixs, gch(x.charge), blks)


def gaxes(l):
    return gnatlist(l)


def ring_of(*arrays):
    for x in arrays:
        for b in getattr(x, 'blocks', {}).values():
            if np.iscomplexobj(b):
                return 'GRing'
    return 'ZRing'


# ------------------------------------------------------------------ fermionic
def glabel(lab):
    if isinstance(lab, bool):
        raise ValueError('bool label')
    if isinstance(lab, int):
        vals = [lab]
    elif isinstance(lab, str):
        vals = [ord(ch) for ch in lab]
    elif isinstance(lab, tuple):
        vals = list(lab)
    else:
        raise ValueError('label type %r' % type(lab))
    return '[' + '; '.join(gnum(v) for v in vals) + ']'


def goddpos(ops):
    return '[' + '; '.join('(%s, %s)' % (glabel(o.label), 'true' if o.dual else 'false') for o in ops) + ']'


def gfarray(x, sym, ring):
    minus = [s for s, p in x.phases.items() if p == -1]
    return '(mkF %s %s %s %s %s)' % (sym, ring, garray(x, sym, ring), '[' + '; '.join(gsec(s) for s in minus) + ']',
                                     goddpos(x.oddpos))


def rand_lazy(rng, sr, x, steps=None):
    """pending signs reachable by transpose / phase_flip / phase_transpose / phase_global / conj;
    the array's VALUE changes along the way, which is fine: the result is the test input"""
    n = x.ndim
    if steps is None:
        steps = rng.randint(0, 3)
    for _ in range(steps):
        op = rng.choice(['flip', 'ptrans', 'global', 'trans_back', 'sector'])
        if op == 'flip' and n:
            x = x.phase_flip(*rng.sample(range(n), rng.randint(1, n)))
        elif op == 'ptrans' and n:
            p = list(range(n)); rng.shuffle(p)
            x = x.phase_transpose(tuple(p))
        elif op == 'global':
            x = x.phase_global()
        elif op == 'trans_back' and n:
            p = list(range(n)); rng.shuffle(p)
            inv = [p.index(i) for i in range(n)]
            x = x.transpose(tuple(p)).transpose(tuple(inv))
        elif op == 'sector' and x.blocks:
            x = x.phase_sector(rng.choice(list(x.blocks)))
    return x


def inv_parity(parities, perm):
    """odd-odd inversion parity of a permutation (new position k holds old axis perm[k])"""
    n = 0
    for i in range(len(perm)):
        for j in range(i + 1, len(perm)):
            if perm[i] > perm[j] and parities[perm[i]] and parities[perm[j]]:
                n += 1
    return n % 2


def label_key(op):
    """own statement of the odd-position order: conjugated (dual) operators first, in
    descending label order, then plain ones ascending"""
    lab = op.label
    return (0, _neg_key(lab)) if op.dual else (1, _pos_key(lab))


class _Rev:
    def __init__(self, v):
        self.v = v

    def __lt__(self, o):
        return o.v < self.v

    def __eq__(self, o):
        return self.v == o.v


def _pos_key(lab):
    return lab


def _neg_key(lab):
    return _Rev(lab)


def merge_sign(lops, rops, left_parity):
    """sign and sorted label list for concatenating two sorted, conjugate-free,
    mutually distinct label lists (own inversion count, not the library's sort)"""
    ops = list(lops) + list(rops)
    sign = 1 if (left_parity and len(rops) % 2 == 1) else 0
    keys = [label_key(o) for o in ops]
    inv = 0
    for i in range(len(ops)):
        for j in range(i + 1, len(ops)):
            if keys[j] < keys[i]:
                inv += 1
    order = sorted(range(len(ops)), key=lambda i: keys[i])
    return (sign + inv) % 2, [ops[i] for i in order]
