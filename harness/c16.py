"""C16 — all ways of building an array agree, and dense conversion round-trips.

Oracles (implementation only, own arithmetic from refsym / numpy, never the
library's helpers): (1) the four construction routes against an independently
computed expectation; (2) dense -> blocks -> dense against an own numpy
projection (group positions by label, stable sort by charge, zero out the
non-conserving sectors); (3) to_dense against gen.densify; (4) blocks -> dense
-> blocks with the matching labels.  Correspondence: Model/Ctor.v
(init_array, from_fill_fn, from_blocks, from_dense, to_dense, f_to_dense) is
evaluated on the same inputs inside Coq and compared exactly."""
import itertools
import json
import re
import warnings

import numpy as np

import common
import gen
import refsym

IMPORTS = ('From SV Require Import Base.Sym Base.Tensor Model.SymInst Model.Sectors Model.Array Model.Arith '
           'Model.Wf Model.Fermi Model.Ctor.\n')
# run-time tie of the TRANSLATED constructor algorithms (Gen/CtorAlgGen.v, tr/gen_ctor2.py): own shard and imports,
# so that the correspondence of the hand model above survives when the generated file is missing
GEN_IMPORTS = IMPORTS + 'From SV Require Import Gen.SectorsGen Gen.CtorAlgGen.\n'
GEN_PREAMBLE = '''
Definition gstrict (G : Symmetry) (R : Ring) (x y : aarray G R) : bool :=
  list_eqb (index_eqb G) (indices G R x) (indices G R y) && ceqb G (charge G R x) (charge G R y)
  && blocks_eqb_strict G R (blocks G R x) (blocks G R y).
Definition gok_arr (G : Symmetry) (R : Ring) (r : cres (aarray G R)) (y : aarray G R) : bool :=
  match r with COk x => gstrict G R x y | _ => false end.
Definition gok_t (R : Ring) (r : cres (tensor R)) (t : tensor R) : bool :=
  match r with COk x => tensor_eqb R x t | _ => false end.
Definition graises {A} (r : cres A) : bool := match r with CRaise => true | _ => false end.
'''
GEN_FUEL = 8
SYMS = ['Z2', 'U1', 'Z2Z2', 'U1U1', 'Z4']
NONSELF = ('U1', 'U1U1', 'Z4')     # negation matters


# ------------------------------------------------------------------ helpers
def fill(shape):
    shape = tuple(int(d) for d in shape)
    n = int(np.prod(shape)) if shape else 1
    return np.arange(n, dtype='float64').reshape(shape) + len(shape) + 1


def class_configs(sr):
    """(class, symmetry, static?, fermionic?) for the 8 static and the 2 generic classes x symmetries"""
    out = []
    for s in ('Z2', 'U1', 'Z2Z2', 'U1U1'):
        out.append((getattr(sr, gen.STATIC[s]), s, True, False))
        out.append((getattr(sr, gen.STATIC_F[s]), s, True, True))
    for s in SYMS:
        out.append((sr.AbelianArray, s, False, False))
        out.append((sr.FermionicArray, s, False, True))
    return out


def tables_of(x):
    return [([(c, int(d)) for c, d in ix.chargemap.items()], bool(ix.dual)) for ix in x.indices]


def describe(x):
    d = {'class': type(x).__name__, 'charge': x.charge, 'indices': tables_of(x),
         'blocks': {str(k): np.asarray(v).tolist() for k, v in x.blocks.items()}}
    if hasattr(x, 'phases'):
        d['phases'] = {str(k): v for k, v in x.phases.items()}
        d['oddpos'] = [(o.label, o.dual) for o in x.oddpos]
    return d


def jsonable(o):
    if isinstance(o, np.ndarray):
        return o.tolist()
    if isinstance(o, (np.floating, np.integer)):
        return o.item()
    if isinstance(o, complex):
        return [o.real, o.imag]
    if isinstance(o, dict):
        return {str(k): jsonable(v) for k, v in o.items()}
    if isinstance(o, (list, tuple)):
        return [jsonable(v) for v in o]
    return o


def layout(cm):
    """sorted charge -> (offset, size)"""
    off, out = 0, {}
    for c in sorted(cm):
        out[c] = (off, cm[c])
        off += cm[c]
    return out, off


def own_dense(chargemaps, blocks, dtype='float64'):
    lay = [layout(cm) for cm in chargemaps]
    out = np.zeros([t for _, t in lay], dtype=dtype)
    for s, b in blocks.items():
        sl = tuple(slice(l[c][0], l[c][0] + l[c][1]) for (l, _), c in zip(lay, s))
        out[sl] = b
    return out


def own_labels(chargemaps):
    return [[c for c in sorted(cm) for _ in range(cm[c])] for cm in chargemaps]


def own_projection(d, maps, duals, sym, q):
    """projection of d onto the charge-conserving sectors, every axis reordered by a stable sort on its label"""
    d = np.asarray(d)
    mask = np.zeros(d.shape, dtype=bool)
    for pos in itertools.product(*[range(n) for n in d.shape]):
        sec = [m[i] for m, i in zip(maps, pos)]
        mask[pos] = refsym.csum(sym, [refsym.signed(sym, c, du) for c, du in zip(sec, duals)]) == q
    proj = np.where(mask, d, 0)
    orders = [sorted(range(len(m)), key=lambda i: m[i]) for m in maps]     # Python's sort is stable
    if d.ndim:
        proj = proj[np.ix_(*orders)]
    return proj, orders


def expected_tables(maps, duals):
    out = []
    for m, du in zip(maps, duals):
        cnt = {}
        for c in m:
            cnt[c] = cnt.get(c, 0) + 1
        out.append((sorted(cnt.items()), bool(du)))
    return out


def same_blocks(got, want, absent_is_zero=False):
    """exact comparison of two sector->array dicts"""
    keys = set(got) | set(want)
    for k in keys:
        a, b = got.get(k), want.get(k)
        if a is None or b is None:
            if not absent_is_zero:
                return 'sector %r stored on one side only' % (k,)
            z = a if a is not None else b
            if np.any(np.asarray(z) != 0):
                return 'sector %r: absent on one side, non-zero on the other' % (k,)
            continue
        a, b = np.asarray(a), np.asarray(b)
        if a.shape != b.shape or not np.array_equal(a, b):
            return 'sector %r: blocks differ' % (k,)
    return None


def gmaps(maps):
    return '[' + '; '.join(gen.gsec(m) for m in maps) + ']'


def gbools(bs):
    return '[' + '; '.join('true' if b else 'false' for b in bs) + ']'


def gopt_charge(q):
    return 'None' if q is None else '(Some %s)' % gen.gch(q)


def gblocks(blocks, ring):
    return '[' + '; '.join('(%s, %s)' % (gen.gsec(s), gen.gtensor(b, ring)) for s, b in blocks.items()) + ']'


def gixs(ixs, sym):
    return '[' + '; '.join(gen.gindex(ix, sym) for ix in ixs) + ']'


def ring_of_arrays(*arrs):
    for a in arrs:
        if np.iscomplexobj(np.asarray(a)) and np.any(np.imag(np.asarray(a)) != 0):
            return 'GRing'
    return 'ZRing'


def rand_labels(rng, sym, n, kmax=3):
    pool = rng.sample(gen.SMALL[sym], min(len(gen.SMALL[sym]), rng.randint(1, kmax)))
    return [rng.choice(pool) for _ in range(n)]


def call(f):
    try:
        with warnings.catch_warnings():
            warnings.simplefilter('ignore')
            return f(), None
    except Exception as e:          # noqa: BLE001
        return None, '%s: %s' % (type(e).__name__, str(e)[:160])


# ------------------------------------------------------------------ the run
def run(ctx):
    import symmray as sr
    import symmray.utils as sru
    ok = common.standard_proof_phase(ctx)
    rng = ctx.rng
    found = []           # concrete failing inputs
    exprs, meta = [], []
    gexprs, gmeta = [], []        # the GENERATED functions (Gen/CtorAlgGen.v) against the implementation
    drift = []
    stats = {'routes': 0, 'routes_raise_expected': 0, 'projection': 0, 'to_dense': 0, 'round_trip': 0,
             'fermionic_signs': 0, 'odd_requires_oddpos': 0, 'inferred_charge': 0, 'model_cases': 0}
    dist = {}
    configs = class_configs(sr)
    reps = 8 if ctx.thorough else 2

    def add_case(kind, expr, info):
        exprs.append(expr)
        meta.append((kind, info))
        stats['model_cases'] += 1
        ctx.count()

    def add_gen(kind, expr, info):
        if len(gexprs) < (6000 if ctx.thorough else 1800):
            gexprs.append(expr)
            gmeta.append((kind, info))
            ctx.count()

    def bad(what, **kw):
        if len(found) < 40:
            found.append({'what': what, **jsonable(kw)})

    # ============================================================ 1. the four routes
    for cls, sym, static, ferm in configs:
        for omit in itertools.chain.from_iterable(itertools.combinations(('charge', 'symmetry', 'oddpos'), r) for r in range(4)):
            if 'oddpos' in omit and not ferm:
                continue
            for rep in range(reps):
                nd = rng.randint(0, 3)
                cms = [gen.rand_chargemap(rng, sym, 3, 2) for _ in range(nd)]
                duals = [rng.random() < 0.5 for _ in range(nd)]
                zero = refsym.zero(sym)
                if 'charge' in omit:
                    q = zero
                else:
                    q = gen.pick_charge(rng, sym, cms, duals)
                    if q == zero and rng.random() < 0.6:
                        # prefer a non-zero total charge reachable by some sector
                        for _ in range(6):
                            q2 = gen.pick_charge(rng, sym, cms, duals)
                            if q2 != zero:
                                q = q2
                                break
                secs = refsym.valid_sectors(sym, [sorted(cm) for cm in cms], duals, q)
                par = refsym.par(sym, q)
                want_blocks = {tuple(s): fill(tuple(cm[c] for cm, c in zip(cms, s))) for s in secs}
                ixs = [sr.BlockIndex(dict(cm), dual=d) for cm, d in zip(cms, duals)]
                want_tab = [(sorted(cm.items()), d) for cm, d in zip(cms, duals)]
                kw = {}
                if 'symmetry' not in omit:
                    kw['symmetry'] = rng.choice([sym, sr.get_symmetry(sym)])
                fkw = dict(kw)
                label = rng.randint(1, 40)
                if ferm and 'oddpos' not in omit:
                    fkw['oddpos'] = label
                must_raise = (not static and 'symmetry' in omit) or (ferm and par and 'oddpos' in omit)
                qarg = {} if 'charge' in omit else {'charge': q}
                dense = own_dense(cms, want_blocks)
                labels = own_labels(cms)
                key = (cls.__name__, sym, omit)
                dist[key] = dist.get(key, 0) + 1
                ctxd = {'class': cls.__name__, 'symmetry': sym, 'omitted': list(omit), 'chargemaps': [sorted(cm.items()) for cm in cms],
                        'duals': duals, 'charge': q, 'kwargs': {k: str(v) for k, v in fkw.items()}}
                # expectation of the direct route when the charge is omitted: inferred from the first sector, SIGNED by the
                # index directions (fix 28a1fb2) -- own arithmetic
                first = next(iter(want_blocks), None)
                q_direct = q if 'charge' not in omit else (refsym.csum(sym, [refsym.signed(sym, c, du) for c, du in zip(first, duals)]) if first is not None else zero)
                routes = [
                    ('direct', lambda: cls(indices=ixs, blocks=want_blocks, **qarg, **fkw), q_direct, want_tab, want_blocks),
                    ('from_fill_fn', lambda: cls.from_fill_fn(fill, ixs, **qarg, **fkw), q, want_tab, want_blocks),
                ]
                if want_blocks:
                    pr_tab = []
                    for i, (cm, d) in enumerate(zip(cms, duals)):
                        present = {s[i] for s in want_blocks}
                        pr_tab.append((sorted((c, n) for c, n in cm.items() if c in present), d))
                    routes.append(('from_blocks', lambda: cls.from_blocks(want_blocks, duals, **qarg, **fkw), q, pr_tab, want_blocks))
                routes.append(('from_dense', lambda: cls.from_dense(dense, labels, duals, **qarg, **fkw), q, want_tab, want_blocks))
                routes.append(('from_dense(dict maps)', lambda: cls.from_dense(dense, [dict(enumerate(m)) for m in labels], tuple(duals),
                                                                                 invalid_sectors='raise', **qarg, **fkw), q, want_tab, want_blocks))
                if static and 'symmetry' in omit and (not ferm or 'oddpos' in omit):
                    routes.append(('utils.from_dense', lambda: sru.from_dense(dense, sym, labels, duals=duals, fermionic=ferm, **qarg),
                                   q, want_tab, want_blocks))
                if static and 'symmetry' not in omit:
                    other = rng.choice([s for s in ('Z2', 'U1', 'Z2Z2', 'U1U1') if s != sym])
                    r, err = call(lambda: cls(indices=ixs, blocks=want_blocks, **qarg, **{**fkw, 'symmetry': other}))
                    stats['routes'] += 1; ctx.count()
                    if err is None:
                        bad('static class accepts a foreign symmetry', **ctxd, foreign=other)
                for name, f, wq, wtab, wblocks in routes:
                    stats['routes'] += 1; ctx.count()
                    r, err = call(f)
                    if must_raise:
                        stats['routes_raise_expected'] += 1
                        if err is None:
                            bad('%s must raise (%s) but returned an array' % (name, 'generic class without symmetry' if not static and 'symmetry' in omit
                                                                                else 'odd parity without oddpos'), **ctxd)
                        elif not err.startswith('ValueError'):
                            bad('%s raises %s instead of ValueError' % (name, err), **ctxd)
                        continue
                    if err is not None:
                        bad('%s raises: %s' % (name, err), **ctxd, route=name)
                        continue
                    why = None
                    if type(r) is not cls:
                        why = 'class is %s' % type(r).__name__
                    elif r.charge != wq:
                        why = 'charge %r, expected %r' % (r.charge, wq)
                    elif tables_of(r) != [(list(t), d) for t, d in wtab]:
                        why = 'index tables %r, expected %r' % (tables_of(r), wtab)
                    elif r.symmetry != sym:
                        why = 'symmetry %r' % (r.symmetry,)
                    else:
                        why = same_blocks(r.blocks, wblocks)
                    if why is None and ferm:
                        exp_odd = [(label, False)] if (par and 'oddpos' not in omit) else []
                        # the direct route with an omitted charge may have inferred another parity
                        if name == 'direct' and 'charge' in omit:
                            p2 = refsym.par(sym, wq)
                            exp_odd = [(label, False)] if (p2 and 'oddpos' not in omit) else []
                        got_odd = [(o.label, o.dual) for o in r.oddpos]
                        if got_odd != exp_odd or dict(r.phases):
                            why = 'oddpos %r (expected %r), phases %r' % (got_odd, exp_odd, dict(r.phases))
                    if why:
                        bad('route %s builds a different array: %s' % (name, why), **ctxd, route=name, got=describe(r))
                if must_raise:
                    continue
                if want_blocks and (len(want_blocks) > 1 or nd >= 2):
                    ctx.nontrivial(('routes', cls.__name__, sym, omit, str(sorted(want_blocks)), q))
                # ---- model correspondence for this tensor (abelian core of the constructors)
                qo = None if 'charge' in omit else q
                A = '%s ZRing' % sym
                r, err = call(lambda: cls.from_fill_fn(fill, ixs, **qarg, **fkw))
                if err is None and len(exprs) < (6000 if ctx.thorough else 1500):
                    add_case('from_fill_fn', 'aarray_eqb %s (from_fill_fn %s demo_fill %s %s) %s' % (
                        A, A, gixs(ixs, sym), gopt_charge(qo), gen.garray(r, sym, 'ZRing')), ctxd)
                    drift.append(('from_fill_fn order', 'blocks_eqb_strict %s (blocks %s (from_fill_fn %s demo_fill %s %s)) %s' % (
                        A, A, A, gixs(ixs, sym), gopt_charge(qo), gblocks(r.blocks, 'ZRing'))))
                    add_gen('from_fill_fn', 'gok_arr %s (from_fill_fn_gen %s demo_fill %s %s) %s' % (
                        A, A, gixs(ixs, sym), gopt_charge(qo), gen.garray(r, sym, 'ZRing')), ctxd)
                # BlockIndex.__init__ on a table given in a random (unsorted) order
                for cm, du in zip(cms, duals):
                    items = list(cm.items())
                    rng.shuffle(items)
                    bx, errx = call(lambda: sr.BlockIndex(dict(items), dual=du))
                    if errx is None:
                        add_gen('BlockIndex.__init__', 'index_eqb %s (block_index_init_gen %s [%s] %s None) %s' % (
                            sym, sym, '; '.join('(%s, %d%%nat)' % (gen.gch(c_), d_) for c_, d_ in items), 'true' if du else 'false',
                            gen.gindex(bx, sym)), ctxd)
                r, err = call(lambda: cls(indices=ixs, blocks=want_blocks, **qarg, **fkw))
                if err is None:
                    add_case('__init__', 'aarray_eqb %s (init_array %s %s %s %s) %s' % (
                        A, A, gixs(ixs, sym), gopt_charge(qo), gblocks(want_blocks, 'ZRing'), gen.garray(r, sym, 'ZRing')), ctxd)
                    add_gen('__init__', 'gok_arr %s (array_init_gen %s %s %s %s) %s' % (
                        A, A, gixs(ixs, sym), gopt_charge(qo), gblocks(want_blocks, 'ZRing'), gen.garray(r, sym, 'ZRing')), ctxd)
                if want_blocks:
                    r, err = call(lambda: cls.from_blocks(want_blocks, duals, **qarg, **fkw))
                    if err is None:
                        add_case('from_blocks', 'match from_blocks %s %s %s %s with Some y => aarray_eqb %s y %s | None => false end' % (
                            A, gblocks(want_blocks, 'ZRing'), gbools(duals), gopt_charge(qo), A, gen.garray(r, sym, 'ZRing')), ctxd)
                        add_gen('from_blocks', 'gok_arr %s (from_blocks_gen %s %s %s %s) %s' % (
                            A, A, gblocks(want_blocks, 'ZRing'), gbools(duals), gopt_charge(qo), gen.garray(r, sym, 'ZRing')), ctxd)
                if len(ctx.coverage['samples']) < 2 and want_blocks and nd >= 2:
                    ctx.sample({'kind': 'four routes', **jsonable(ctxd), 'sectors': [list(s) for s in want_blocks]})

    # ---- regression stream for fix 28a1fb2: direct construction with the charge OMITTED on arrays of a
    # non-self-inverse symmetry with dual legs must infer the signed charge: the result is a valid array
    # (every stored sector conserves its charge, own arithmetic), has the charge the blocks were made for,
    # and equals the from_blocks(..., charge=that charge) route
    n_inf = 240 if ctx.thorough else 60
    for k in range(n_inf):
        sym = NONSELF[k % len(NONSELF)]
        static = sym != 'Z4' and rng.random() < 0.5
        ferm = rng.random() < 0.3
        nd = rng.randint(1, 3)
        cms = [gen.rand_chargemap(rng, sym, 3, 2) for _ in range(nd)]
        duals = [rng.random() < 0.5 for _ in range(nd)]
        duals[rng.randrange(nd)] = True
        q = None
        for _ in range(8):
            q = gen.pick_charge(rng, sym, cms, duals)
            if q != refsym.zero(sym):
                break
        secs = refsym.valid_sectors(sym, [sorted(cm) for cm in cms], duals, q)
        if not secs:
            continue
        rng.shuffle(secs)
        secs = secs[:rng.randint(1, len(secs))]
        blocks = {tuple(s_): gen.rand_data(rng, tuple(cm[c] for cm, c in zip(cms, s_)), False) for s_ in secs}
        ixs = [sr.BlockIndex(dict(cm), dual=d) for cm, d in zip(cms, duals)]
        cls = getattr(sr, (gen.STATIC_F if ferm else gen.STATIC)[sym]) if static else (sr.FermionicArray if ferm else sr.AbelianArray)
        kw = {} if static else {'symmetry': sym}
        if ferm:
            kw['oddpos'] = rng.randint(1, 30)       # needed when the inferred parity is odd
        cd = {'class': cls.__name__, 'symmetry': sym, 'chargemaps': [sorted(cm.items()) for cm in cms], 'duals': duals,
              'blocks': {str(s_): b for s_, b in blocks.items()}, 'charge_the_blocks_conserve': q, 'charge_argument': 'omitted'}
        stats['routes'] += 1; stats['inferred_charge'] = stats.get('inferred_charge', 0) + 1; ctx.count()
        r, err = call(lambda: cls(indices=ixs, blocks=blocks, **kw))
        if err:
            bad('direct construction with the charge omitted raises: %s' % err, **cd)
            continue
        invalid = [s_ for s_ in r.blocks
                   if refsym.csum(sym, [refsym.signed(sym, c, du) for c, du in zip(s_, duals)]) != r.charge]
        if r.charge != q or invalid:
            bad('direct construction with the charge omitted infers charge %r; the blocks conserve %r (sectors not conserving the '
                'inferred charge: %r) -- the index directions must enter the inference' % (r.charge, q, invalid), **cd, got=describe(r))
            continue
        fb, e2 = call(lambda: cls.from_blocks(blocks, duals, charge=r.charge, **kw))
        if e2:
            bad('from_blocks with the inferred charge raises: %s' % e2, **cd)
        elif fb.charge != r.charge or same_blocks(fb.blocks, r.blocks) or [ix.dual for ix in fb.indices] != duals \
                or any(dict(a.chargemap).items() - dict(b.chargemap).items() for a, b in zip(fb.indices, r.indices)):
            bad('direct construction (charge omitted) and from_blocks(charge=inferred) build different arrays', **cd,
                direct=describe(r), via_from_blocks=describe(fb))
        ctx.nontrivial(('infer', sym, str(sorted(blocks)), str(duals), str(q)))
        add_case('__init__', 'aarray_eqb %s ZRing (init_array %s ZRing %s None %s) %s' % (
            sym, sym, gixs(ixs, sym), gblocks(blocks, 'ZRing'), gen.garray(r, sym, 'ZRing')), cd)
        add_gen('__init__', 'gok_arr %s ZRing (array_init_gen %s ZRing %s None %s) %s' % (
            sym, sym, gixs(ixs, sym), gblocks(blocks, 'ZRing'), gen.garray(r, sym, 'ZRing')), cd)
        if fb is not None and not e2:
            add_gen('from_blocks', 'gok_arr %s ZRing (from_blocks_gen %s ZRing %s %s (Some %s)) %s' % (
                sym, sym, gblocks(blocks, 'ZRing'), gbools(duals), gen.gch(r.charge), gen.garray(fb, sym, 'ZRing')), cd)

    # ---- from_blocks error paths (model None <-> raises)
    for k in range(18 if not ctx.thorough else 90):
        sym = SYMS[k % len(SYMS)]
        x = gen.rand_array(rng, sr, sym, ndim=rng.randint(1, 3), keep=1.0, static=False)
        if len(x.blocks) < 1:
            continue
        blocks = dict(x.blocks)
        duals = [ix.dual for ix in x.indices]
        how = k % 3
        if how == 0:       # wrong number of duals
            duals = duals + [False] if rng.random() < 0.5 else duals[:-1]
        elif how == 1:     # inconsistent sizes
            s0 = next(iter(blocks))
            sh = list(np.asarray(blocks[s0]).shape)
            sh[0] += 1
            s1 = tuple(list(s0[:-1]) + [rng.choice([c for c in gen.SMALL[sym]])])
            if s1 == s0 or len(s0) < 2:
                continue
            blocks = {s0: blocks[s0], s1: np.zeros(sh)}
        else:              # no blocks at all
            blocks = {}
        r, err = call(lambda: sr.AbelianArray.from_blocks(blocks, duals, charge=x.charge, symmetry=sym))
        stats['routes'] += 1; ctx.count()
        if err is None:
            bad('from_blocks accepts malformed input', symmetry=sym, blocks={str(s): np.asarray(b).shape for s, b in blocks.items()}, duals=duals)
        add_case('from_blocks-raises', 'match from_blocks %s ZRing %s %s (Some %s) with None => %s | Some _ => %s end' % (
            sym, gblocks(blocks, 'ZRing'), gbools(duals), gen.gch(x.charge), 'true' if err else 'false', 'false' if err else 'true'),
            {'symmetry': sym, 'how': how})
        add_gen('from_blocks-raises', '%s (graises (from_blocks_gen %s ZRing %s %s (Some %s)))' % (
            '' if err else 'negb', sym, gblocks(blocks, 'ZRing'), gbools(duals), gen.gch(x.charge)), {'symmetry': sym, 'how': how})

    # ---- random(): sectors, shapes, charge, determinism under a seed
    for cls, sym, static, ferm in configs:
        nd = rng.randint(1, 3)
        cms = [gen.rand_chargemap(rng, sym, 3, 2) for _ in range(nd)]
        duals = [rng.random() < 0.5 for _ in range(nd)]
        q = gen.pick_charge(rng, sym, cms, duals)
        ixs = [sr.BlockIndex(dict(cm), dual=d) for cm, d in zip(cms, duals)]
        kw = {} if static else {'symmetry': sym}
        if ferm and refsym.par(sym, q):
            kw['oddpos'] = 7
        a, e1 = call(lambda: cls.random(ixs, q, seed=5, **kw))
        b, e2 = call(lambda: cls.random(ixs, charge=q, seed=5, dist='normal', dtype='float64', scale=1.0, loc=0.0, **kw))
        stats['routes'] += 2; ctx.count(2)
        cd = {'class': cls.__name__, 'symmetry': sym, 'chargemaps': [sorted(cm.items()) for cm in cms], 'duals': duals, 'charge': q}
        if e1 or e2:
            bad('random raises: %s / %s' % (e1, e2), **cd)
            continue
        secs = refsym.valid_sectors(sym, [sorted(cm) for cm in cms], duals, q)
        if sorted(a.blocks) != sorted(tuple(s) for s in secs) or a.charge != q or same_blocks(a.blocks, b.blocks) \
                or any(np.asarray(a.blocks[tuple(s)]).shape != tuple(cm[c] for cm, c in zip(cms, s)) for s in secs):
            bad('random(): wrong sectors / shapes / charge, or explicit defaults differ from omitted ones', **cd, got=describe(a))

    # ============================================================ 2. dense -> blocks -> dense
    n_proj = 3000 if ctx.thorough else 400
    for k in range(n_proj):
        cls, sym, static, ferm = configs[k % len(configs)]
        nd = rng.choice([0, 1, 2, 2, 2, 3, 3])
        shape = tuple(rng.randint(1, 4) for _ in range(nd))
        maps = [rand_labels(rng, sym, n) for n in shape]
        duals = [rng.random() < 0.5 for _ in range(nd)]
        cplx = rng.random() < 0.25
        d = gen.rand_data(rng, shape, cplx, -4, 4)
        # a total charge some sector attains (mostly), non-zero preferred for the non-self-inverse groups
        cands = [refsym.csum(sym, [refsym.signed(sym, m[i], du) for m, i, du in zip(maps, pos, duals)])
                 for pos in itertools.product(*[range(n) for n in shape])]
        nz = [c for c in cands if c != refsym.zero(sym)]
        q = rng.choice(nz) if (nz and rng.random() < 0.7) else (rng.choice(cands) if rng.random() < 0.9 else rng.choice(gen.SMALL[sym]))
        omit_q = (q == refsym.zero(sym) and rng.random() < 0.5)
        kw = {} if static else {'symmetry': sym}
        if ferm and refsym.par(sym, q):
            kw['oddpos'] = rng.randint(1, 30)
        mode = rng.choice(['ignore', 'warn'])
        args = {} if omit_q else {'charge': q}
        stats['projection'] += 1; ctx.count()
        y, err = call(lambda: cls.from_dense(d, maps, duals, invalid_sectors=mode, **args, **kw))
        cd = {'class': cls.__name__, 'symmetry': sym, 'dense': d, 'index_maps': maps, 'duals': duals, 'charge': q,
              'charge_omitted': omit_q, 'invalid_sectors': mode}
        if err:
            bad('from_dense raises on a well-formed input: %s' % err, **cd)
            continue
        proj, orders = own_projection(d, maps, duals, sym, q)
        want_tab = expected_tables(maps, duals)
        label_sets = [sorted(set(m)) for m in maps]
        want_secs = sorted(tuple(s) for s in refsym.valid_sectors(sym, label_sets, duals, q))
        why = None
        if y.charge != q:
            why = 'charge %r, expected %r' % (y.charge, q)
        elif tables_of(y) != [(list(t), du) for t, du in want_tab]:
            why = 'index tables %r, expected (sorted by charge) %r' % (tables_of(y), want_tab)
        elif sorted(y.blocks) != want_secs:
            why = 'stored sectors %r, expected exactly the charge-conserving ones %r' % (sorted(y.blocks), want_secs)
        if why is None and y.blocks:
            back, e2 = call(lambda: y.to_dense())
            if e2:
                why = 'to_dense raises: %s' % e2
            elif np.asarray(back).shape != proj.shape or not np.array_equal(np.asarray(back), proj):
                why = 'dense -> blocks -> dense is not the projection reordered by charge'
                cd['got_dense'] = np.asarray(back); cd['expected_dense'] = proj
        if why:
            bad('from_dense/to_dense: ' + why, **cd, got=describe(y))
        interleaved = any(m != sorted(m) for m in maps)
        if interleaved and q != refsym.zero(sym) and y.blocks and nd >= 2:
            ctx.nontrivial(('proj', sym, str(maps), str(duals), str(q)))
        # 'raise' must raise exactly when a non-conserving entry is non-zero
        if k % 5 == 0:
            has_bad = bool(np.any(np.asarray(d)[np.ix_(*orders)] != proj)) if nd else bool(np.any(np.asarray(d) != proj))
            _, e3 = call(lambda: cls.from_dense(d, maps, duals, invalid_sectors='raise', **args, **kw))
            ctx.count()
            if bool(e3) != has_bad:
                bad("invalid_sectors='raise' %s although the input %s non-zero entries outside the conserving sectors" % (
                    'raises' if e3 else 'does not raise', 'has' if has_bad else 'has no'), **cd)
        # model
        ring = ring_of_arrays(d)
        A = '%s %s' % (sym, ring)
        D = gen.gtensor(d, ring)
        mexpr = 'from_dense %s %s %s %s %s' % (A, D, gmaps(maps), gbools(duals), gopt_charge(None if omit_q else q))
        add_case('from_dense', 'match %s with Some y => aarray_eqb %s y %s | None => false end' % (mexpr, A, gen.garray(y, sym, ring)), cd)
        drift.append(('from_dense order', 'match %s with Some y => blocks_eqb_strict %s (blocks %s y) %s | None => false end' % (
            mexpr, A, A, gblocks(y.blocks, ring))))
        gexpr = 'from_dense_gen %s %d %s %s %s %s' % (A, GEN_FUEL, D, gmaps(maps), gbools(duals), gopt_charge(None if omit_q else q))
        add_gen('from_dense', 'gok_arr %s (%s) %s' % (A, gexpr, gen.garray(y, sym, ring)), cd)
        if y.blocks and k % 3 == 0:
            add_gen('to_dense∘from_dense', 'match %s with COk y => gok_t %s (to_dense_gen %s %d y) %s | _ => false end' % (
                gexpr, ring, A, GEN_FUEL, gen.gtensor(proj, ring)), cd)
        if y.blocks:
            add_case('to_dense∘from_dense', 'match %s with Some y => match to_dense %s y with Some t => tensor_eqb %s t %s | None => false end | None => false end' % (
                mexpr, A, ring, gen.gtensor(proj, ring)), cd)
        if k < 3:
            ctx.sample({'kind': 'dense->blocks->dense', **jsonable({kk: vv for kk, vv in cd.items() if kk != 'dense'}), 'shape': list(shape)})
    # thorough: exhaustive small structures (oracle only): every labelling of a (3, 2) array over two
    # charges, every dualness pattern, every total charge of a small set, U1 and Z4 (negation matters)
    if ctx.thorough:
        d = np.arange(1.0, 7.0).reshape(3, 2)
        for sym, pool, qs in (('U1', [-1, 2], [-3, -1, 0, 1, 3, 4]), ('Z4', [1, 2], [0, 1, 2, 3])):
            for m0 in itertools.product(pool, repeat=3):
                for m1 in itertools.product(pool, repeat=2):
                    for duals in itertools.product([False, True], repeat=2):
                        for q in qs:
                            maps = [list(m0), list(m1)]
                            y, err = call(lambda: sr.AbelianArray.from_dense(d, maps, list(duals), charge=q, symmetry=sym, invalid_sectors='ignore'))
                            stats['projection'] += 1; ctx.count()
                            proj, _ = own_projection(d, maps, duals, sym, q)
                            back, e2 = (None, err) if err else call(lambda: y.to_dense())
                            if err or e2 or not np.array_equal(np.asarray(back), proj) or tables_of(y) != [(list(t), du) for t, du in expected_tables(maps, duals)]:
                                bad('exhaustive dense -> blocks -> dense: not the projection reordered by charge (%s)' % (err or e2 or 'values/tables differ'),
                                    symmetry=sym, dense=d, index_maps=maps, duals=list(duals), charge=q)
    # malformed from_dense inputs: a label list shorter than the axis
    for k in range(6):
        sym = SYMS[k % len(SYMS)]
        d = gen.rand_data(rng, (2, 3), False)
        maps = [rand_labels(rng, sym, 2), rand_labels(rng, sym, 2)]
        _, err = call(lambda: sr.AbelianArray.from_dense(d, maps, [False, True], symmetry=sym))
        ctx.count()
        if err is None:
            bad('from_dense accepts an index map shorter than its axis', symmetry=sym, index_maps=maps)
        add_case('from_dense-raises', 'match from_dense %s ZRing %s %s [false; true] None with None => true | Some _ => false end' % (
            sym, gen.gtensor(d, 'ZRing'), gmaps(maps)), {'symmetry': sym})
        add_gen('from_dense-raises', '%s (graises (from_dense_gen %s ZRing %d %s %s [false; true] None))' % (
            '' if err else 'negb', sym, GEN_FUEL, gen.gtensor(d, 'ZRing'), gmaps(maps)), {'symmetry': sym})

    # ============================================================ 3. to_dense and blocks -> dense -> blocks
    n_td = 2400 if ctx.thorough else 300
    for k in range(n_td):
        sym = SYMS[k % len(SYMS)]
        ferm = (k // len(SYMS)) % 2 == 1
        cplx = rng.random() < 0.3
        x = gen.rand_array(rng, sr, sym, ndim=rng.randint(0, 3), cplx=cplx, fermionic=ferm, maxsize=2)
        if ferm:
            x = gen.rand_lazy(rng, sr, x, steps=rng.randint(1, 3))
        cd = {'symmetry': sym, 'x': describe(x)}
        want = gen.densify(x)                         # pending signs applied
        stats['to_dense'] += 1; ctx.count()
        got, err = call(lambda: x.to_dense())
        ring = gen.ring_of(x)
        A = '%s %s' % (sym, ring)
        X = gen.gfarray(x, sym, ring) if ferm else gen.garray(x, sym, ring)
        fn = 'f_to_dense' if ferm else 'to_dense'
        if err:
            bad('to_dense raises: %s' % err, **cd)
            continue
        got = np.asarray(got)
        if got.shape != want.shape or not np.array_equal(got.astype('complex128'), want):
            bad('to_dense differs from the own dense embedding%s' % (' (pending signs must be applied)' if ferm and x.phases else ''),
                **cd, got_dense=got, expected_dense=want)
        if ferm and any(v == -1 for v in x.phases.values()):
            stats['fermionic_signs'] += 1
            ctx.nontrivial(('signs', sym, str(sorted(x.blocks)), str(sorted(x.phases.items()))))
        add_case(fn, 'match %s %s %s with Some t => tensor_eqb %s t %s | None => false end' % (
            fn, A, X, ring, gen.gtensor(got, ring)), cd)
        add_gen(fn, 'gok_t %s (to_dense_gen %s %d %s) %s' % (
            ring, A, GEN_FUEL, ('(f_value %s %s)' % (A, X)) if ferm else X, gen.gtensor(got, ring)), cd)
        # ---- the same array with blocks of DIFFERENT element types (the narrowest stored first): the dense form holds every value
        if not ferm and len(x.blocks) >= 2 and k % 3 == 0:
            ks_ = list(x.blocks)
            xm = x.copy()
            xm.blocks[ks_[0]] = np.asarray(np.real(xm.blocks[ks_[0]])).astype('int64')
            for kk in ks_[1:]:
                xm.blocks[kk] = np.asarray(xm.blocks[kk]) + (0.5 if not cplx else 0.5 + 0.25j)
            stats['to_dense_mixed_types'] = stats.get('to_dense_mixed_types', 0) + 1; ctx.count()
            gotm, errm = call(lambda: xm.to_dense())
            wantm = gen.densify(xm)
            if errm:
                bad('to_dense of an array whose blocks have different element types raises: %s' % errm, symmetry=sym, x=describe(xm))
            elif np.asarray(gotm).shape != wantm.shape or not np.array_equal(np.asarray(gotm).astype('complex128'), wantm):
                bad('to_dense of an array whose blocks have different element types loses values (first block %s, others %s)' % (
                    np.asarray(xm.blocks[ks_[0]]).dtype, np.asarray(xm.blocks[ks_[1]]).dtype), symmetry=sym, x=describe(xm),
                    got_dense=np.asarray(gotm), expected_dense=wantm)
        # ---- blocks -> dense -> blocks with the matching labels
        cms = [dict(ix.chargemap) for ix in x.indices]
        duals = [ix.dual for ix in x.indices]
        labels = own_labels(cms)
        cls = type(x)
        kw = {} if cls.static_symmetry else {'symmetry': sym}
        odd = bool(refsym.par(sym, x.charge)) if ferm else False
        if odd:
            # odd parity: the label is required
            _, e0 = call(lambda: cls.from_dense(got, labels, duals, charge=x.charge, **kw))
            stats['odd_requires_oddpos'] += 1; ctx.count()
            if e0 is None or not e0.startswith('ValueError'):
                bad('from_dense of an odd-parity fermionic array without oddpos must raise ValueError, got %r' % (e0,), **cd)
            kw['oddpos'] = x.oddpos[0].label if len(x.oddpos) == 1 and not x.oddpos[0].dual else 3
        stats['round_trip'] += 1; ctx.count()
        y, e1 = call(lambda: cls.from_dense(got, labels, duals, charge=x.charge, **kw))
        if e1:
            bad('from_dense(to_dense(x)) raises: %s' % e1, **cd)
            continue
        valued = {s: (-np.asarray(b) if (ferm and x.phases.get(s, 1) == -1) else np.asarray(b)) for s, b in x.blocks.items()}
        why = None
        if y.charge != x.charge:
            why = 'charge %r' % (y.charge,)
        elif tables_of(y) != tables_of(x):
            why = 'index tables %r, expected %r' % (tables_of(y), tables_of(x))
        else:
            why = same_blocks(y.blocks, valued, absent_is_zero=True)
            want_secs = sorted(tuple(s) for s in refsym.valid_sectors(sym, [sorted(cm) for cm in cms], duals, x.charge))
            if why is None and sorted(y.blocks) != want_secs:
                why = 'rebuilt array stores %r, expected every charge-conserving sector %r' % (sorted(y.blocks), want_secs)
        if why:
            bad('blocks -> dense -> blocks is not the identity: ' + why, **cd, got=describe(y))
        if len(x.blocks) >= 2 and x.ndim >= 2 and x.charge != refsym.zero(sym):
            ctx.nontrivial(('round', sym, ferm, str(sorted(x.blocks)), str(x.charge), str(duals)))
        if not ferm:
            add_case('from_dense∘to_dense', 'match from_dense %s %s (labels_of %s %s) %s (Some %s) with Some y => aarray_eqb %s y %s | None => false end' % (
                A, gen.gtensor(got, ring), sym, gixs(x.indices, sym), gbools(duals), gen.gch(x.charge), A, gen.garray(y, sym, ring)), cd)
            add_gen('from_dense∘to_dense', 'gok_arr %s (from_dense_gen %s %d %s (labels_of %s %s) %s (Some %s)) %s' % (
                A, A, GEN_FUEL, gen.gtensor(got, ring), sym, gixs(x.indices, sym), gbools(duals), gen.gch(x.charge), gen.garray(y, sym, ring)), cd)

    # ---- to_dense must itself iterate the charges in sorted order.  BlockIndex sorts its table on
    # construction, so this is only observable on an index whose stored table is out of order; such an
    # index is made here by overwriting the private dict (input NOT reachable through public constructors).
    for k in range(10 if not ctx.thorough else 40):
        sym = SYMS[k % len(SYMS)]
        x = gen.rand_array(rng, sr, sym, ndim=rng.randint(1, 3), keep=1.0, static=False, maxcharges=3, maxsize=2)
        if not x.blocks or all(len(ix.chargemap) < 2 for ix in x.indices):
            continue
        want = gen.densify(x)
        hacked = []
        for ix in x.indices:
            items = list(ix.chargemap.items())
            items.reverse()
            h = sr.BlockIndex(dict(items), dual=ix.dual)
            h._chargemap = dict(items)            # reversed, i.e. unsorted
            hacked.append(h)
        z = sr.AbelianArray(indices=hacked, charge=x.charge, blocks=dict(x.blocks), symmetry=sym)
        got, err = call(lambda: z.to_dense())
        stats['to_dense'] += 1; ctx.count()
        ring = gen.ring_of(x)
        if err is None and (np.asarray(got).shape != want.shape or not np.array_equal(np.asarray(got).astype('complex128'), want)):
            bad('to_dense does not iterate the charges of an axis in sorted order (index whose stored table is unsorted; made by '
                'overwriting BlockIndex._chargemap, not reachable through the public constructors)',
                symmetry=sym, x=describe(z), got_dense=np.asarray(got), expected_dense=want)
        if err is None:
            add_case('to_dense-unsorted-table', 'match to_dense %s %s %s with Some t => tensor_eqb %s t %s | None => false end' % (
                sym, ring, gen.garray(z, sym, ring), ring, gen.gtensor(np.asarray(got), ring)), {'symmetry': sym})
            add_gen('to_dense-unsorted-table', 'gok_t %s (to_dense_gen %s %s %d %s) %s' % (
                ring, sym, ring, GEN_FUEL, gen.garray(z, sym, ring), gen.gtensor(np.asarray(got), ring)), {'symmetry': sym})

    # ---- observations that are reported but are not violations of the property
    r, err = call(lambda: sru.from_dense(np.zeros((2, 2)), 'Z2', [[0, 1], [0, 1]]))
    if err:
        ctx.note('symmray.utils.from_dense with its default duals=None raises (%s): the helper has no usable default for duals' % err[:80])
    r, err = call(lambda: sr.U1Array.from_blocks({(2, 1): np.ones((2, 1)), (1, 0): np.ones((1, 1))}, duals=[False, True]))
    if err is None and r.charge == 0:
        ctx.note('from_blocks with charge omitted takes the identity charge as documented, whatever the blocks conserve: '
                 'U1Array.from_blocks({(2,1):.., (1,0):..}, duals=[False, True]) has charge 0 and both sectors are invalid for it '
                 '(check() raises); direct construction with the charge omitted infers 1 (theorem C16_direct_vs_from_blocks)')

    # ============================================================ model correspondence
    bad_idx = common.run_cases(ctx, 'ctor', IMPORTS, '', exprs, shard=60)
    tie_broken = []
    if bad_idx is None:
        tie_broken.append('cases.v (Model/Ctor.v vs implementation) did not evaluate')
    elif bad_idx:
        kinds = {}
        for i in bad_idx:
            kinds.setdefault(meta[i][0], []).append(i)
        for kind, idxs in kinds.items():
            tie_broken.append('Model.Ctor %s disagrees with the implementation on %d case(s)' % (kind, len(idxs)))
            # a model disagreement on a concrete input is itself a concrete failing input of the tie
            i = idxs[0]
            bad('implementation differs from the model (%s)' % kind, **meta[i][1], gallina=exprs[i][:1500])
    # ---- the translated constructor algorithms against the implementation (strict: block order included)
    g_idx = common.run_cases(ctx, 'ctoralg_gen', GEN_IMPORTS, GEN_PREAMBLE, gexprs, shard=60)
    if g_idx is None:
        tie_broken.append('cases.v (Gen/CtorAlgGen.v, the translated constructor algorithms, vs implementation) did not evaluate')
    elif g_idx:
        kinds = {}
        for i in g_idx:
            kinds.setdefault(gmeta[i][0], []).append(i)
        for kind, idxs in kinds.items():
            tie_broken.append('Gen.CtorAlgGen %s disagrees with the implementation on %d case(s)' % (kind, len(idxs)))
            bad('implementation differs from the function generated from its own source (%s)' % kind, **gmeta[idxs[0]][1],
                gallina=gexprs[idxs[0]][:1500])
    d_idx = common.run_cases(ctx, 'ctor_drift', IMPORTS, '', [e for _, e in drift[:240]], shard=60)
    if d_idx:
        ctx.extra['model_drift'] = ['%s: block insertion order differs in %d case(s) (not observable, not an alarm)' % (
            n, sum(1 for i in d_idx if drift[i][0] == n)) for n in sorted({drift[i][0] for i in d_idx})]

    seen = set()
    for f in found:
        key = re.sub(r'[-\d(), ]+', '#', f['what'])[:60]
        if key in seen:
            continue
        seen.add(key)
        if len(seen) > 5:
            break
        ctx.violation(f['what'], {'oracle': 'own expectation (refsym arithmetic, own densifier / numpy projection)', **f})
    ctx.broken += tie_broken
    if (not ok or tie_broken) and not found:
        ctx.violation('proof obligation or tie of C16 no longer checks', {'broken': ctx.broken}, found_input=False)
    ctx.extra['counts'] = stats
    ctx.extra['class_x_symmetry_x_omitted_cells'] = len(dist)
    ctx.extra['model_cases_by_kind'] = {k: sum(1 for m in meta if m[0] == k) for k in sorted({m[0] for m in meta})}
    ctx.extra['tie'] = {'model_cases': len(exprs), 'translated_ctor_alg_cases': len(gexprs),
                        'translated_ctor_alg_by_kind': {k: sum(1 for m in gmeta if m[0] == k) for k in sorted({m[0] for m in gmeta})},
                        'translated_ctor_alg_disagreeing': (None if g_idx is None else len(g_idx))}
    ctx.extra['failures_seen'] = len(found)
    ctx.coverage['rule'] = (
        'construction: the 8 static classes with their symmetry and the 2 generic classes with each of Z2/U1/Z2Z2/U1U1/Z4, times every subset '
        'of omitted {charge, symmetry, oddpos}; each cell builds one random tensor (rank 0-3, random tables/dualness, non-zero charge preferred) '
        'directly, via from_fill_fn, from_blocks, from_dense (list and dict labels) and utils.from_dense and compares every route with an '
        'independently computed expectation; a separate stream builds U1/U1U1/Z4 arrays with dual legs and non-zero charge directly with the charge '
        'omitted (must infer the signed charge, be valid and equal from_blocks given that charge); here every route is compared with an '
        'independently computed expectation (or expects ValueError); dense->blocks->dense: random integer/Gaussian-integer dense arrays with random '
        'unsorted interleaved labels, every class, against an own numpy projection; to_dense against gen.densify incl. fermionic arrays with '
        'pending signs; blocks->dense->blocks with matching labels.  Non-trivial = a construction cell with >1 sector or rank>=2; a projection case '
        'with an unsorted labelling, non-zero total charge, rank>=2 and at least one stored block; a round trip with >=2 blocks, rank>=2 and '
        'non-zero charge; a fermionic to_dense with at least one pending -1.  Distinct by (class, symmetry, omitted set, sectors, charge) / '
        '(labels, duals, charge).')
    return


def replay(path):
    r = json.load(open(path))
    print(json.dumps(r, indent=1)[:6000])
    return 0
