"""C01 — every result is a valid symmetric array (charge conservation is closed).

Random programs of public operations run on the implementation; EVERY array any
step returns is serialised and judged by the Coq predicate Model.Valid.valid_array /
valid_farray (vm_compute) — an audit independent of the library's own check()."""
import json

import numpy as np

import common
import gen
import refsym
import replaylib as rl

IMPORTS = ('From SV Require Import Base.Sym Base.Tensor Gen.PhasePerm Model.SymInst Model.Sectors Model.Array Model.Arith Model.Wf Model.Fermi Model.Valid.\n')
SYMS = ['Z2', 'U1', 'Z2Z2', 'U1U1', 'Z4']


def describe(x):
    d = {'class': type(x).__name__, 'charge': x.charge,
         'indices': [([list(kv) for kv in ix.chargemap.items()], ix.dual, ix.subinfo is not None) for ix in x.indices],
         'blocks': {str(k): list(np.shape(v)) for k, v in x.blocks.items()}}
    if hasattr(x, 'phases'):
        d['phases'] = {str(s): p for s, p in x.phases.items()}
        d['oddpos'] = [repr(o) for o in x.oddpos]
    return d


def exactify(x):
    """decompositions return float data: the structure is what C01 is about, so
    blocks are replaced by integer stand-ins of the same shape for serialisation"""
    y = x.copy()
    for s in list(y.blocks):
        y.blocks[s] = np.ones(np.shape(y.blocks[s]))
    return y


DECOMPS = ('qr', 'svd', 'svd_truncated', 'eigh', 'solve')


class VecOut:
    """a block vector returned by a decomposition (singular values / eigenvalues) together with the index it
    lives on (the bond of the left factor / the second index of the input); `exact`: one block per charge of
    that index (svd, svd_truncated) rather than a subset (eigh: only charges that carry a block)"""
    def __init__(self, v, bond, exact):
        self.v, self.bond, self.exact = v, bond, exact


def vec_expr(vo, sym):
    """Gallina term judging a returned block vector (the clauses of WfProofs3.wf_bvec / bvec_on, written with model
    functions only): no key twice, every key a valid charge listed by the index, every block one-dimensional of
    the length the index assigns to its charge, and (exact) as many blocks as the index has charges"""
    items = '[' + '; '.join('(%s, %s)' % (gen.gch(c), gen.gnatlist(np.shape(b))) for c, b in vo.v.blocks.items()) + ']'
    return ('(let v : list (C %(G)s * list nat) := %(v)s in let ix := %(ix)s in '
            'nodupb (ceqb %(G)s) (map fst v) && '
            'forallb (fun cs => valid %(G)s (fst cs) && mem (ceqb %(G)s) (fst cs) (icharges %(G)s ix) && '
            'list_eqb Nat.eqb (snd cs) [size_of %(G)s ix (fst cs)] && Nat.ltb 0 (size_of %(G)s ix (fst cs))) v && '
            '(%(sub)s || Nat.eqb (length v) (length (icharges %(G)s ix))))'
            % {'G': sym, 'v': items, 'ix': gen.gindex(vo.bond, sym), 'sub': 'false' if vo.exact else 'true'})


def describe_vec(vo):
    return {'class': type(vo.v).__name__, 'blocks': {str(c): list(np.shape(b)) for c, b in vo.v.blocks.items()},
            'index': ([list(kv) for kv in vo.bond.chargemap.items()], vo.bond.dual), 'one_block_per_charge': vo.exact}


def random_op(rng, sr, regs, sym, ferm):
    """returns (description, list of result arrays) or None if not applicable / raises legitimately"""
    import symmray.linalg as la
    x = rng.choice(regs)
    n = x.ndim
    kind = rng.choice(['transpose', 'conj', 'dagger', 'fuse', 'unfuse', 'unfuse_all', 'reshape', 'squeeze', 'expand_dims', 'tensordot',
                       'tensordot_full', 'matmul', 'einsum', 'multiply_diagonal', 'align_axes', 'add', 'sub', 'mul', 'scale', 'neg',
                       'qr', 'svd', 'eigh', 'svd_truncated', 'solve', 'phase', 'sync_charges', 'drop_fill'])
    if kind == 'transpose' and n:
        p = list(range(n)); rng.shuffle(p)
        return ('transpose%r' % (p,), [x.transpose(tuple(p))])
    if kind == 'conj':
        if ferm:
            return ('conj', [x.conj(phase_dual=rng.random() < 0.5, phase_permutation=rng.random() < 0.8)])
        return ('conj', [x.conj()])
    if kind == 'dagger':
        return ('dagger', [x.dagger(phase_dual=rng.random() < 0.5) if ferm else x.dagger()])
    if kind == 'fuse' and n >= 2:
        axes = list(range(n)); rng.shuffle(axes)
        k1 = rng.randint(1, n)
        groups = [tuple(axes[:k1])]
        if n - k1 >= 1 and rng.random() < 0.5:
            groups.append(tuple(axes[k1:k1 + rng.randint(1, n - k1)]))
        if rng.random() < 0.15:
            groups.insert(rng.randint(0, len(groups)), ())
        kw = {}
        if not ferm and rng.random() < 0.5:
            kw['mode'] = rng.choice(['insert', 'concat'])
        return ('fuse%r%r' % (groups, kw), [x.fuse(*groups, **kw)])
    if kind == 'unfuse':
        cand = [i for i, ix in enumerate(x.indices) if ix.subinfo is not None]
        if cand:
            ax = rng.choice(cand)
            return ('unfuse(%d)' % ax, [x.unfuse(ax)])
        return None
    if kind == 'unfuse_all':
        return ('unfuse_all', [x.unfuse_all()])
    if kind == 'reshape' and n >= 2:
        shp = list(x.shape)
        i = rng.randrange(n - 1)
        new = shp[:i] + [shp[i] * shp[i + 1]] + shp[i + 2:]
        if all(ix.subinfo is None for ix in x.indices) and 0 not in shp:
            y = x.reshape(tuple(new))
            return ('reshape%r' % (new,), [y, y.reshape(tuple(shp))])
        return None
    if kind == 'squeeze':
        y = x.expand_dims(rng.randint(0, n))
        return ('expand_dims+squeeze', [y, y.squeeze()])
    if kind == 'expand_dims':
        c = rng.choice(gen.SMALL[sym])
        return ('expand_dims(c=%r)' % (c,), [x.expand_dims(rng.randint(0, n), c=c, dual=rng.random() < 0.5)])
    if kind in ('tensordot', 'tensordot_full', 'matmul', 'align_axes'):
        # a partner contractible with x over a random subset of axes
        ncon = n if kind == 'tensordot_full' else (1 if kind == 'matmul' else rng.randint(0, n))
        axa = rng.sample(range(n), ncon) if kind != 'matmul' else [n - 1]
        if kind == 'matmul' and n not in (1, 2):
            return None
        extra = rng.randint(0, 2) if kind != 'matmul' else rng.randint(0, 1)
        cmb = [dict(x.indices[i].chargemap) for i in axa] + [gen.rand_chargemap(rng, sym, maxsize=2) for _ in range(extra)]
        dub = [not x.indices[i].dual for i in axa] + [rng.random() < 0.5 for _ in range(extra)]
        if any(x.indices[i].subinfo is not None for i in axa):
            return None
        order = list(range(len(cmb)))
        if kind != 'matmul':
            rng.shuffle(order)
        b = gen.rand_array(rng, sr, sym, chargemaps=[cmb[o] for o in order], duals=[dub[o] for o in order], fermionic=ferm,
                           oddpos=rng.randint(100, 999), maxsize=2)
        if ferm:
            b = gen.rand_lazy(rng, sr, b)
        axb = [order.index(k) for k in range(ncon)]
        if kind == 'align_axes':
            if not ncon:
                return None
            a2, b2 = x.align_axes(b, (tuple(axa), tuple(axb)))
            return ('align_axes', [a2, b2])
        if kind == 'matmul':
            r = x @ b
            return ('matmul', [r] if hasattr(r, 'blocks') else [])
        mode = rng.choice(['auto', 'fused', 'blockwise'])
        r = sr.tensordot(x, b, axes=(axa, axb), mode=mode, preserve_array=True)
        return ('tensordot%r mode=%s' % ((axa, axb), mode), [b, r])
    if kind == 'einsum' and n >= 2:
        i, j = rng.sample(range(n), 2)
        if x.indices[i].chargemap == x.indices[j].chargemap and x.indices[i].dual != x.indices[j].dual and \
                x.indices[i].subinfo is None and x.indices[j].subinfo is None:
            letters = [chr(97 + k) for k in range(n)]
            letters[j] = letters[i]
            out = [letters[k] for k in range(n) if k not in (i, j)]
            rng.shuffle(out)
            r = x.einsum(''.join(letters) + '->' + ''.join(out), preserve_array=True)
            return ('einsum', [r])
        return None
    if kind == 'multiply_diagonal' and n:
        ax = rng.randrange(n)
        v = sr.BlockVector({c: np.ones(d) for c, d in x.indices[ax].chargemap.items() if rng.random() < 0.7})
        return ('multiply_diagonal', [x.multiply_diagonal(v, ax)])
    if kind in ('add', 'sub', 'mul'):
        y = gen.rand_array(rng, sr, sym, chargemaps=[dict(ix.chargemap) for ix in x.indices], duals=[ix.dual for ix in x.indices],
                           charge=x.charge, fermionic=ferm, oddpos=x.oddpos[0].label if ferm and x.oddpos else None, maxsize=2)
        if any(ix.subinfo is not None for ix in x.indices):
            y = x * 2
        if kind == 'add':
            return ('add', [x + y])
        if kind == 'mul':
            return ('mul', [x * y])
        return ('sub', [x - (x * 3)])
    if kind == 'scale':
        return ('scale', [x * 2, x / 2, 3 * x])
    if kind == 'neg':
        return ('neg', [-x])
    if kind == 'phase' and ferm:
        y = gen.rand_lazy(rng, sr, x, steps=rng.randint(1, 3))
        return ('phase ops', [y, y.phase_sync()])
    if kind == 'sync_charges':
        return ('sync_charges', [x.sync_charges()])
    if kind == 'drop_fill':
        y = x.copy()
        if y.blocks:
            y.fill_missing_blocks()
        z = y.copy(); z.drop_missing_blocks()
        return ('fill/drop_missing_blocks', [y, z])
    if kind in ('qr', 'svd', 'eigh', 'svd_truncated', 'solve'):
        m = x
        if n > 2:
            k1 = rng.randint(1, n - 1)
            m = x.fuse(tuple(range(k1)), tuple(range(k1, n)))
        elif n < 2:
            return None
        m = m.copy()
        for s in list(m.blocks):
            shp = np.shape(m.blocks[s])
            m.blocks[s] = np.asarray(m.blocks[s], dtype='float64') + 0.37 * np.arange(1, int(np.prod(shp)) + 1).reshape(shp) % 1.7
        if kind == 'qr':
            q, r = la.qr(m, stabilized=rng.random() < 0.5)
            return ('qr', [exactify(q), exactify(r)])
        if kind == 'svd':
            u, s, vh = la.svd(m)
            return ('svd', [exactify(u), exactify(vh), VecOut(s, u.indices[1], True)])
        if kind == 'svd_truncated':
            u, s, vh = la.svd_truncated(m, cutoff=rng.choice([0.0, 1e-3, 0.3]), cutoff_mode=rng.randint(1, 6), max_bond=rng.choice([-1, 1, 2, 5]),
                                        absorb=rng.choice([-1, 0, 1, None]))
            return ('svd_truncated', [exactify(u), exactify(vh)] + ([VecOut(s, u.indices[1], True)] if hasattr(s, 'blocks') else []))
        if kind == 'eigh':
            if m.indices[0].chargemap != m.indices[1].chargemap or m.indices[0].dual == m.indices[1].dual or m.charge != refsym.zero(sym):
                # not of Hermitian structure itself: take m @ m^dagger (charge zero, sectors (c, c), square blocks)
                m = m @ m.dagger()
                if not m.blocks or m.charge != refsym.zero(sym):
                    return None
            h = m.copy()
            for s in list(h.blocks):
                if s[0] == s[1]:
                    h.blocks[s] = h.blocks[s] + np.asarray(h.blocks[s]).T
                else:
                    del h.blocks[s]
            w, v = la.eigh(h)
            return ('eigh', [exactify(v), VecOut(w, h.indices[1], False)])
        if kind == 'solve' and not ferm and rng.random() < 0.5:
            # a CHARGED coefficient matrix with square blocks and any directions (the solution's charge is c_b - c_A)
            ab = charged_system(rng, sr, sym)
            if ab is None:
                return None
            a, b = ab
            x = la.solve(a, b)
            return ('solve', [exactify(x)])
        if kind == 'solve':
            # a square system on m's first index: a = m @ m^dagger (charge zero, blocks (c, c)) made regular, b a random vector there
            a = m @ m.dagger()
            if not a.blocks:
                return None
            for s in list(a.blocks):
                a.blocks[s] = np.asarray(a.blocks[s]) + 3.0 * np.eye(np.shape(a.blocks[s])[0])
            b = gen.rand_array(rng, sr, sym, chargemaps=[dict(a.indices[0].chargemap)], duals=[a.indices[0].dual], fermionic=ferm,
                               oddpos=rng.randint(100, 999), maxsize=2)
            for s in list(b.blocks):
                b.blocks[s] = np.asarray(b.blocks[s], dtype='float64')
            x = la.solve(a, b)
            return ('solve', [exactify(x)])
    return None


def charged_system(rng, sr, sym):
    """(a, b): an abelian coefficient matrix with square blocks, any directions and (usually) a non-zero total charge,
    and a right-hand side on its row index whose stored charge meets a stored row of a"""
    d = rng.randint(1, 2)
    cms = [{c: d for c in gen.rand_chargemap(rng, sym, maxcharges=3, maxsize=1)} for _ in range(2)]
    dus = [rng.random() < 0.5, rng.random() < 0.5]
    a = gen.rand_array(rng, sr, sym, chargemaps=cms, duals=dus, keep=1.0, static=False)
    if not a.blocks:
        return None
    for s in list(a.blocks):
        a.blocks[s] = np.asarray(a.blocks[s], dtype='float64') + 3.0 * np.eye(d)
    c0 = rng.choice(list(a.blocks))[0]
    b = gen.rand_array(rng, sr, sym, chargemaps=[dict(cms[0])], duals=[dus[0]], charge=refsym.signed(sym, c0, dus[0]), keep=1.0, static=False)
    for s in list(b.blocks):
        b.blocks[s] = np.asarray(b.blocks[s], dtype='float64')
    return a, b


def classify(m):
    """family of a pinned known finding, decided from the failing step alone"""
    import re
    mm = re.match(r'expand_dims\(c=(.*)\)$', m['op'])
    if mm and m['fermionic']:
        c = eval(mm.group(1))
        if refsym.par(m['symmetry'], c) == 1:
            # the only clause that may fail is the label-count parity: everything else must hold
            r = m['result']
            if (len(r['oddpos']) % 2) != refsym.par(m['symmetry'], tuple(r['charge']) if isinstance(r['charge'], list) else r['charge']):
                return 'fermionic_expand_dims_odd_charge'
    return None


def with_replay(m):
    """the record of a judged array with its `replay` field: a complete, re-executable description of the
    step that returned it (registers + generator state, or the scenario's start array) and of the returned array"""
    out = {k: v for k, v in m.items() if k != '_rp'}
    kind, a, b, y = m['_rp']
    pr = {'symmetry': m['symmetry'], 'fermionic': m['fermionic'], 'op': m['op']}
    if kind == 'step':
        out['replay'] = rl.record('step', {'regs': a['regs'], 'result': y}, {
            **pr, 'out_index': b, 'step_index': a['index'], 'rng': rl.state_json(a['rng']), 'program_rng': rl.state_json(a['program_rng'])})
    elif kind == 'lazy_scenario':
        out['replay'] = rl.record('lazy_scenario', {'x0': a, 'result': y}, {**pr, 'step': b})
    elif kind == 'decomp_scenario':
        out['replay'] = rl.record('decomp_scenario', {'m': a['m'], 'result': y}, {**pr, 'step': b, 'which': a['which'], 'params': a['params'], 'factor': a['factor']})
    elif kind == 'solve_scenario':
        out['replay'] = rl.record('solve_scenario', {'a': a['a'], 'b': a['b'], 'result': y}, {**pr, 'step': b})
    elif kind == 'twin_scenario':
        out['replay'] = rl.record('twin_scenario', {('t%d' % i): d for i, (_, d) in enumerate(a['twins'])} | {'result': y},
                                  {**pr, 'step': b, 'order': [sy for sy, _ in a['twins']], 'group': a['group'], 'which': a['which']})
    else:
        out['replay'] = rl.record('nested_scenario', {'x0': a, 'result': y}, {**pr, 'step': b})
    return out


def run(ctx):
    import symmray as sr
    ok = common.standard_proof_phase(ctx)
    rng = ctx.rng
    n_prog = 500 if ctx.thorough else 90
    exprs, meta, found = [], [], []
    vexprs, vmeta = [], []          # block vectors returned by the decompositions, judged in a cases file of their own
    opstat, raised = {}, {}
    decomp = {}                     # decomposition results judged, by operation (factors, and block vectors separately)
    n_arrays = 0
    for k in range(n_prog):
        sym = SYMS[k % len(SYMS)]
        ferm = (k // len(SYMS)) % 2 == 1 and sym != 'Z4'
        prog_rng = rng.getstate()       # a replay runs the whole program again from this generator state
        regs = [gen.rand_array(rng, sr, sym, ndim=rng.randint(1, 3), fermionic=ferm, oddpos=rng.randint(1, 99), maxsize=2,
                               static=(rng.random() < 0.5 and sym in gen.STATIC))]
        if ferm:
            regs[0] = gen.rand_lazy(rng, sr, regs[0])
        steps = rng.randint(2, 7)
        trace = []
        memo = {}

        def full(y, memo=memo):
            # complete description of a register for the replay files, taken once, before the array is used as an operand
            e = memo.get(id(y))
            if e is None or e[0] is not y:
                e = memo[id(y)] = (y, rl.describe_safe(y))
            return e[1]
        for st in range(steps):
            # what a replay needs to run this very step again: the registers and the generator state random_op draws from
            step = {'rng': rng.getstate(), 'regs': [full(r) for r in regs], 'program_rng': prog_rng, 'index': st}
            try:
                res = random_op(rng, sr, regs, sym, ferm)
            except (ValueError, KeyError, NotImplementedError, TypeError, IndexError, ZeroDivisionError, np.linalg.LinAlgError) as e:
                raised[type(e).__name__] = raised.get(type(e).__name__, 0) + 1
                continue
            if res is None:
                continue
            name, outs = res
            opn = name.split('(')[0].split('[')[0].split(' ')[0]
            opstat[opn] = opstat.get(opn, 0) + 1
            trace.append(name)
            for j, y in enumerate(outs):
                if isinstance(y, VecOut):
                    ctx.count()
                    decomp[opn + ':block_vector'] = decomp.get(opn + ':block_vector', 0) + 1
                    vexprs.append(vec_expr(y, sym))
                    vmeta.append({'op': name, 'symmetry': sym, 'fermionic': ferm, 'program': list(trace), 'result': describe_vec(y),
                                  '_rp': ('step', step, j, y.v)})
                    continue
                if not hasattr(y, 'indices'):
                    continue
                ctx.count()
                n_arrays += 1
                if opn in DECOMPS:
                    decomp[opn] = decomp.get(opn, 0) + 1
                tainted = classify({'op': name, 'fermionic': ferm, 'symmetry': sym, 'result': describe(y)}) is not None
                # the result of a step that hits a pinned finding is judged but not used as input to later steps
                if not tainted and y.ndim <= 5 and sum(int(np.prod(np.shape(b))) for b in y.blocks.values()) < 4000:
                    regs.append(y)
                    if len(regs) > 4:
                        regs.pop(0)
                # values of the pending-sign table must be +-1 (checked here; the keys are judged in Coq)
                if hasattr(y, 'phases') and any(p not in (1, -1) for p in y.phases.values()):
                    found.append({'op': name, 'symmetry': sym, 'fermionic': ferm, 'program': list(trace), 'result': describe(y),
                                  'error': 'pending sign not +-1', '_rp': ('step', step, j, y)})
                try:
                    z = y
                    if any(np.asarray(b).dtype.kind not in 'fc' or np.any(np.asarray(b) != np.round(np.asarray(b))) for b in y.blocks.values()):
                        z = exactify(y)
                    ring = gen.ring_of(z)
                    if ferm:
                        keys = '[' + '; '.join(gen.gsec(s) for s in y.phases) + ']'
                        exprs.append('valid_farray %s %s %s %s' % (sym, ring, gen.gfarray(z, sym, ring), keys))
                    else:
                        exprs.append('valid_array %s %s %s' % (sym, ring, gen.garray(z, sym, ring)))
                    meta.append({'op': name, 'symmetry': sym, 'fermionic': ferm, 'program': list(trace), 'result': describe(y),
                                 '_rp': ('step', step, j, y)})
                except ValueError as e:
                    raised['serialise'] = raised.get('serialise', 0) + 1
            if len(trace) >= 2 and any(ix.subinfo is not None for r in regs for ix in r.indices) or any(
                    len(r.blocks) < len(refsym.valid_sectors(sym, [sorted(ix.chargemap) for ix in r.indices], [ix.dual for ix in r.indices], r.charge))
                    for r in regs if all(ix.subinfo is None for ix in r.indices) and r.ndim <= 3):
                ctx.nontrivial((sym, ferm, tuple(t.split('(')[0].split('[')[0] for t in trace)))
        if k < 3:
            ctx.sample({'symmetry': sym, 'fermionic': ferm, 'program': trace})
        # ---- fixed scenario: nested fusing, then conj / dagger / transpose, then unfusing twice
        try:
            x0 = gen.rand_array(rng, sr, sym, ndim=rng.randint(3, 4), fermionic=ferm, oddpos=rng.randint(1, 99), maxsize=2,
                                keep=rng.choice([1.0, 0.7]))
            x0_full = rl.describe_safe(x0)
            if x0.blocks:
                y1 = x0.fuse((0, 1))
                y2 = y1.fuse((0, 1))
                outs = [('fuse', y1), ('fuse(nested)', y2)]
                for nm, f in (('conj', lambda a: a.conj()), ('dagger', lambda a: a.dagger())):
                    z = f(y2)
                    outs.append((nm + ' of nested', z))
                    ax = [i for i, ix in enumerate(z.indices) if ix.subinfo is not None][0]
                    z1 = z.unfuse(ax)
                    outs.append((nm + ' of nested, unfuse', z1))
                    ax1 = [i for i, ix in enumerate(z1.indices) if ix.subinfo is not None][0]
                    outs.append((nm + ' of nested, unfuse twice', z1.unfuse(ax1)))
                for nm, y in outs:
                    ctx.count()
                    ring = gen.ring_of(y)
                    if ferm:
                        keys = '[' + '; '.join(gen.gsec(sx) for sx in y.phases) + ']'
                        exprs.append('valid_farray %s %s %s %s' % (sym, ring, gen.gfarray(y, sym, ring), keys))
                    else:
                        exprs.append('valid_array %s %s %s' % (sym, ring, gen.garray(y, sym, ring)))
                    meta.append({'op': nm, 'symmetry': sym, 'fermionic': ferm, 'program': ['fuse((0,1))', 'fuse((0,1))', nm], 'result': describe(y),
                                 '_rp': ('nested_scenario', x0_full, nm, y)})
                ctx.nontrivial((sym, ferm, 'nested-scenario', str(sorted(x0.blocks))))
        except (ValueError, KeyError, IndexError) as e:
            raised['scenario:' + type(e).__name__] = raised.get('scenario:' + type(e).__name__, 0) + 1
    # ---- structural operations on fermionic arrays that CARRY pending signs (the sign table has to be re-keyed with the blocks)
    for k in range(n_prog):
        sym = [sy for sy in SYMS if sy != 'Z4'][k % (len(SYMS) - 1)]
        try:
            x0 = gen.rand_lazy(rng, sr, gen.rand_array(rng, sr, sym, ndim=rng.randint(1, 3), fermionic=True, oddpos=rng.randint(1, 99), maxsize=2,
                                                       keep=rng.choice([1.0, 0.7])), steps=rng.randint(1, 3))
            if not x0.blocks or not x0.phases:
                continue
            x0_full = rl.describe_safe(x0)
            ax = rng.randint(0, x0.ndim)
            steps_ = [('expand_dims(%d)' % ax, lambda a: a.expand_dims(ax)),
                      ('expand_dims(%d).squeeze(%d)' % (ax, ax), lambda a: a.expand_dims(ax).squeeze(ax)),
                      ('expand_dims(%d).squeeze()' % ax, lambda a: a.expand_dims(ax).squeeze()),
                      ('transpose()', lambda a: a.transpose()), ('conj()', lambda a: a.conj()), ('dagger()', lambda a: a.dagger())]
            if x0.ndim >= 2:
                steps_ += [('fuse((0, 1))', lambda a: a.fuse((0, 1))), ('fuse((1, 0)).unfuse(0)', lambda a: a.fuse((1, 0)).unfuse(0))]
            for nm, f in steps_:
                try:
                    y = f(x0)
                except (ValueError, KeyError, IndexError) as e:
                    raised['lazy_scenario:' + type(e).__name__] = raised.get('lazy_scenario:' + type(e).__name__, 0) + 1
                    continue
                ctx.count()
                if any(p_ not in (1, -1) for p_ in y.phases.values()):
                    found.append({'error': '%s: a pending sign is not +-1' % nm, 'op': nm, 'symmetry': sym, 'fermionic': True, 'program': [nm],
                                  'result': describe(y), '_rp': ('lazy_scenario', x0_full, nm, y)})
                exprs.append(valid_expr(y, sym, True))
                meta.append({'op': nm, 'symmetry': sym, 'fermionic': True, 'program': ['(array with pending signs) ' + nm], 'result': describe(y),
                             '_rp': ('lazy_scenario', x0_full, nm, y)})
            ctx.nontrivial(('lazy-structural', sym, str(sorted(x0.blocks)), str(sorted(x0.phases))))
        except (ValueError, KeyError, IndexError) as e:
            raised['lazy_scenario:' + type(e).__name__] = raised.get('lazy_scenario:' + type(e).__name__, 0) + 1
    # ---- expand_dims with an explicit (non-zero) charge at every position, direction inherited or given
    for k in range(n_prog):
        sym = SYMS[k % len(SYMS)]
        try:
            x0 = gen.rand_array(rng, sr, sym, ndim=rng.randint(1, 3), maxsize=2, keep=rng.choice([1.0, 0.7]), static=False)
            if not x0.blocks:
                continue
            x0_full = rl.describe_safe(x0)
            cval = rng.choice([c for c in gen.SMALL[sym] if c != refsym.zero(sym)] or [refsym.zero(sym)])
            for ax in range(x0.ndim + 1):
                for dual in (None, True, False):
                    nm = 'expand_dims(%d, c=%r%s)' % (ax, cval, '' if dual is None else ', dual=%r' % dual)
                    try:
                        y = x0.expand_dims(ax, c=cval) if dual is None else x0.expand_dims(ax, c=cval, dual=dual)
                    except (ValueError, KeyError, IndexError) as e:
                        raised['expand_scenario:' + type(e).__name__] = raised.get('expand_scenario:' + type(e).__name__, 0) + 1
                        continue
                    ctx.count()
                    exprs.append(valid_expr(y, sym, False))
                    meta.append({'op': nm, 'symmetry': sym, 'fermionic': False, 'program': [nm], 'result': describe(y),
                                 '_rp': ('lazy_scenario', x0_full, nm, y)})
            ctx.nontrivial(('expand-charged', sym, str(cval), str([ix.dual for ix in x0.indices])))
        except (ValueError, KeyError, IndexError) as e:
            raised['expand_scenario:' + type(e).__name__] = raised.get('expand_scenario:' + type(e).__name__, 0) + 1
    # ---- decompositions of matrices of every kind (any total charge incl. odd, any directions, blocks stored in random order):
    #      every factor is judged (the random programs reach a decomposition only now and then)
    import symmray.linalg as la2
    dstat = {}
    for k in range(n_prog):
        sym = SYMS[k % len(SYMS)]
        ferm = (k // len(SYMS)) % 2 == 1 and sym != 'Z4'
        try:
            m = gen.rand_array(rng, sr, sym, ndim=2, fermionic=ferm, oddpos=rng.randint(1, 99), maxsize=3, keep=rng.choice([1.0, 0.7]))
            if not m.blocks:
                continue
            m = m.copy()
            for sct in list(m.blocks):
                shp = np.shape(m.blocks[sct])
                m.blocks[sct] = np.asarray(m.blocks[sct], dtype='float64') + 0.37 * np.arange(1, int(np.prod(shp)) + 1).reshape(shp) % 1.7
            full = rl.describe_safe(m)
            which = rng.choice(['qr', 'svd', 'svd_truncated', 'svd_truncated'])
            params = {}
            if which == 'qr':
                params = {'stabilized': rng.random() < 0.5}
                outs = list(la2.qr(m, **params))
            elif which == 'svd':
                u, s_, vh = la2.svd(m)
                outs = [u, vh]
            else:
                params = {'cutoff': rng.choice([0.0, 1e-3, 0.3]), 'cutoff_mode': rng.randint(1, 6), 'max_bond': rng.choice([-1, 1, 2, 5]),
                          'absorb': rng.choice([-1, 0, 1, None])}
                u, s_, vh = la2.svd_truncated(m, **params)
                outs = [u, vh]
            dstat[which] = dstat.get(which, 0) + 1
            for j, y in enumerate(outs):
                ctx.count()
                y = exactify(y)
                exprs.append(valid_expr(y, sym, ferm))
                meta.append({'op': '%s (factor %d)' % (which, j), 'symmetry': sym, 'fermionic': ferm, 'program': ['%s(m, %r)' % (which, params)],
                             'result': describe(y), '_rp': ('decomp_scenario', {'m': full, 'which': which, 'params': params, 'factor': j}, which, y)})
            ctx.nontrivial(('decomp', sym, ferm, which, str(m.charge), str(list(m.blocks))))
        except (ValueError, KeyError, IndexError, np.linalg.LinAlgError) as e:
            raised['decomp_scenario:' + type(e).__name__] = raised.get('decomp_scenario:' + type(e).__name__, 0) + 1
    ctx.extra['decomposition_scenarios'] = dstat
    # ---- solve with a charged coefficient matrix (every symmetry, both directions of the column index): the solution is judged
    import symmray.linalg as la_
    for k in range(n_prog // 2):
        sym = SYMS[k % len(SYMS)]
        try:
            ab = charged_system(rng, sr, sym)
            if ab is None:
                continue
            a_, b_ = ab
            full = (rl.describe_safe(a_), rl.describe_safe(b_))
            xs = exactify(la_.solve(a_, b_))
            ctx.count()
            exprs.append(valid_expr(xs, sym, False))
            meta.append({'op': 'solve (charged matrix)', 'symmetry': sym, 'fermionic': False, 'program': ['solve(a, b)'], 'result': describe(xs),
                         '_rp': ('solve_scenario', {'a': full[0], 'b': full[1]}, 'solve', xs)})
            if a_.charge != refsym.zero(sym):
                ctx.nontrivial(('solve-charged', sym, str(a_.charge), str(a_.duals), str(sorted(a_.blocks))))
        except (ValueError, KeyError, IndexError, np.linalg.LinAlgError) as e:
            raised['solve_scenario:' + type(e).__name__] = raised.get('solve_scenario:' + type(e).__name__, 0) + 1
    # ---- twins: the same tables, directions and axis groups under different symmetries, one after the other in this
    #      process (whatever one call leaves behind in a cache must not leak into an array of another symmetry)
    TW = {'Z': ['Z2', 'U1', 'Z4'], 'ZZ': ['Z2Z2', 'U1U1']}
    for k in range(n_prog // 3):
        fam = 'Z' if k % 2 == 0 else 'ZZ'
        nd = rng.randint(2, 3)
        chs = [0, 1] if fam == 'Z' else [(0, 0), (0, 1), (1, 0), (1, 1)]
        cms = [{c: rng.randint(1, 2) for c in rng.sample(chs, rng.randint(2, len(chs)) if fam == 'Z' else rng.randint(2, 3))} for _ in range(nd)]
        dus = [rng.random() < 0.5 for _ in range(nd)]
        g = tuple(rng.sample(range(nd), 2))
        order = list(TW[fam]); rng.shuffle(order)
        twins = []
        try:
            # the U1-type array first; its twins store exactly the same sectors (conservation of the integer charge
            # implies conservation modulo 2 / 4), in the same order, with the reduced total charge
            top = 'U1' if fam == 'Z' else 'U1U1'
            xt = gen.rand_array(rng, sr, top, chargemaps=[dict(c) for c in cms], duals=dus, maxsize=2, keep=rng.choice([1.0, 0.7]), static=False)
            red = {'Z2': lambda q: q % 2, 'Z4': lambda q: q % 4, 'Z2Z2': lambda q: (q[0] % 2, q[1] % 2)}
            for sy in order:
                if sy == top:
                    twins.append((sy, xt))
                else:
                    twins.append((sy, sr.AbelianArray(indices=[sr.BlockIndex(dict(c), dual=d) for c, d in zip(cms, dus)], charge=red[sy](xt.charge),
                                                      blocks={sc: gen.rand_data(rng, np.asarray(b).shape, False, -3, 3) for sc, b in xt.blocks.items()},
                                                      symmetry=sy)))
            fulls = [(sy, rl.describe_safe(x)) for sy, x in twins]
            for i, (sy, x) in enumerate(twins):
                if not x.blocks:
                    continue
                y = x.fuse(g)
                outs = [('fuse%r (twin %d of %s)' % (g, i, '/'.join(order)), y)]
                outs.append(('fuse then unfuse (twin %d of %s)' % (i, '/'.join(order)), y.unfuse(min(g))))
                for nm, z in outs:
                    ctx.count()
                    exprs.append(valid_expr(z, sy, False))
                    meta.append({'op': nm, 'symmetry': sy, 'fermionic': False, 'program': ['(twins %s) fuse(%r)' % ('/'.join(order), g)],
                                 'result': describe(z), '_rp': ('twin_scenario', {'twins': fulls, 'group': list(g), 'which': i}, nm, z)})
            ctx.nontrivial(('twins', fam, str(cms), str(dus), g))
        except (ValueError, KeyError, IndexError) as e:
            raised['twins:' + type(e).__name__] = raised.get('twins:' + type(e).__name__, 0) + 1
    bad_idx = common.run_cases(ctx, 'valid', IMPORTS, '', exprs, shard=60)
    tie_broken = []
    if bad_idx is None:
        tie_broken.append('cases.v (valid_array on implementation results) did not evaluate')
    else:
        kf = [f for f in common.load_known_findings().get('findings', []) if f.get('property') == 'C01']
        nviol = 0
        for i in bad_idx:
            fam = classify(meta[i])
            ent = next((f for f in kf if f.get('family') == fam), None) if fam else None
            if ent is not None:
                line = 'KNOWN-FINDING: property=C01 %s %s' % (ent['id'], ent['what'])
                if line not in ctx.known:
                    ctx.known.append(line)
                continue
            if nviol < 5:
                ctx.violation('%s returns an invalid array' % meta[i]['op'],
                              {'oracle': 'Coq Model.Valid.valid_array / valid_farray on the returned array', **with_replay(meta[i]), 'run': rl.run_info(ctx)})
            nviol += 1
        bad_idx = [i for i in bad_idx if not (classify(meta[i]) and any(f.get('family') == classify(meta[i]) for f in kf))]
    vbad = common.run_cases(ctx, 'bvec', IMPORTS, '', vexprs, shard=60)
    if vbad is None:
        tie_broken.append('cases.v (block vectors returned by the decompositions) did not evaluate')
        vbad = []
    for i in vbad[:3]:
        ctx.violation('%s returns an invalid block vector' % vmeta[i]['op'],
                      {'oracle': 'Coq: keys distinct valid charges of the bond index, block lengths = its sizes', **with_replay(vmeta[i]),
                       'run': rl.run_info(ctx)})
    for f in found[:3]:
        ctx.violation(f['error'], {**with_replay(f), 'run': rl.run_info(ctx)})
    ctx.broken += tie_broken
    if (not ok or tie_broken) and not (bad_idx or found or vbad):
        ctx.violation('proof obligation or tie of C01 no longer checks',
                      {'broken': ctx.broken, 'replay': rl.record('proof_phase')}, found_input=False)
    ctx.extra['operations_run'] = opstat
    ctx.extra['steps_that_raised'] = raised
    ctx.extra['arrays_judged'] = len(exprs)
    ctx.extra['decomposition_results_judged'] = {'total': sum(decomp.values()), **dict(sorted(decomp.items()))}
    ctx.coverage['rule'] = ('random programs (2-7 steps over a register file; five symmetries incl. Z4; static and dynamic classes; abelian and '
                            'fermionic with pending signs) of public operations; every returned array judged by the Coq validity predicate; '
                            'non-trivial = program of >=2 steps with a sparse or fused array in a register; distinct by (symmetry, kind, op sequence)')


# ------------------------------------------------------------------ replay
def valid_expr(y, sym, ferm):
    """the Gallina term run() judges a returned array (or block vector of a decomposition) by"""
    if isinstance(y, VecOut):
        return vec_expr(y, sym)
    z = y
    if any(np.asarray(b).dtype.kind not in 'fc' or np.any(np.asarray(b) != np.round(np.asarray(b))) for b in y.blocks.values()):
        z = exactify(y)
    ring = gen.ring_of(z)
    if ferm:
        keys = '[' + '; '.join(gen.gsec(s) for s in y.phases) + ']'
        return 'valid_farray %s %s %s %s' % (sym, ring, gen.gfarray(z, sym, ring), keys)
    return 'valid_array %s %s %s' % (sym, ring, gen.garray(z, sym, ring))


def coq_valid(arrays, sym, ferm):
    """Model.Valid.valid_array / valid_farray (vm_compute through common.run_cases) on each array:
    list of True / False / an error string (not serialisable, or the cases file did not evaluate)"""
    exprs, pos, out = [], [], [None] * len(arrays)
    for i, y in enumerate(arrays):
        try:
            exprs.append(valid_expr(y, sym, ferm)); pos.append(i)
        except Exception as e:
            out[i] = 'cannot be written down for the predicate: %s: %s' % (type(e).__name__, e)
    ctx = rl.DryCtx('C01')
    bad = common.run_cases(ctx, 'replay', IMPORTS, '', exprs, shard=60)
    for k, i in enumerate(pos):
        out[i] = ('the cases file did not evaluate: %s' % str(ctx.extra.get('cases_errors'))[:600]) if bad is None else (k not in bad)
    return out


def rerun_program(sr, rng, sym, ferm, upto):
    """the program loop of run() again (same draws from the same generator state, same register-file
    rules), up to and including step `upto`: every array returned, as (step, operation, output index, array)"""
    regs = [gen.rand_array(rng, sr, sym, ndim=rng.randint(1, 3), fermionic=ferm, oddpos=rng.randint(1, 99), maxsize=2,
                           static=(rng.random() < 0.5 and sym in gen.STATIC))]
    if ferm:
        regs[0] = gen.rand_lazy(rng, sr, regs[0])
    start = regs[0]
    steps = rng.randint(2, 7)
    returned = []
    for st in range(min(steps, upto + 1)):
        try:
            res = random_op(rng, sr, regs, sym, ferm)
        except (ValueError, KeyError, NotImplementedError, TypeError, IndexError, ZeroDivisionError, np.linalg.LinAlgError) as e:
            returned.append((st, 'raises %s' % type(e).__name__, None, None))
            continue
        if res is None:
            continue
        name, outs = res
        for j, y in enumerate(outs):
            if isinstance(y, VecOut):
                returned.append((st, name, j, y))
                continue
            if not hasattr(y, 'indices'):
                continue
            tainted = classify({'op': name, 'fermionic': ferm, 'symmetry': sym, 'result': describe(y)}) is not None
            if not tainted and y.ndim <= 5 and sum(int(np.prod(np.shape(b))) for b in y.blocks.values()) < 4000:
                regs.append(y)
                if len(regs) > 4:
                    regs.pop(0)
            returned.append((st, name, j, y))
    return start, returned


def _known(m):
    fam = classify(m)
    return fam is not None and any(f.get('family') == fam for f in common.load_known_findings().get('findings', []) if f.get('property') == 'C01')


def _invalid(y, verdict, what):
    fails = []
    if hasattr(y, 'phases') and any(p not in (1, -1) for p in y.phases.values()):
        fails.append({'what': '%s: a pending sign is not +-1' % what, 'expected': '+-1', 'got': {str(k): v for k, v in y.phases.items()}})
    if verdict is not True:
        fails.append({'what': '%s returns an invalid %s' % (what, 'block vector' if isinstance(y, VecOut) else 'array'),
                      'expected': ('keys = distinct valid charges of the bond index, block lengths = its sizes' if isinstance(y, VecOut)
                                   else 'Model.Valid.valid_(f)array = true'),
                      'got': ('false on %s' % json.dumps(describe_vec(y) if isinstance(y, VecOut) else describe(y), default=str))
                      if verdict is False else verdict})
    return fails


def _rp_step(sr, ins, pr, r):
    """(a) the recorded program again from its generator state, every returned array judged (decides);
    (b) for information, the recorded step alone on the recorded registers, and the recorded result"""
    sym, ferm = pr['symmetry'], pr['fermionic']
    fails = []
    if 'program_rng' in pr:
        start, returned = rerun_program(sr, rl.rng_from_state(pr['program_rng']), sym, ferm, pr['step_index'])
        print('  program run again from %s' % rl.short(rl.describe_safe(start)))
        arrays = [y for _, _, _, y in returned if y is not None]
        verdicts = iter(coq_valid(arrays, sym, ferm))
        for st, name, j, y in returned:
            if y is None:
                print('    step %d: %s' % (st, name))
                continue
            v = next(verdicts)
            known = (not isinstance(y, VecOut)) and _known({'op': name, 'fermionic': ferm, 'symmetry': sym, 'result': describe(y)})
            print('    step %d: %s -> output %d: %s%s' % (st, name, j, 'valid' if v is True else ('INVALID' if v is False else v),
                                                       ' (pinned known finding, not counted)' if known and v is not True else ''))
            if not known:
                fails += _invalid(y, v, 'step %d (%s), output %d' % (st, name, j))
    # the step on its own
    try:
        res = random_op(rl.rng_from_state(pr['rng']), sr, ins['regs'], sym, ferm)
    except (ValueError, KeyError, NotImplementedError, TypeError, IndexError, ZeroDivisionError, np.linalg.LinAlgError) as e:
        res = None
        print('  the recorded step alone on the recorded registers raises now (%s: %s)' % (type(e).__name__, e))
    alone = None
    if res is not None and pr['out_index'] < len(res[1]) and hasattr(res[1][pr['out_index']], 'indices'):
        alone = res[1][pr['out_index']]
    reg_ok = coq_valid(list(ins['regs']) + [ins['result']] + ([alone] if alone is not None else []), sym, ferm)
    nreg = len(ins['regs'])
    print('  recorded registers valid: %s; recorded result valid: %s' % (
        reg_ok[:nreg], reg_ok[nreg] if hasattr(ins['result'], 'indices') else '(a block vector: judged with its bond index in the program run above)'))
    if alone is not None:
        print('  the recorded step alone (%s) on the recorded registers returns a%s array' % (res[0], ' valid' if reg_ok[-1] is True else 'n INVALID'))
        if 'program_rng' not in pr:
            fails += _invalid(alone, reg_ok[-1], res[0])
    return fails


def _rp_nested(sr, ins, pr, r):
    """the fixed scenario: fuse twice (nested), conj / dagger, unfuse twice"""
    x0 = ins['x0']
    try:
        y1 = x0.fuse((0, 1))
        y2 = y1.fuse((0, 1))
        outs = [('fuse', y1), ('fuse(nested)', y2)]
        for nm, f in (('conj', lambda a: a.conj()), ('dagger', lambda a: a.dagger())):
            if pr['step'] in dict(outs):
                break
            z = f(y2)
            outs.append((nm + ' of nested', z))
            ax = [i for i, ix in enumerate(z.indices) if ix.subinfo is not None][0]
            z1 = z.unfuse(ax)
            outs.append((nm + ' of nested, unfuse', z1))
            ax1 = [i for i, ix in enumerate(z1.indices) if ix.subinfo is not None][0]
            outs.append((nm + ' of nested, unfuse twice', z1.unfuse(ax1)))
    except (ValueError, KeyError, IndexError) as e:
        print('  the scenario raises now (%s: %s): no array is returned' % (type(e).__name__, e))
        return []
    y = dict(outs)[pr['step']]
    now, rec = coq_valid([y, ins['result']], pr['symmetry'], pr['fermionic'])
    print('  Coq validity predicate on the array returned now: %s; on the recorded array: %s' % (now, rec))
    return _invalid(y, now, 'x0.fuse((0,1)).fuse((0,1)) ... ' + pr['step'])


def _rp_twin(sr, ins, pr, r):
    """the twins scenario: the same fuse on arrays of different symmetries with identical tables, in the recorded order"""
    g = tuple(pr['group'])
    y = None
    try:
        for i in range(len(pr['order'])):
            x = ins['t%d' % i]
            if not x.blocks:
                continue
            f = x.fuse(g)
            u = f.unfuse(min(g))
            if i == pr['which']:
                y = f if pr['step'].startswith('fuse(') else u
                break
    except (ValueError, KeyError, IndexError) as e:
        print('  the scenario raises now (%s: %s): no array is returned' % (type(e).__name__, e))
        return []
    if y is None:
        return []
    now, rec = coq_valid([y, ins['result']], pr['symmetry'], False)
    print('  Coq validity predicate on the array returned now: %s; on the recorded array: %s' % (now, rec))
    return _invalid(y, now, 'twins %s: fuse(%r) ... %s' % ('/'.join(pr['order']), g, pr['step']))


def _rp_solve(sr, ins, pr, r):
    import symmray.linalg as la
    try:
        y = exactify(la.solve(ins['a'], ins['b']))
    except Exception as e:
        print('  solve raises now (%s: %s): no array is returned' % (type(e).__name__, e))
        return []
    now, rec = coq_valid([y, ins['result']], pr['symmetry'], False)
    print('  Coq validity predicate on the array returned now: %s; on the recorded array: %s' % (now, rec))
    return _invalid(y, now, 'solve(a, b) with a charged coefficient matrix')


def _rp_decomp(sr, ins, pr, r):
    import symmray.linalg as la
    m, which, params = ins['m'], pr['which'], pr['params']
    try:
        if which == 'qr':
            outs = list(la.qr(m, **params))
        elif which == 'svd':
            u, s_, vh = la.svd(m); outs = [u, vh]
        else:
            u, s_, vh = la.svd_truncated(m, **params); outs = [u, vh]
    except Exception as e:
        print('  the decomposition raises now (%s: %s): no array is returned' % (type(e).__name__, e))
        return []
    y = exactify(outs[pr['factor']])
    now, rec = coq_valid([y, ins['result']], pr['symmetry'], pr['fermionic'])
    print('  Coq validity predicate on the factor returned now: %s; on the recorded factor: %s' % (now, rec))
    return _invalid(y, now, '%s(m, %r) factor %d' % (which, params, pr['factor']))


def _rp_lazy(sr, ins, pr, r):
    """a structural operation written as Python text in pr['step'], applied to the recorded array with pending signs"""
    x0 = ins['x0']
    try:
        y = eval('x0.' + pr['step'], {'x0': x0})
    except Exception as e:
        print('  the operation raises now (%s: %s): no array is returned' % (type(e).__name__, e))
        return []
    now, rec = coq_valid([y, ins['result']], pr['symmetry'], pr['fermionic'])
    print('  Coq validity predicate on the array returned now: %s; on the recorded array: %s' % (now, rec))
    return _invalid(y, now, 'x0.' + pr['step'])


ORACLES = {'step': _rp_step, 'nested_scenario': _rp_nested, 'twin_scenario': _rp_twin, 'solve_scenario': _rp_solve, 'decomp_scenario': _rp_decomp,
           'lazy_scenario': _rp_lazy}


def replay(path):
    """re-run the recorded failing case against $SYMMRAY_REPO: 1 = still fails, 0 = passes now"""
    import sys
    return rl.dispatch(path, 'C01', ORACLES, sys.modules[__name__])
