"""Tie of Model/FuseConcat.v (`fuse_concat`, the model of `_fuse_blocks_via_concat`)
to the implementation: `x.fuse(*groups, mode="concat")` is evaluated by the working
tree and compared inside Coq (vm_compute) with `fuse_concat x groups` — indices
(incl. sub-index tables), charge, the dict of blocks AND its insertion order.

    tie(ctx, sr, cases) -> list of broken-tie strings
        cases = [(sym, x, groups), ...]   (groups: non-empty tuples of axes; cases whose
        array stores no block are skipped: the implementation has no example block)

    tie_concat.found  -> after tie(): concrete failing inputs (dicts for ctx.violation): inputs on
        which fuse(mode="concat") raised, or returned something that an implementation-only
        oracle (own element relocation over the result's own extent tables; no Coq, no library
        fuse code) rejects

    python harness/tie_concat.py [n_cases] [seed]
        standalone self-test: generates its own cases with gen.rand_array, runs the tie,
        prints the case classes reached and every disagreement; exit status 1 on any.

Intended use in harness/c05.py: collect `(sym, x, groups)` in the main loop and call
`tie_concat.tie(ctx, sr, concat_cases)` next to `tie_prims.tie(ctx)`.
"""
import os
import sys

sys.path.insert(0, os.path.dirname(os.path.abspath(__file__)))
import numpy as np  # noqa: E402

import common  # noqa: E402
import gen  # noqa: E402
import refsym  # noqa: E402

IMPORTS = ('From SV Require Import Base.Sym Base.Tensor Model.SymInst Model.Sectors Model.Array '
           'Model.FuseConcat.\n')
PREAMBLE = '''Definition concat_agrees (G : Symmetry) (R : Ring) (m y : aarray G R) : bool :=
  aarray_eqb G R m y && blocks_eqb_strict G R (blocks G R m) (blocks G R y).
'''
SYMS = ['Z2', 'U1', 'Z2Z2', 'U1U1', 'Z4']


def classify(x, y, groups):
    """case classes, measured on the implementation's own result tables"""
    position = min(min(g) for g in groups)
    cls = {'singlet_group': any(len(g) == 1 for g in groups),
           'multi_group': len(groups) > 1,
           'several_fused_groups': sum(len(g) > 1 for g in groups) > 1,
           'nested': any(ix.subinfo is not None for ix in x.indices),
           'position_not_first_group': min(groups[0]) != position,
           'missing_leaf': False, 'merged_blocks': len(y.blocks) < len(x.blocks)}
    grouped = {ax for g in groups for ax in g}
    before = [ax for ax in range(position) if ax not in grouped]
    try:
        for ns in y.blocks:
            per_group = []
            for k, g in enumerate(groups):
                c = ns[len(before) + k]
                if len(g) == 1:
                    per_group.append([(c,)])
                else:
                    per_group.append(list(y.indices[len(before) + k].subinfo.extents[c]))
            n_leaves = 1
            for p in per_group:
                n_leaves *= len(p)
            n_have = 0
            for s in x.blocks:
                subs = tuple(tuple(s[a] for a in g) for g in groups)
                if all(subs[k] in per_group[k] for k in range(len(groups))):
                    # same fused sector iff also the untouched charges agree
                    rest = [s[a] for a in range(x.ndim) if a not in grouped]
                    nrest = list(ns[:len(before)]) + list(ns[len(before) + len(groups):])
                    if rest == nrest:
                        n_have += 1
            if n_have < n_leaves:
                cls['missing_leaf'] = True
    except Exception:
        pass
    return cls


found = []      # concrete failing inputs met by the last tie() runs (dicts, ready for ctx.violation)


def describe(x):
    return {'class': type(x).__name__, 'charge': x.charge,
            'indices': [([list(kv) for kv in ix.chargemap.items()], ix.dual, ix.subinfo is not None) for ix in x.indices],
            'blocks': {str(k): np.asarray(v).tolist() for k, v in x.blocks.items()}}


def oracle(sym, x, y, groups):
    """Implementation-only check of a fused result, independent of the library's fuse code and of
    the Coq model: rebuild every fused block from x by element relocation (own charge arithmetic,
    offsets accumulated over y's OWN extent tables) and compare with y.blocks exactly."""
    grouped = {ax for g in groups for ax in g}
    position = min(min(g) for g in groups)
    before = [ax for ax in range(position) if ax not in grouped]
    after = [ax for ax in range(position, x.ndim) if ax not in grouped]
    perm = before + [a for g in groups for a in g] + after
    if y.ndim != len(before) + len(groups) + len(after):
        return 'rank %d, expected %d' % (y.ndim, len(before) + len(groups) + len(after))
    want = {}
    for s, blk in x.blocks.items():
        blk = np.asarray(blk)
        ns, sel, shp = [], [], []
        for ax in before:
            ns.append(s[ax]); sel.append(slice(None)); shp.append(blk.shape[ax])
        for k, g in enumerate(groups):
            d = int(np.prod([blk.shape[a] for a in g]))
            shp.append(d)
            if len(g) == 1:
                ns.append(s[g[0]]); sel.append(slice(None))
                continue
            c = refsym.csum(sym, [refsym.signed(sym, s[a], x.indices[a].dual != x.indices[g[0]].dual) for a in g])
            ns.append(c)
            fi = y.indices[position + k]
            ext = fi.subinfo.extents.get(c) if fi.subinfo is not None else None
            ss = tuple(s[a] for a in g)
            if ext is None or ss not in ext or ext[ss] != d:
                return 'sub-sector %r of fused charge %r is not recorded with its size %d' % (ss, c, d)
            start = 0
            for k2, d2 in ext.items():
                if k2 == ss:
                    break
                start += d2
            sel.append(slice(start, start + d))
        for ax in after:
            ns.append(s[ax]); sel.append(slice(None)); shp.append(blk.shape[ax])
        ns = tuple(ns)
        if ns not in want:
            try:
                want[ns] = np.zeros([ix.chargemap[c] for ix, c in zip(y.indices, ns)], dtype=blk.dtype)
            except KeyError:
                return 'fused sector %r uses a charge absent from the fused index tables' % (ns,)
        tgt = want[ns][tuple(sel)]
        piece = np.transpose(blk, perm).reshape(shp)
        if tgt.shape != piece.shape:
            return 'sub-block of %r does not fit the range its sub-index table assigns' % (s,)
        want[ns][tuple(sel)] = piece
    if set(y.blocks) != set(want):
        return 'fused sectors %r, expected %r' % (sorted(y.blocks), sorted(want))
    for ns, w in want.items():
        got = np.asarray(y.blocks[ns])
        if got.shape != w.shape or not np.array_equal(got, w):
            return 'fused block %r differs from the relocated sub-blocks (zero elsewhere)' % (ns,)
    return None


def tie(ctx, sr, cases, name='concat', shard=40, stats=None, extra=None):
    exprs, meta, broken = [], [], []
    del found[:]
    stats = stats if stats is not None else {}
    if extra is None:
        extra = 150 if ctx.thorough else 40
    # the generator of the caller rarely reaches a missing leaf (needs >= 2 multi-axis groups on a
    # sparse array): add cases of that regime, drawn from the same rng
    cases = list(cases) + hard_cases(ctx.rng, sr, extra)
    for sym, x, groups in cases:
        groups = [tuple(g) for g in groups if len(g)]
        if not groups or not x.blocks:
            continue
        try:
            y = x.fuse(*groups, mode='concat')
        except Exception as e:
            broken.append('fuse(mode="concat") raised %s: %s where Model.FuseConcat.fuse_concat returns a value '
                          '(symmetry %s, groups %s, sectors %s)' % (type(e).__name__, e, sym, groups, sorted(x.blocks)))
            found.append({'op': 'fuse(mode="concat")', 'symmetry': sym, 'x': describe(x), 'groups': groups,
                          'raised': '%s: %s' % (type(e).__name__, e)})
            continue
        try:
            bad_y = oracle(sym, x, y, groups)
        except Exception as e:
            bad_y = 'result tables unusable: %s: %s' % (type(e).__name__, e)
        if bad_y:
            found.append({'op': 'fuse(mode="concat")', 'symmetry': sym, 'x': describe(x), 'groups': groups, 'error': bad_y})
        try:
            ring = gen.ring_of(x, y)
            A = '%s %s' % (sym, ring)
            X = gen.garray(x, sym, ring)
            Y = gen.garray(y, sym, ring)
        except Exception as e:
            broken.append('result of fuse(mode="concat") cannot be serialised: %s' % e)
            continue
        gl = '[' + '; '.join(gen.gnatlist(g) for g in groups) + ']'
        exprs.append('concat_agrees %s (fuse_concat %s %s %s) %s' % (A, A, X, gl, Y))
        meta.append((sym, str(groups), str(list(x.blocks))))
        for k, v in classify(x, y, groups).items():
            stats[k] = stats.get(k, 0) + bool(v)
    ctx.count(len(exprs))
    stats['cases'] = stats.get('cases', 0) + len(exprs)
    bad = common.run_cases(ctx, name, IMPORTS, PREAMBLE, exprs, shard=shard)
    if bad is None:
        broken.append('cases.v (Model.FuseConcat.fuse_concat vs fuse(mode="concat")) did not evaluate')
    else:
        broken += ['Model.FuseConcat.fuse_concat disagrees with fuse(mode="concat") (symmetry %s, groups %s, stored sectors %s)' % meta[i]
                   for i in bad[:10]]
        stats['disagreements'] = stats.get('disagreements', 0) + len(bad)
        if bad:
            ctx.extra['concat_disagreeing_cases'] = [exprs[i][:3000] for i in bad[:2]]
    ctx.extra['tie_concat'] = {'model_cases': stats['cases'], 'oracle_failures': len(found),
                               'case_classes': {k: v for k, v in stats.items() if k != 'cases'}}
    return broken


# ------------------------------------------------------------------ standalone self-test
def rand_groups(rng, nd):
    axes = list(range(nd))
    rng.shuffle(axes)
    ng = rng.choice([1, 1, 2, 2, 3]) if nd >= 2 else 1
    groups, pos = [], 0
    for _ in range(ng):
        if pos >= nd:
            break
        k = rng.randint(1, max(1, min(3, nd - pos)))
        groups.append(tuple(axes[pos:pos + k]))
        pos += k
    return groups


def rand_groups_two_fused(rng, nd):
    """at least two multi-axis groups (the regime in which a leaf of the recursion can be
    missing), optionally a single-axis group between / around them and untouched axes"""
    axes = list(range(nd))
    rng.shuffle(axes)
    sizes = [2, 2]
    left = nd - 4
    while left > 0 and rng.random() < 0.7:
        if rng.random() < 0.5:
            sizes.insert(rng.randint(0, len(sizes)), 1)      # a singlet group anywhere
        else:
            sizes[rng.randrange(len(sizes))] += 1
        left -= 1
    groups, pos = [], 0
    for k in sizes:
        groups.append(tuple(axes[pos:pos + k]))
        pos += k
    return groups


def hard_cases(rng, sr, n):
    """sparse arrays of rank 4-5 fused into >= 2 multi-axis groups (+ singlet groups)"""
    cases, k = [], 0
    while len(cases) < n:
        sym = SYMS[k % len(SYMS)]
        k += 1
        nd = rng.choice([4, 4, 5])
        # well-populated tables (2-3 charges on every axis), so that blocks merge and leaves go missing
        pool = gen.SMALL[sym] if sym != 'U1' else [-1, 0, 1]
        ncs = [min(len(pool), 2 if nd == 5 else rng.choice([2, 2, 3])) for _ in range(nd)]
        cms = [{c: rng.randint(1, 2) for c in rng.sample(pool, m)} for m in ncs]
        x = gen.rand_array(rng, sr, sym, chargemaps=cms, cplx=rng.random() < 0.2,
                           keep=rng.choice([0.9, 0.7, 0.5, 0.5, 0.3]))
        if len(x.blocks) < 2:
            continue
        if nd == 5 and rng.random() < 0.3:
            a0, a1 = sorted(rng.sample(range(nd), 2))
            try:
                x = x.fuse((a0, a1))
            except Exception as e:      # the preparatory fuse itself fails: a finding with its input, not a crash of the check
                found.append({'op': 'fuse', 'symmetry': sym, 'x': {'indices': [(sorted(ix.chargemap.items()), ix.dual) for ix in x.indices],
                              'sectors': [list(sc) for sc in x.blocks]}, 'groups': [[a0, a1]], 'raised': '%s: %s' % (type(e).__name__, e)})
                continue
        cases.append((sym, x, rand_groups_two_fused(rng, x.ndim)))
    return cases


def make_cases(rng, sr, n):
    cases = []
    k = 0
    while len(cases) < n:
        sym = SYMS[k % len(SYMS)]
        k += 1
        nd = rng.randint(2, 4)
        x = gen.rand_array(rng, sr, sym, ndim=nd, cplx=rng.random() < 0.25, maxsize=2 if nd == 4 else 3,
                           keep=rng.choice([1.0, 0.8, 0.6, 0.5, 0.3]))
        if not x.blocks:
            continue
        if rng.random() < 0.2 and nd >= 3:
            a0, a1 = sorted(rng.sample(range(nd), 2))
            try:
                x = x.fuse((a0, a1))
            except Exception as e:
                found.append({'op': 'fuse', 'symmetry': sym, 'x': {'indices': [(sorted(ix.chargemap.items()), ix.dual) for ix in x.indices],
                              'sectors': [list(sc) for sc in x.blocks]}, 'groups': [[a0, a1]], 'raised': '%s: %s' % (type(e).__name__, e)})
                continue
        cases.append((sym, x, rand_groups(rng, x.ndim)))
    return cases


def main(argv):
    n = int(argv[1]) if len(argv) > 1 else 320
    seed = int(argv[2]) if len(argv) > 2 else 0
    os.environ.setdefault('PYTHONHASHSEED', '0')
    sys.path.insert(0, common.REPO)
    import symmray as sr
    ctx = common.Ctx('C05', 'quick', seed)
    ctx.rng.seed(seed * 7919 + 5)
    stats = {}
    cases = make_cases(ctx.rng, sr, n - n // 3)
    broken = tie(ctx, sr, cases, name='concat_selftest', stats=stats, extra=n // 3)
    print('tie_concat self-test: implementation %s' % os.path.dirname(sr.__file__))
    print('cases compared: %d   classes: %s' % (stats.get('cases', 0), {k: v for k, v in sorted(stats.items()) if k != 'cases'}))
    for b in broken:
        print('BROKEN-TIE: ' + b)
    for f in found[:5]:
        print('FAILING-INPUT: symmetry %s groups %s sectors %s: %s' % (
            f['symmetry'], f['groups'], list(f['x']['blocks']), f.get('error') or f.get('raised')))
    print('oracle (own element relocation) failures: %d' % len(found))
    for e in ctx.extra.get('cases_errors', []):
        print('CASES-ERROR: ' + e)
    print('result: %s' % ('%d disagreement(s)' % len(broken) if broken else 'model and implementation agree on all cases'))
    return 1 if (broken or found) else 0


if __name__ == '__main__':
    sys.exit(main(sys.argv))
