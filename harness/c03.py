"""C03 — fermionic operations follow graded (Grassmann) tensor semantics."""
import itertools
import json

import numpy as np

import common
import gen
import refsym
import replaylib as rl

IMPORTS = ('From SV Require Import Base.Sym Base.Tensor Gen.PhasePerm Model.SymInst Model.Sectors Model.Array Model.Arith Model.Fermi.\n')
SYMS = ['Z2', 'U1', 'Z2Z2', 'U1U1']
MODES = {'auto': 'MAuto', 'fused': 'MFused', 'blockwise': 'MBlockwise'}

# ---- translator tie of the contraction front end (Gen/FtdotGen.v, tr/gen_ftdot.py: tensordot_fermionic and
# FermionicArray.__matmul__ translated from the current source): own imports and own shards, so that the hand-model
# cases keep evaluating when the generated file is missing.  The generated functions are instantiated with the hand
# model's records (index G, tensor R), its block movement a_transpose and its block-by-block abelian contraction. ----
IMPORTS_GEN = ('From SV Require Import Base.Sym Base.Tensor Gen.PhasePerm Gen.OpOrder Gen.PhasesGen Gen.OddposGen Gen.FtdotGen '
               'Model.SymInst Model.Sectors Model.Array Model.Arith.\n')
GEN_PRE = '''Definition ft_ixsz (G : Symmetry) (ix : index G) : Z := Z.of_nat (size_total G ix).
Definition ft_amove (G : Symmetry) (R : Ring) (ix : list (index G)) (bl : list (list (C G) * tensor R)) (axes : list Z) :=
  let y := a_transpose G R (mkA G R ix (ident G) bl) (map Z.to_nat axes) in (indices G R y, blocks G R y).
Definition ft_arr (G : Symmetry) (R : Ring) (r : list (index G) * C G * list (list (C G) * tensor R)) : aarray G R :=
  let '(ix, ch, bl) := r in mkA G R ix ch bl.
Definition ft_tri (G : Symmetry) (R : Ring) (x : aarray G R) := (indices G R x, charge G R x, blocks G R x).
Definition ft_atd (G : Symmetry) (R : Ring) x y (xa xb : list Z) :=
  option_map (ft_tri G R) (a_tensordot G R (ft_arr G R x) (ft_arr G R y) (inr (xa, xb)) MBlockwise).
Definition ft_amm (G : Symmetry) (R : Ring) x y := option_map (ft_tri G R) (a_matmul G R (ft_arr G R x) (ft_arr G R y)).
Definition ft_td (G : Symmetry) (R : Ring) :=
  tensordot_fermionic_gen G (tensor R) (tneg R) (index G) (idual G) (ft_ixsz G) (dflt_index G) (ft_amove G R) (ft_atd G R).
Definition ft_mm (G : Symmetry) (R : Ring) :=
  matmul_fermionic_gen G (tensor R) (tneg R) (index G) (idual G) (dflt_index G) (ft_amm G R).
Definition tbl_eqb (G : Symmetry) := list_eqb (pair_eqb (list_eqb (ceqb G)) Z.eqb).
Definition ft_same (G : Symmetry) (R : Ring)
  (r : ft_result (list (index G) * C G * list (list (C G) * tensor R) * list (list (C G) * Z) * list op) (tensor R))
  (y : aarray G R) (ph : list (list (C G) * Z)) (odd : list op) : bool :=
  match r with
  | FtArray s => list_eqb (index_eqb G) (st_indices s) (indices G R y) && ceqb G (st_charge s) (charge G R y)
                 && blocks_eqb_strict G R (st_blocks s) (blocks G R y) && tbl_eqb G (st_phases s) ph
                 && list_eqb op_eq (st_oddpos s) odd
  | _ => false
  end.
Definition ft_same_scalar (G : Symmetry) (R : Ring)
  (r : ft_result (list (index G) * C G * list (list (C G) * tensor R) * list (list (C G) * Z) * list op) (tensor R))
  (v : option (tensor R)) : bool :=
  match r, v with FtScalar t, Some u => tensor_eqb R t u | FtZero, None => true | _, _ => false end.
'''


def gtable(ph):
    """the pending-sign dict as it is: every item, in insertion order"""
    return '[' + '; '.join('(%s, %s)' % (gen.gsec(s), gen.gnum(int(v))) for s, v in ph.items()) + ']'


def gstate(x, sym, ring):
    """the state (indices, charge, blocks, sign table, labels) of a FermionicArray"""
    return '(%s, %s, %s, %s, %s)' % (
        '[' + '; '.join(gen.gindex(ix, sym) for ix in x.indices) + ']', gen.gch(x.charge),
        '[' + '; '.join('(%s, %s)' % (gen.gsec(s), gen.gtensor(b, ring)) for s, b in x.blocks.items()) + ']',
        gtable(x.phases), gen.goddpos(x.oddpos))


def gsame(sym, ring, call, y):
    """the generated front end's whole result against the array the implementation returned: index tables, charge, blocks
    (values and order), the sign table (items and order), the labels"""
    return 'ft_same %s %s (%s) %s %s %s' % (sym, ring, call, gen.garray(y, sym, ring), gtable(y.phases), gen.goddpos(y.oddpos))


def gscalar(sym, ring, call, v):
    """the scalar return path: the literal 0.0 (no block stored) or the block of the empty sector"""
    want = 'None' if type(v) is float else '(Some %s)' % gen.gtensor(np.asarray(v), ring)
    return 'ft_same_scalar %s %s (%s) %s' % (sym, ring, call, want)


def gaxes_int(k):
    return '(inl %s)' % gen.gnum(k)


def describe(x):
    return {'class': type(x).__name__, 'charge': x.charge, 'oddpos': [repr(o) for o in x.oddpos],
            'indices': [([list(kv) for kv in ix.chargemap.items()], ix.dual) for ix in x.indices],
            'phases': [str(s) for s, p in x.phases.items() if p == -1],
            'blocks': {str(k): np.asarray(v).tolist() for k, v in x.blocks.items()}}


def pars(sym, s):
    return [refsym.par(sym, c) for c in s]


def embed(indices, sector, blk, out):
    sl = []
    for ix, c in zip(indices, sector):
        lay, _ = gen.index_layout(ix)
        o, d = lay[c]
        sl.append(slice(o, o + d))
    out[tuple(sl)] += blk


def ref_transpose(sym, x, perm):
    """dense graded transpose: each element times the sign of the permutation
    restricted to its odd indices"""
    ixs = [x.indices[p] for p in perm]
    out = np.zeros([gen.index_layout(ix)[1] for ix in ixs], dtype='complex128')
    for s, blk in x.blocks.items():
        v = np.asarray(blk) * (-1 if x.phases.get(s, 1) == -1 else 1)
        sg = -1 if gen.inv_parity(pars(sym, s), perm) else 1
        embed(ixs, [s[p] for p in perm], np.transpose(v, perm) * sg, out)
    return out


def ref_tensordot(sym, a, b, axa, axb):
    """dense graded contraction, written from the property's sentence: bring the
    contracted legs of a to its end and of b to its front (mirrored), one sign per
    odd contracted index that meets as ket-then-bra, odd-position labels merged
    with a sign per crossing of two odd objects."""
    la = [i for i in range(a.ndim) if i not in axa]
    rb = [j for j in range(b.ndim) if j not in axb]
    free = [a.indices[i] for i in la] + [b.indices[j] for j in rb]
    out = np.zeros([gen.index_layout(ix)[1] for ix in free], dtype='complex128')
    pa, pb = refsym.par(sym, a.charge), refsym.par(sym, b.charge)
    gsign, labels = gen.merge_sign(a.oddpos, b.oddpos, pa)
    perm_a = la + list(axa)
    perm_b = list(reversed(axb)) + rb
    for sa, ba in a.blocks.items():
        va = np.asarray(ba) * (-1 if a.phases.get(sa, 1) == -1 else 1)
        for sb, bb in b.blocks.items():
            if [sa[i] for i in axa] != [sb[j] for j in axb]:
                continue
            vb = np.asarray(bb) * (-1 if b.phases.get(sb, 1) == -1 else 1)
            sg = gsign
            sg += gen.inv_parity(pars(sym, sa), perm_a)
            sg += gen.inv_parity(pars(sym, sb), perm_b)
            for i in axa:
                if refsym.par(sym, sa[i]) and not a.indices[i].dual:
                    sg += 1      # ket-then-bra
            blk = np.tensordot(va, vb, axes=(list(axa), list(axb)))
            embed(free, [sa[i] for i in la] + [sb[j] for j in rb], blk * (-1 if sg % 2 else 1), out)
    return out, free, labels


def rand_fpair(rng, sr, sym, cplx, maxnd=3):
    nda, ndb = rng.randint(1, maxnd), rng.randint(1, maxnd)
    ncon = rng.randint(0 if rng.random() < 0.15 else 1, min(nda, ndb))
    axa = rng.sample(range(nda), ncon)
    axb = rng.sample(range(ndb), ncon)
    cma = [gen.rand_chargemap(rng, sym, maxsize=2) for _ in range(nda)]
    dua = [rng.random() < 0.5 for _ in range(nda)]
    cmb = [gen.rand_chargemap(rng, sym, maxsize=2) for _ in range(ndb)]
    dub = [rng.random() < 0.5 for _ in range(ndb)]
    for i, j in zip(axa, axb):
        cmb[j] = dict(cma[i]); dub[j] = not dua[i]
    kind = rng.choice(['int', 'int', 'tuple', 'str'])
    l1, l2 = rng.sample(range(1, 9), 2)
    mk = {'int': lambda v: v, 'tuple': lambda v: (v % 3, v), 'str': lambda v: 'ab'[v % 2] + chr(96 + v)}[kind]
    # (keep_label: even-parity operands are also GIVEN a label, as network builders do for every site; an even array holds none)
    a = gen.rand_array(rng, sr, sym, chargemaps=cma, duals=dua, cplx=cplx, fermionic=True, oddpos=mk(l1), lo=-2, hi=2, keep_label=True)
    b = gen.rand_array(rng, sr, sym, chargemaps=cmb, duals=dub, cplx=cplx, fermionic=True, oddpos=mk(l2), lo=-2, hi=2, keep_label=True)
    if not b.oddpos and rng.random() < 0.5:
        # an even operand that has already subsumed two odd tensors (two sorted labels)
        from symmray.fermionic_local_operators import FermionicOperator as FO
        l3, l4 = sorted(rng.sample([v for v in range(1, 12) if v != l1], 2))
        lab = sorted([mk(l3), mk(l4)])
        b = gen.rand_array(rng, sr, sym, chargemaps=cmb, duals=dub, charge=b.charge, cplx=cplx, fermionic=True,
                           oddpos=[FO(lab[0]), FO(lab[1])], lo=-2, hi=2)
    return gen.rand_lazy(rng, sr, a), gen.rand_lazy(rng, sr, b), axa, axb


def check_result(c, want, free, labels):
    try:
        got = gen.densify(c, indices=free)
    except (KeyError, ValueError) as e:
        return {'error': 'result does not embed into the free legs: %s' % e}
    if not np.array_equal(got, want):
        return {'got_dense': got.tolist() if got.size < 200 else 'large', 'expected_dense': want.tolist() if want.size < 200 else 'large'}
    if [(o.label, o.dual) for o in c.oddpos] != [(o.label, o.dual) for o in labels]:
        return {'error': 'odd-position labels %r, expected %r' % (c.oddpos, labels)}
    return None


def gaxes_spec(axa, axb):
    z = lambda l: '[' + '; '.join(gen.gnum(v) for v in l) + ']'
    return '(inr (%s, %s))' % (z(axa), z(axb))


def run(ctx):
    import symmray as sr
    ok = common.standard_proof_phase(ctx)
    rng = ctx.rng
    n_cases = 1200 if ctx.thorough else 200
    exprs, meta, found = [], [], []
    gexprs, gmeta = [], []          # the generated front end (Gen/FtdotGen.v) against the implementation
    import random as _random
    grng = _random.Random(ctx.seed * 7919 + 303)     # own stream: the inputs of the existing cases do not move
    stats = {'a<=b': 0, 'a>b': 0, 'ket_then_bra_odd': 0, 'bra_then_ket_odd': 0, 'pending_both': 0, 'odd_odd': 0, 'odd_crossing_transpose': 0}
    # ---- tie: generated calc_phase_permutation vs Python (all perms of <= 4 axes, all parity vectors)
    from symmray.symmetries import calc_phase_permutation as cpp
    pexprs = []
    for n in range(0, 5):
        for par in itertools.product((0, 1), repeat=n):
            pexprs.append('Z.eqb (calc_phase_permutation %s None) %s' % ('[' + '; '.join(map(str, par)) + ']', gen.gnum(cpp(par, None))))
            for perm in itertools.permutations(range(n)):
                pexprs.append('Z.eqb (calc_phase_permutation %s (Some %s)) %s' % (
                    '[' + '; '.join(map(str, par)) + ']', '[' + '; '.join(map(str, perm)) + ']', gen.gnum(cpp(par, perm))))
                ctx.count()
                # oracle: the routine is the odd-odd inversion parity
                if cpp(par, perm) != (-1 if gen.inv_parity(par, perm) else 1):
                    found.append({'op': 'calc_phase_permutation', 'parities': par, 'perm': perm, 'got': cpp(par, perm),
                                  'replay': rl.record('phase_perm', {}, {'parities': par, 'perm': perm})})
    badp = common.run_cases(ctx, 'phaseperm', IMPORTS, '', pexprs, shard=400)
    tie_broken = []
    if badp is None:
        tie_broken.append('cases.v (Gen.PhasePerm vs Python) did not evaluate')
    elif badp:
        tie_broken.append('Gen.calc_phase_permutation disagrees with Python on %d inputs' % len(badp))

    for k in range(n_cases):
        sym = SYMS[k % len(SYMS)]
        cplx = rng.random() < 0.25
        a, b, axa, axb = rand_fpair(rng, sr, sym, cplx)
        # complete descriptions for the replay files, taken before any operation runs (an operation that
        # changes its operand in place must not leak into the recorded input)
        a_full, b_full = rl.describe_safe(a), rl.describe_safe(b)
        ring = gen.ring_of(a, b)
        A = '%s %s' % (sym, ring)
        # ---- transpose
        perm = list(range(a.ndim)); rng.shuffle(perm)
        ctx.count()
        t = a.transpose(tuple(perm))
        want = ref_transpose(sym, a, perm)
        got = gen.densify(t)
        if got.shape != want.shape or not np.array_equal(got, want):
            found.append({'op': 'transpose', 'symmetry': sym, 'x': describe(a), 'perm': perm, 'got_dense': got.tolist(), 'expected_dense': want.tolist(),
                          'replay': rl.record('transpose', {'x': a_full}, {'symmetry': sym, 'perm': perm})})
        if any(gen.inv_parity(pars(sym, s), perm) for s in a.blocks):
            stats['odd_crossing_transpose'] += 1
            ctx.nontrivial(('transpose', sym, str(sorted(a.blocks)), str(perm), str(sorted(a.phases))))
        exprs.append('farray_eqb %s (f_transpose %s %s %s true) %s' % (A, A, gen.gfarray(a, sym, ring), gen.gnatlist(perm), gen.gfarray(t, sym, ring)))
        meta.append(('transpose', sym, k))
        # ---- tensordot, both explicit modes + auto
        for nm_, arr_ in (('a', a), ('b', b)):
            ctx.count()
            if len(arr_.oddpos) % 2 != refsym.par(sym, arr_.charge):
                found.append({'op': 'construction', 'symmetry': sym, nm_: describe(arr_),
                              'error': 'the number of odd-position labels held (%d) does not have the parity of the total charge %r' % (len(arr_.oddpos), arr_.charge),
                              'replay': rl.record('tensordot', {'a': a_full, 'b': b_full}, {'symmetry': sym, 'mode': 'blockwise', 'axes': [axa, axb], 'perm': perm})})
        want, free, labels = ref_tensordot(sym, a, b, axa, axb)
        if a.size <= b.size:
            stats['a<=b'] += 1
        else:
            stats['a>b'] += 1
        for s in a.blocks:
            for i in axa:
                if refsym.par(sym, s[i]):
                    stats['ket_then_bra_odd' if not a.indices[i].dual else 'bra_then_ket_odd'] += 1
        if a.phases and b.phases:
            stats['pending_both'] += 1
        if a.oddpos and b.oddpos:
            stats['odd_odd'] += 1
        for mode in ('blockwise', 'fused', 'auto'):
            ctx.count()
            try:
                c = sr.tensordot(a, b, axes=(axa, axb), mode=mode, preserve_array=True)
            except Exception as e:
                found.append({'op': 'tensordot', 'mode': mode, 'symmetry': sym, 'a': describe(a), 'b': describe(b), 'axes': [axa, axb],
                              'raised': '%s: %s' % (type(e).__name__, e),
                              'replay': rl.record('tensordot', {'a': a_full, 'b': b_full}, {'symmetry': sym, 'mode': mode, 'axes': [axa, axb], 'perm': perm})})
                continue
            bad = check_result(c, want, free, labels)
            if bad:
                found.append({'op': 'tensordot', 'mode': mode, 'symmetry': sym, 'a': describe(a), 'b': describe(b), 'axes': [axa, axb], **bad,
                              'replay': rl.record('tensordot', {'a': a_full, 'b': b_full}, {'symmetry': sym, 'mode': mode, 'axes': [axa, axb], 'perm': perm})})
            exprs.append('match f_tensordot %s %s %s %s %s with Some c => farray_eqb %s c %s | None => false end' % (
                A, gen.gfarray(a, sym, ring), gen.gfarray(b, sym, ring), gaxes_spec(axa, axb), MODES[mode], A, gen.gfarray(c, sym, ring)))
            meta.append(('tensordot-' + mode, sym, k))
            if mode == 'blockwise':
                # the GENERATED tensordot_fermionic on the states of a and b: the whole state of the result
                gexprs.append(gsame(sym, ring, 'ft_td %s %s %s %s true' % (A, gstate(a, sym, ring), gstate(b, sym, ring), gaxes_spec(axa, axb)), c))
                gmeta.append(('tensordot_fermionic', sym, k))
        if axa and (a.phases or b.phases or a.oddpos or b.oddpos):
            ctx.nontrivial(('tdot', sym, str(sorted(a.blocks)), str(sorted(b.blocks)), str(axa), str(axb), str(sorted(a.phases)), len(a.oddpos), len(b.oddpos)))
        if k < 2:
            ctx.sample({'symmetry': sym, 'axes': [axa, axb], 'a': describe(a), 'b': describe(b)})
        # scalar path
        if a.ndim == b.ndim == len(axa):
            ctx.count()
            s = sr.tensordot(a, b, axes=(axa, axb))
            if complex(s) != complex(want):
                found.append({'op': 'tensordot->scalar', 'symmetry': sym, 'a': describe(a), 'b': describe(b), 'axes': [axa, axb],
                              'got': complex(s), 'expected': complex(want),
                              'replay': rl.record('tensordot_scalar', {'a': a_full, 'b': b_full}, {'symmetry': sym, 'axes': [axa, axb], 'perm': perm})})
        # ---- matmul / trace on matrices
        if k % 2 == 0:
            cm0, cm1 = gen.rand_chargemap(rng, sym, maxsize=2), gen.rand_chargemap(rng, sym, maxsize=2)
            d0, d1 = rng.random() < 0.5, rng.random() < 0.5
            m1 = gen.rand_lazy(rng, sr, gen.rand_array(rng, sr, sym, chargemaps=[cm0, cm1], duals=[d0, d1], cplx=cplx, fermionic=True, oddpos=3, lo=-2, hi=2))
            m2 = gen.rand_lazy(rng, sr, gen.rand_array(rng, sr, sym, chargemaps=[cm1, cm0], duals=[not d1, not d0], cplx=cplx, fermionic=True, oddpos=5, lo=-2, hi=2))
            ringm = gen.ring_of(m1, m2)
            AM = '%s %s' % (sym, ringm)
            ctx.count()
            try:
                c = m1 @ m2
                want2, free2, labels2 = ref_tensordot(sym, m1, m2, [1], [0])
                bad = check_result(c, want2, free2, labels2)
                if bad:
                    found.append({'op': 'matmul', 'symmetry': sym, 'a': describe(m1), 'b': describe(m2), **bad,
                                  'replay': rl.record('matmul', {'a': m1, 'b': m2}, {'symmetry': sym})})
                exprs.append('match f_matmul %s %s %s with Some c => farray_eqb %s c %s | None => false end' % (
                    AM, gen.gfarray(m1, sym, ringm), gen.gfarray(m2, sym, ringm), AM, gen.gfarray(c, sym, ringm)))
                meta.append(('matmul', sym, k))
                gexprs.append(gsame(sym, ringm, 'ft_mm %s %s %s' % (AM, gstate(m1, sym, ringm), gstate(m2, sym, ringm)), c))
                gmeta.append(('__matmul__', sym, k))
            except Exception as e:
                found.append({'op': 'matmul', 'symmetry': sym, 'a': describe(m1), 'b': describe(m2), 'raised': '%s: %s' % (type(e).__name__, e),
                              'replay': rl.record('matmul', {'a': m1, 'b': m2}, {'symmetry': sym})})
            # trace of a square fermionic matrix: + for bra-ket, sign per odd charge for ket-bra
            sq = gen.rand_lazy(rng, sr, gen.rand_array(rng, sr, sym, chargemaps=[cm0, cm0], duals=[d0, not d0], cplx=cplx, fermionic=True, charge=refsym.zero(sym), lo=-2, hi=2))
            ctx.count()
            tr = sq.trace()
            wt = 0
            for s, blk in sq.blocks.items():
                if s[0] == s[1]:
                    v = np.trace(np.asarray(blk)) * (-1 if sq.phases.get(s, 1) == -1 else 1)
                    if (not d0) and refsym.par(sym, s[0]):
                        v = -v
                    wt += v
            if complex(tr) != complex(wt):
                found.append({'op': 'trace', 'symmetry': sym, 'x': describe(sq), 'got': complex(tr), 'expected': complex(wt),
                              'replay': rl.record('trace', {'x': sq}, {'symmetry': sym})})
            rs = gen.ring_of(sq)
            exprs.append('match f_trace %s %s %s with Some v => reqb %s v (get %s %s []) | None => false end' % (
                sym, rs, gen.gfarray(sq, sym, rs), rs, rs, gen.gtensor(np.asarray(tr), rs)))
            meta.append(('trace', sym, k))
            # einsum: trace the pair and keep nothing / permute
            x3 = gen.rand_lazy(rng, sr, gen.rand_array(rng, sr, sym, chargemaps=[cm0, cm1, cm0], duals=[d0, d1, not d0], cplx=cplx,
                                                      fermionic=True, oddpos=7, lo=-2, hi=2))
            ctx.count()
            y = x3.einsum('aba->b', preserve_array=True)
            # reference: fermionic transpose to (dual a, nondual a, b) then plain trace of the first two
            order = ([0, 2, 1] if x3.indices[0].dual else [2, 0, 1])
            dd = ref_transpose(sym, x3, order)
            wantE = np.einsum('aab->b', dd)
            gotE = gen.densify(y, indices=[x3.indices[1]])
            if not np.array_equal(gotE, wantE):
                found.append({'op': 'einsum aba->b', 'symmetry': sym, 'x': describe(x3), 'got': gotE.tolist(), 'expected': wantE.tolist(),
                              'replay': rl.record('einsum_aba', {'x': x3}, {'symmetry': sym})})
            r3 = gen.ring_of(x3)
            exprs.append('match f_einsum %s %s %s [0%%nat; 1%%nat; 0%%nat] [1%%nat] with Some c => aarray_eqb %s %s c %s | None => false end' % (
                sym, r3, gen.gfarray(x3, sym, r3), sym, r3, gen.garray(y.phase_sync(), sym, r3)))
            meta.append(('einsum', sym, k))
        # ---- generated front end only (own random stream, copies of the operands, after everything else of this
        # iteration): negative / integer `axes`, the scalar return path, products with vectors
        try:
            ga, gb = a.copy(), b.copy()
            nax = [i - ga.ndim if grng.random() < 0.5 else i for i in axa]
            nbx = [j - gb.ndim if grng.random() < 0.5 else j for j in axb]
            if nax != list(axa) or nbx != list(axb):
                cg = sr.tensordot(ga, gb, axes=(nax, nbx), mode='blockwise', preserve_array=True)
                gexprs.append(gsame(sym, ring, 'ft_td %s %s %s %s true' % (A, gstate(ga, sym, ring), gstate(gb, sym, ring), gaxes_spec(nax, nbx)), cg))
                gmeta.append(('tensordot_fermionic(negative axes)', sym, k))
            ncon = len(axa)
            if list(axa) == list(range(ga.ndim - ncon, ga.ndim)) and list(axb) == list(range(ncon)):
                cg = sr.tensordot(ga, gb, axes=ncon, mode='blockwise', preserve_array=True)
                gexprs.append(gsame(sym, ring, 'ft_td %s %s %s %s true' % (A, gstate(ga, sym, ring), gstate(gb, sym, ring), gaxes_int(ncon)), cg))
                gmeta.append(('tensordot_fermionic(int axes)', sym, k))
            if ga.ndim == gb.ndim == ncon:
                sg = sr.tensordot(ga, gb, axes=(axa, axb), mode='blockwise')
                gexprs.append(gscalar(sym, ring, 'ft_td %s %s %s %s false' % (A, gstate(ga, sym, ring), gstate(gb, sym, ring), gaxes_spec(axa, axb)), sg))
                gmeta.append(('tensordot_fermionic(scalar path)', sym, k))
            if k % 2 == 0:
                # vector @ matrix, matrix @ vector, vector @ vector (scalar path of __matmul__)
                vl = gen.rand_lazy(grng, sr, gen.rand_array(grng, sr, sym, chargemaps=[cm0], duals=[not d0], cplx=cplx, fermionic=True, oddpos=9, lo=-2, hi=2))
                vr = gen.rand_lazy(grng, sr, gen.rand_array(grng, sr, sym, chargemaps=[cm0], duals=[d0], cplx=cplx, fermionic=True, oddpos=11, lo=-2, hi=2))
                for nm, x, y in (('vec@mat', vl, m1), ('mat@vec', m2, vr), ('vec@vec', vl, vr)):
                    rg = gen.ring_of(x, y)
                    AG = '%s %s' % (sym, rg)
                    z = x @ y
                    call = 'ft_mm %s %s %s' % (AG, gstate(x, sym, rg), gstate(y, sym, rg))
                    gexprs.append(gscalar(sym, rg, call, z) if nm == 'vec@vec' else gsame(sym, rg, call, z))
                    gmeta.append(('__matmul__(%s)' % nm, sym, k))
        except Exception as e:      # an implementation that raises here is reported by the streams above; the tie just has no case
            ctx.extra.setdefault('generated_front_end_skipped', []).append('%s: %s' % (type(e).__name__, str(e)[:120]))
    bad_idx = common.run_cases(ctx, 'fermi', IMPORTS, '', exprs, shard=40)
    gbad = common.run_cases(ctx, 'ftdotgen', IMPORTS_GEN, GEN_PRE, gexprs, shard=40)
    if bad_idx is None:
        tie_broken.append('cases.v (fermionic model vs implementation) did not evaluate')
    elif bad_idx:
        tie_broken += ['Model.%s disagrees with the implementation (symmetry %s, case %d)' % meta[i] for i in bad_idx[:10]]
        ctx.extra['disagreeing_cases'] = [exprs[i][:3000] for i in bad_idx[:2]]
    if gbad is None:
        tie_broken.append('cases.v (front end generated from tensordot_fermionic / __matmul__ vs implementation) did not evaluate')
    elif gbad:
        tie_broken += ['Gen.FtdotGen: the function generated from %s disagrees with the implementation (symmetry %s, case %d)' % gmeta[i]
                       for i in gbad[:10]]
        ctx.extra['disagreeing_generated_cases'] = [gexprs[i][:3000] for i in gbad[:2]]
    for f in found[:5]:
        ctx.violation('%s differs from the dense graded-tensor calculation' % f['op'], {'oracle': 'independent dense graded reference (harness/c03.py)', **f, 'run': rl.run_info(ctx)})
    ctx.broken += tie_broken
    if (not ok or tie_broken) and not found:
        ctx.violation('proof obligation or tie of C03 no longer checks',
                      {'broken': ctx.broken, 'replay': rl.record('proof_phase')}, found_input=False)
    ctx.extra['case_classes'] = stats
    gkinds = {}
    for g in gmeta:
        gkinds[g[0]] = gkinds.get(g[0], 0) + 1
    ctx.extra['tie'] = {'model_cases': len(exprs), 'phase_perm_cases': len(pexprs), 'generated_front_end_cases': len(gexprs),
                        'generated_front_end_by_kind': gkinds}
    ctx.coverage['rule'] = ('random fermionic pairs (rank 1-3, Z2/U1/Z2Z2/U1U1, random dualness, even and odd charge with int/tuple/str labels, '
                            'random sparsity, pending signs from random phase-operation prefixes, real and Gaussian-integer data) x all axes choices x '
                            'modes blockwise/fused/auto, plus transpose, matmul, trace, einsum; calc_phase_permutation exhaustively for <=4 axes; '
                            'non-trivial = contraction with pending signs or odd parity, or a transpose crossing two odd legs; distinct by full structure')


# ------------------------------------------------------------------ replay
def _rp_phase_perm(sr, ins, pr, r):
    from symmray.symmetries import calc_phase_permutation as cpp
    par, perm = tuple(pr['parities']), tuple(pr['perm'])
    got, want = cpp(par, perm), (-1 if gen.inv_parity(par, perm) else 1)
    if got != want:
        return [{'what': 'calc_phase_permutation(%r, %r) is not the odd-odd inversion parity' % (par, perm), 'expected': want, 'got': got}]
    return []


def _rp_transpose(sr, ins, pr, r):
    a, perm = ins['x'], pr['perm']
    t = a.transpose(tuple(perm))
    want, got = ref_transpose(pr['symmetry'], a, perm), gen.densify(t)
    if got.shape != want.shape or not np.array_equal(got, want):
        return [{'what': 'x.transpose(%r) vs the dense graded transpose' % (tuple(perm),), 'expected': want.tolist(), 'got': got.tolist()}]
    return []


def _before(sr, a, b, pr, upto_mode):
    """what the check did with a and b before the recorded call, in its order: the transpose of a, the
    reference value, then the contraction in the modes that come first (results unused here)"""
    axa, axb = pr['axes']
    if 'perm' in pr:
        try:
            a.transpose(tuple(pr['perm']))
        except Exception:
            pass
    ref = ref_tensordot(pr['symmetry'], a, b, axa, axb)
    for mode in ('blockwise', 'fused', 'auto'):
        if mode == upto_mode:
            break
        try:
            sr.tensordot(a, b, axes=(axa, axb), mode=mode, preserve_array=True)
        except Exception:
            pass
    return ref


def _rp_tensordot(sr, ins, pr, r):
    a, b = ins['a'], ins['b']
    axa, axb = pr['axes']
    what = 'tensordot(a, b, axes=%r, mode=%r) vs the dense graded contraction' % ((axa, axb), pr['mode'])
    want, free, labels = _before(sr, a, b, pr, pr['mode'])
    try:
        c = sr.tensordot(a, b, axes=(axa, axb), mode=pr['mode'], preserve_array=True)
    except Exception as e:
        return [{'what': what + ': raises', 'expected': want.tolist() if want.size < 200 else 'large', 'got': '%s: %s' % (type(e).__name__, e)}]
    return rl.fail_from(check_result(c, want, free, labels), what)


def _rp_scalar(sr, ins, pr, r):
    a, b = ins['a'], ins['b']
    axa, axb = pr['axes']
    want, free, labels = _before(sr, a, b, pr, None)
    s = sr.tensordot(a, b, axes=(axa, axb))
    if complex(s) != complex(want):
        return [{'what': 'tensordot(a, b, axes=%r) as a scalar' % ((axa, axb),), 'expected': complex(want), 'got': complex(s)}]
    return []


def _rp_matmul(sr, ins, pr, r):
    m1, m2 = ins['a'], ins['b']
    want, free, labels = ref_tensordot(pr['symmetry'], m1, m2, [1], [0])
    try:
        c = m1 @ m2
    except Exception as e:
        return [{'what': 'a @ b raises', 'expected': want.tolist(), 'got': '%s: %s' % (type(e).__name__, e)}]
    return rl.fail_from(check_result(c, want, free, labels), 'a @ b vs the dense graded contraction')


def _rp_trace(sr, ins, pr, r):
    sq, sym = ins['x'], pr['symmetry']
    d0 = sq.indices[0].dual
    tr = sq.trace()
    wt = 0
    for s, blk in sq.blocks.items():
        if s[0] == s[1]:
            v = np.trace(np.asarray(blk)) * (-1 if sq.phases.get(s, 1) == -1 else 1)
            if (not d0) and refsym.par(sym, s[0]):
                v = -v
            wt += v
    if complex(tr) != complex(wt):
        return [{'what': 'x.trace() of a fermionic matrix', 'expected': complex(wt), 'got': complex(tr)}]
    return []


def _rp_einsum_aba(sr, ins, pr, r):
    x3, sym = ins['x'], pr['symmetry']
    y = x3.einsum('aba->b', preserve_array=True)
    order = ([0, 2, 1] if x3.indices[0].dual else [2, 0, 1])
    wantE = np.einsum('aab->b', ref_transpose(sym, x3, order))
    gotE = gen.densify(y, indices=[x3.indices[1]])
    if not np.array_equal(gotE, wantE):
        return [{'what': "x.einsum('aba->b')", 'expected': wantE.tolist(), 'got': gotE.tolist()}]
    return []


ORACLES = {'phase_perm': _rp_phase_perm, 'transpose': _rp_transpose, 'tensordot': _rp_tensordot, 'tensordot_scalar': _rp_scalar,
           'matmul': _rp_matmul, 'trace': _rp_trace, 'einsum_aba': _rp_einsum_aba}


def replay(path):
    """re-run the recorded failing case against $SYMMRAY_REPO: 1 = still fails, 0 = passes now"""
    import sys
    return rl.dispatch(path, 'C03', ORACLES, sys.modules[__name__])
