"""Tie of Model/ReshapeArray.v (`a_reshape`, the ARRAY-level model of `AbelianArray.reshape`: the plan
of the faithful `calc_reshape_args` model of Model/ReshapeArgs.v executed by `a_unfuse`, `a_fuse`,
`a_expand_dims`) to the implementation: `x.reshape(newshape)` is run by the working tree on random
abelian arrays and compared inside Coq (vm_compute) with `a_reshape G R x newshape`:

    Some m  <->  the call returns y and `aarray_eqb m y` (index tables incl. sub-index tables and
                 extents, directions, charge, dict of blocks)
    None    <->  the call raises

Case families (all randomness from ctx.rng):
    plain        un-fused arrays (rank 0-4, charged and uncharged size-one axes, sparse) reshaped to
                 targets obtained by merging adjacent axes, dropping and inserting size-one axes
    back         arrays with one (sometimes two / a nested) already-fused axis reshaped back to the
                 shape they were fused from
    regroup      the same arrays reshaped to another merge / drop / insert target of the original
                 shape (plans that unfuse AND fuse), and to their own shape
    F11          all-size-one arrays reshaped to ()                       (pinned finding: raises)
    F12a         [fused(.., 1), 1] reshaped to its own shape              (pinned finding)
    F12b         a fused axis smaller than the product of its sub-sizes, reshaped to a shape that
                 spells the sub-sizes out                                  (pinned finding)
    invalid      targets that cannot be reached (wrong product, regrouping across axes)
The model is the model of the code AS IT IS: it must agree on the pinned families too.

    tie(ctx, sr) -> list of broken-tie strings
    tie_reshape.found -> after tie(): concrete failing inputs (dicts for ctx.violation): cases on which
        model and implementation disagree AND an implementation-only oracle rejects the outcome
        (an exception on a merge/drop/insert target, wrong rank, an axis larger than requested,
        changed charge, changed multiset of stored non-zero values).  The pinned families never get
        there: the model agrees with the code on them.

    python harness/tie_reshape.py [n_cases] [seed]     standalone self-test (exit 1 on any disagreement)
"""
import itertools
import os
import sys

sys.path.insert(0, os.path.dirname(os.path.abspath(__file__)))
import numpy as np  # noqa: E402

import common  # noqa: E402
import gen  # noqa: E402
import refsym  # noqa: E402

IMPORTS = ('From SV Require Import Base.Sym Base.Tensor Model.SymInst Model.Sectors Model.Array Model.ReshapeArgs '
           'Model.ReshapeArray.\n')
PREAMBLE = '''Definition reshape_agrees (G : Symmetry) (R : Ring) (m : option (aarray G R)) (y : option (aarray G R)) : bool :=
  match m, y with
  | Some a, Some b => aarray_eqb G R a b
  | None, None => true
  | _, _ => false
  end.
'''
SYMS = ['Z2', 'U1', 'Z2Z2', 'U1U1', 'Z4']

found = []


# ------------------------------------------------------------------ targets
def compositions(l):
    l = list(l)
    if not l:
        return [[]]
    out = []
    for mask in range(1 << (len(l) - 1)):
        cur, comp = [l[0]], []
        for i in range(1, len(l)):
            if mask >> (i - 1) & 1:
                comp.append(cur)
                cur = [l[i]]
            else:
                cur.append(l[i])
        comp.append(cur)
        out.append(comp)
    return out


def merge_drop_targets(shape):
    """shapes obtained by deleting some size-one entries and merging adjacent entries"""
    shape = list(shape)
    ones = [i for i, d in enumerate(shape) if d == 1]
    seen, out = set(), []
    for r in range(len(ones) + 1):
        for rm in itertools.combinations(ones, r):
            kept = [d for i, d in enumerate(shape) if i not in rm]
            for comp in compositions(kept):
                t = tuple(int(np.prod(b, dtype=object)) if b else 1 for b in comp)
                if t not in seen:
                    seen.add(t)
                    out.append(t)
    return out


def with_ones(rng, t, k=None):
    t = list(t)
    for _ in range(rng.randint(1, 2) if k is None else k):
        t.insert(rng.randint(0, len(t)), 1)
    return tuple(t)


def pick_target(rng, shape, avoid=None):
    tg = merge_drop_targets(shape)
    if avoid is not None and len(tg) > 1:
        tg = [t for t in tg if t != tuple(avoid)] or tg
    t = rng.choice(tg)
    if rng.random() < 0.3:
        t = with_ones(rng, t)
    return t


# ------------------------------------------------------------------ arrays
def rand_cms(rng, sym, nd, p_one=0.3, single=False):
    """chargemaps: size-one axes (charged or not) with probability p_one, else 1-2 charges of size 1-2"""
    pool = gen.SMALL[sym]
    zero = refsym.zero(sym)
    cms = []
    for _ in range(nd):
        if rng.random() < p_one:
            cms.append({(zero if rng.random() < 0.5 else rng.choice(pool)): 1})
        else:
            k = 1 if single else rng.randint(1, 2)
            cms.append({c: rng.randint(1, 2) for c in rng.sample(pool, k)})
    return cms


def base_array(rng, sr, sym, nd, p_one=0.3, keep=None, single=False, cplx=None):
    cms = rand_cms(rng, sym, nd, p_one, single)
    if cplx is None:
        cplx = rng.random() < 0.15
    if keep is None:
        keep = rng.choice([1.0, 1.0, 0.8, 0.6, 0.4])
    return gen.rand_array(rng, sr, sym, chargemaps=cms, cplx=cplx, keep=keep, lo=-4, hi=4)


def fuse_adjacent(rng, x):
    """fuse one (sometimes two) runs of adjacent axes, axis order kept; sometimes nest once more"""
    nd = x.ndim
    a = rng.randint(0, nd - 2)
    b = rng.randint(a + 2, nd)
    groups = [tuple(range(a, b))]
    if nd - b >= 2 and rng.random() < 0.4:
        groups.append(tuple(range(b, rng.randint(b + 2, nd))))
    elif a >= 2 and rng.random() < 0.4:
        groups.insert(0, tuple(range(rng.randint(0, a - 2), a)))
    y = x
    for g in sorted(groups, reverse=True):        # right to left: positions of the others stay valid
        y = y.fuse(g)
    nested = False
    if y.ndim >= 2 and rng.random() < 0.15:
        k = rng.randint(0, y.ndim - 2)
        y = y.fuse((k, k + 1))
        nested = True
    return y, nested


def shrunk(ix):
    return ix.subinfo is not None and ix.size_total < int(np.prod([s.size_total for s in ix.subinfo.indices], dtype=object))


def subsizes(ix):
    return None if ix.subinfo is None else tuple(int(s.size_total) for s in ix.subinfo.indices)


def make_cases(rng, sr, n):
    """-> list of (family, sym, x, target, legit)   legit: a merge / drop / insert target (must not raise
    unless the pinned family F11)"""
    cases = []
    k = 0
    plan = ['plain', 'regroup_dense', 'back', 'regroup', 'regroup_disjoint', 'own', 'F11', 'F12a', 'F12b', 'invalid', 'plain',
            'regroup_dense', 'regroup_disjoint', 'back']
    tries = 0
    while len(cases) < n and tries < 20 * n:
        tries += 1
        fam = plan[k % len(plan)]
        sym = SYMS[(k // len(plan) + k) % len(SYMS)]
        k += 1
        try:
            if fam == 'plain':
                nd = rng.choice([0, 1, 2, 2, 3, 3, 3, 4, 4])
                x = base_array(rng, sr, sym, nd)
                if not x.blocks and rng.random() < 0.8:
                    continue
                cases.append((fam, sym, x, pick_target(rng, x.shape, avoid=x.shape if nd >= 2 else None), True))
            elif fam in ('back', 'regroup', 'own'):
                nd = rng.choice([2, 3, 3, 4, 4])
                x0 = base_array(rng, sr, sym, nd, p_one=0.25)
                if not x0.blocks:
                    continue
                y, nested = fuse_adjacent(rng, x0)
                if fam == 'back':
                    t = tuple(x0.shape)
                elif fam == 'own':
                    t = tuple(y.shape)
                else:
                    t = pick_target(rng, x0.shape, avoid=y.shape)
                cases.append((fam + ('_nested' if nested else ''), sym, y, t, True))
            elif fam == 'regroup_dense':
                # one charge per axis: fused sizes are products, every regrouping of the original axes is reachable
                nd = rng.choice([3, 3, 4])
                x0 = base_array(rng, sr, sym, nd, p_one=0.2, keep=1.0, single=True)
                if not x0.blocks:
                    continue
                y, nested = fuse_adjacent(rng, x0)
                tg = [t for t in merge_drop_targets(x0.shape) if t not in (tuple(y.shape), tuple(x0.shape))]
                if not tg:
                    continue
                t = rng.choice(tg)
                if rng.random() < 0.2:
                    t = with_ones(rng, t, 1)
                cases.append((fam + ('_nested' if nested else ''), sym, y, t, True))
            elif fam == 'regroup_disjoint':
                # a fused run is spelled out again while another, disjoint run of axes is merged (sparse arrays too)
                nd = rng.choice([4, 4, 5])
                x0 = base_array(rng, sr, sym, nd, p_one=0.2)
                if not x0.blocks:
                    continue
                left = rng.random() < 0.5
                m = rng.randint(2, nd - 2)
                fused_run, merged_run = (range(0, m), range(m, nd)) if left else (range(m, nd), range(0, m))
                if len(merged_run) > 2 and rng.random() < 0.5:
                    merged_run = merged_run[:-1] if rng.random() < 0.5 else merged_run[1:]
                y = x0.fuse(tuple(fused_run))
                sh = list(x0.shape)
                t = sh[:merged_run[0]] + [int(np.prod([sh[a] for a in merged_run], dtype=object))] + sh[merged_run[-1] + 1:]
                cases.append((fam, sym, y, tuple(t), True))
            elif fam == 'F11':
                nd = rng.randint(1, 4)
                x = base_array(rng, sr, sym, nd, p_one=1.0, keep=1.0)
                if not x.blocks:
                    continue
                cases.append((fam, sym, x, (), True))
            elif fam == 'F12a':
                # [..., fused(d.., 1), 1, ...] reshaped to its own shape (the sub-sizes are spelled by it)
                pre = rng.randint(0, 1)
                post = rng.randint(0, 1)
                cms = rand_cms(rng, sym, pre, 0.3) + rand_cms(rng, sym, rng.randint(1, 2), 0.0, single=True) \
                    + rand_cms(rng, sym, 2, 1.0) + rand_cms(rng, sym, post, 0.3)
                x0 = gen.rand_array(rng, sr, sym, chargemaps=cms, keep=1.0)
                if not x0.blocks:
                    continue
                nf = len(cms) - pre - post - 1        # the fused run: the single-charge axes and the first size-one axis
                y = x0.fuse(tuple(range(pre, pre + nf)))
                t = tuple(y.shape) if rng.random() < 0.6 else tuple(x0.shape)
                cases.append((fam, sym, y, t, True))
            elif fam == 'F12b':
                # sectors constrain the fused pair: the fused axis is smaller than the product of its parts
                pool = gen.SMALL[sym]
                two = rng.sample(pool, 2)
                cms = [{two[0]: 1, two[1]: 1}, {two[0]: 1, two[1]: rng.randint(1, 2)}, {rng.choice(pool): rng.randint(1, 2)}]
                if rng.random() < 0.4:
                    cms.append(rand_cms(rng, sym, 1, 0.5)[0])
                x0 = gen.rand_array(rng, sr, sym, chargemaps=cms, keep=rng.choice([1.0, 1.0, 0.7]))
                if not x0.blocks:
                    continue
                y = x0.fuse((0, 1))
                if not shrunk(y.indices[0]):
                    continue
                ss = subsizes(y.indices[0])
                r = rng.random()
                if r < 0.4:
                    t = tuple(y.shape)                       # own shape (spells the sub-sizes when it equals them)
                elif r < 0.8:
                    t = tuple(x0.shape)                      # back
                else:
                    t = ss + tuple(y.shape[1:])
                cases.append((fam, sym, y, t, True))
            else:   # invalid
                nd = rng.choice([1, 2, 3, 3])
                x = base_array(rng, sr, sym, nd, p_one=0.2)
                if not x.blocks:
                    continue
                if x.ndim >= 2 and rng.random() < 0.4:
                    x, _ = fuse_adjacent(rng, x)
                sh = list(x.shape)
                r = rng.random()
                if r < 0.35 and len(sh) >= 2:
                    t = tuple(reversed(sh))                  # regrouping across axes
                elif r < 0.7:
                    t = list(pick_target(rng, sh))
                    if t:
                        t[rng.randrange(len(t))] += rng.choice([1, 1, 2])
                    else:
                        t = [2]
                    t = tuple(t)
                else:
                    t = tuple(rng.choice([1, 2, 3, 4, 6]) for _ in range(rng.randint(0, 3)))
                cases.append((fam, sym, x, t, False))
        except Exception as e:      # noqa: BLE001 - building the INPUT failed (fuse), not reshape
            cases.append(('input_construction_failed', sym, None, '%s: %s' % (type(e).__name__, e), False))
    return cases


# ------------------------------------------------------------------ oracle
def magnitudes(x):
    vals = []
    for b in x.blocks.values():
        vals += sorted((round(float(np.real(v)), 9), round(float(np.imag(v)), 9)) for v in np.asarray(b).ravel().tolist() if v != 0)
    return sorted(vals)


def oracle(x, target, y):
    if y.ndim != len(target):
        return 'rank %d for the requested shape %r' % (y.ndim, tuple(target))
    if any(a > b for a, b in zip(y.shape, target)):
        return 'shape %r has an axis larger than requested %r' % (tuple(y.shape), tuple(target))
    if y.charge != x.charge:
        return 'total charge changed'
    if magnitudes(x) != magnitudes(y):
        return 'the multiset of stored non-zero values changed'
    for s, b in y.blocks.items():
        if tuple(np.shape(b)) != tuple(ix.chargemap.get(c) for ix, c in zip(y.indices, s)):
            return 'block %r does not have the shape its index tables say' % (s,)
    return None


def describe(x):
    def ix_desc(ix):
        d = {'chargemap': [[list(c) if isinstance(c, tuple) else c, n] for c, n in ix.chargemap.items()], 'dual': ix.dual}
        if ix.subinfo is not None:
            d['sub'] = [ix_desc(s) for s in ix.subinfo.indices]
        return d
    return {'class': type(x).__name__, 'shape': list(x.shape), 'charge': list(x.charge) if isinstance(x.charge, tuple) else x.charge,
            'indices': [ix_desc(ix) for ix in x.indices],
            'blocks': {str(s): (np.asarray(b).tolist() if not np.iscomplexobj(b) else str(np.asarray(b).tolist())) for s, b in x.blocks.items()}}


# ------------------------------------------------------------------ the tie
def tie(ctx, sr, n=None, name='reshape', shard=25, stats=None):
    rng = ctx.rng
    del found[:]
    if n is None:
        n = 1500 if ctx.thorough else 300
    stats = stats if stats is not None else {}
    for k in ('cases', 'raises', 'unfuse_and_fuse', 'unfuse_only', 'fuse_only', 'expand', 'empty_plan', 'pinned_F11_raises',
              'pinned_F12_not_identity', 'pinned_F12b_axis_larger', 'sparse', 'complex', 'fused_input', 'nested_input'):
        stats.setdefault(k, 0)
    fams = stats.setdefault('families', {})
    try:
        from symmray import abelian_core
        plan_fn = abelian_core.calc_reshape_args
    except Exception:   # noqa: BLE001
        plan_fn = None
    exprs, meta, verdicts, broken = [], [], [], []
    for fam, sym, x, target, legit in make_cases(rng, sr, n):
        if x is None:
            broken.append('building a test input failed (%s)' % target)
            continue
        target = tuple(int(d) for d in target)
        rep = {'op': 'AbelianArray.reshape', 'family': fam, 'symmetry': sym, 'x': describe(x), 'newshape': list(target)}
        y, err = None, None
        try:
            y = x.reshape(target)
        except Exception as e:      # noqa: BLE001 - None <-> raises
            err = '%s: %s' % (type(e).__name__, e)
        verdict = None
        if y is None:
            if legit and int(np.prod(target, dtype=object)) == int(np.prod(x.shape, dtype=object)):
                verdict = dict(rep, raised=err)
        else:
            try:
                bad_y = oracle(x, target, y)
            except Exception as e:  # noqa: BLE001
                bad_y = 'result unusable: %s: %s' % (type(e).__name__, e)
            if bad_y:
                verdict = dict(rep, error=bad_y, result_shape=list(y.shape))
        try:
            ring = gen.ring_of(x, y) if y is not None else gen.ring_of(x)
            A = '%s %s' % (sym, ring)
            X = gen.garray(x, sym, ring)
            Y = 'None' if y is None else '(Some %s)' % gen.garray(y, sym, ring)
        except Exception as e:      # noqa: BLE001
            broken.append('result of reshape cannot be serialised: %s' % e)
            continue
        exprs.append('reshape_agrees %s (a_reshape %s %s [%s]) %s' % (A, A, X, '; '.join(gen.gnum(d) for d in target), Y))
        meta.append((fam, sym, tuple(x.shape), [subsizes(ix) for ix in x.indices], target, 'raises ' + err if y is None else 'returns shape %r' % (tuple(y.shape),)))
        verdicts.append(verdict)
        # ---- measured classes
        fams[fam] = fams.get(fam, 0) + 1
        stats['cases'] += 1
        stats['raises'] += y is None
        stats['complex'] += ring == 'GRing'
        stats['fused_input'] += any(ix.subinfo is not None for ix in x.indices)
        stats['nested_input'] += any(ix.subinfo is not None and any(s2.subinfo is not None for s2 in ix.subinfo.indices) for ix in x.indices)
        nvalid = len(refsym.valid_sectors(sym, [list(ix.chargemap) for ix in x.indices], [ix.dual for ix in x.indices], x.charge))
        stats['sparse'] += len(x.blocks) < nvalid or any(shrunk(ix) for ix in x.indices)
        if plan_fn is not None:
            try:
                u, f, e = plan_fn(tuple(x.shape), target, tuple(subsizes(ix) for ix in x.indices))
                stats['unfuse_and_fuse'] += bool(u and f)
                stats['unfuse_only'] += bool(u and not f)
                stats['fuse_only'] += bool(f and not u)
                stats['expand'] += bool(e)
                stats['empty_plan'] += not (u or f or e)
                if u and f:
                    ctx.nontrivial(('reshape', sym, tuple(x.shape), str([subsizes(ix) for ix in x.indices]), target, str(sorted(x.blocks))))
            except Exception:   # noqa: BLE001
                pass
        if fam == 'F11' and y is None:
            stats['pinned_F11_raises'] += 1
        if fam in ('F12a', 'F12b') and y is not None and target == tuple(x.shape) and \
                ([subsizes(ix) for ix in y.indices] != [subsizes(ix) for ix in x.indices] or tuple(y.shape) != tuple(x.shape)):
            stats['pinned_F12_not_identity'] += 1
        if fam == 'F12b' and y is not None and len(y.shape) == len(target) and any(a > b for a, b in zip(y.shape, target)):
            stats['pinned_F12b_axis_larger'] += 1
    ctx.count(len(exprs))
    bad = common.run_cases(ctx, name, IMPORTS, PREAMBLE, exprs, shard=shard)
    if bad is None:
        broken.append('cases.v (Model.ReshapeArray.a_reshape vs AbelianArray.reshape) did not evaluate')
    else:
        broken += ['Model.ReshapeArray.a_reshape disagrees with AbelianArray.reshape (family %s, symmetry %s, shape %r, sub-sizes %r, '
                   'newshape %r: the implementation %s)' % meta[i] for i in bad[:10]]
        for i in bad:
            if verdicts[i] is not None:
                found.append(verdicts[i])
        if bad:
            ctx.extra['reshape_disagreeing_cases'] = [exprs[i][:3000] for i in bad[:2]]
    ctx.extra['tie_reshape'] = {'model_cases': len(exprs), 'disagreements': None if bad is None else len(bad),
                                'oracle_rejections_among_disagreements': len(found),
                                'oracle_rejections_where_model_agrees (pinned families)': sum(v is not None for v in verdicts) - len(found),
                                'case_classes': {k: v for k, v in stats.items() if k != 'cases'}}
    return broken


def main(argv):
    n = int(argv[1]) if len(argv) > 1 else 200
    seed = int(argv[2]) if len(argv) > 2 else 0
    os.environ.setdefault('PYTHONHASHSEED', '0')
    sys.path.insert(0, common.REPO)
    import symmray as sr
    ctx = common.Ctx('C07', 'quick', seed)
    ctx.rng.seed(seed * 7919 + 7)
    stats = {}
    broken = tie(ctx, sr, n=n, name='reshape_selftest', stats=stats)
    print('tie_reshape self-test: implementation %s' % os.path.dirname(sr.__file__))
    print('cases: %d   classes: %s' % (stats.get('cases', 0), {k: v for k, v in sorted(stats.items()) if k != 'cases'}))
    for b in broken:
        print('BROKEN-TIE: ' + b)
    for f in found[:5]:
        print('FAILING-INPUT: family %s symmetry %s shape %s -> %s: %s' % (
            f['family'], f['symmetry'], f['x']['shape'], f['newshape'], f.get('error') or f.get('raised')))
    print('oracle rejections among disagreements: %d' % len(found))
    print(ctx.extra.get('tie_reshape'))
    for e in ctx.extra.get('cases_errors', []):
        print('CASES-ERROR: ' + e)
    print('result: %s' % ('%d disagreement(s)' % len(broken) if broken else 'model and implementation agree on all cases'))
    return 1 if (broken or found) else 0


if __name__ == '__main__':
    sys.exit(main(sys.argv))
