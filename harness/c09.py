"""C09 — lazily tracked fermionic signs are unobservable."""
import json

import numpy as np

import common
import gen
import refsym
import replaylib as rl

IMPORTS = ('From SV Require Import Base.Sym Base.Tensor Gen.PhasePerm Model.SymInst Model.Sectors Model.Array Model.Arith Model.Fermi Model.Ctor Model.FermiReduce.\n')
SYMS = ['Z2', 'U1', 'Z2Z2', 'U1U1']

# ---- translator tie of the sign bookkeeping (Gen/PhasesGen.v, tr/gen_phases.py): own imports and own shards, so
# that the hand-model cases above keep evaluating when the generated file is missing ----
IMPORTS_GEN = ('From SV Require Import Base.Sym Base.Tensor Gen.PhasePerm Gen.OpOrder Gen.PhasesGen Model.SymInst Model.Array.\n')
GEN_PRE = ('Definition tbl_eqb (G : Symmetry) := list_eqb (pair_eqb (list_eqb (ceqb G)) Z.eqb).\n'
           'Definition keys_eqb (G : Symmetry) := list_eqb (list_eqb (ceqb G)).\n'
           'Definition no_move (G : Symmetry) (ix : list gindex) (bl : list (list (C G) * unit)) (ax : list Z) := (ix, bl).\n'
           'Definition same_state (G : Symmetry) {B} (st : list gindex * C G * list (list (C G) * B) * list (list (C G) * Z) * list op)\n'
           '  (ix : list bool) (ch : C G) (ks : list (list (C G))) (ph : list (list (C G) * Z)) (odd : list op) : bool :=\n'
           '  list_eqb Bool.eqb (st_indices st) ix && ceqb G (st_charge st) ch && keys_eqb G (keys (st_blocks st)) ks\n'
           '  && tbl_eqb G (st_phases st) ph && list_eqb op_eq (st_oddpos st) odd.\n')


def gtable(ph):
    """the pending-sign dict as it is: every item, in insertion order"""
    return '[' + '; '.join('(%s, %s)' % (gen.gsec(s), gen.gnum(int(v))) for s, v in ph.items()) + ']'


def gzlist(l):
    return '[' + '; '.join(gen.gnum(v) for v in l) + ']'


def gstate_args(x, blocks=None):
    return '%s %s %s %s %s' % ('[' + '; '.join('true' if ix.dual else 'false' for ix in x.indices) + ']', gen.gch(x.charge),
                               blocks if blocks is not None else '[' + '; '.join('(%s, tt)' % gen.gsec(s) for s in x.blocks) + ']',
                               gtable(x.phases), gen.goddpos(x.oddpos))


def gsame_state(sym, call, y):
    """the generated function's whole result against the array the implementation returned: index directions, charge,
    block keys (order), sign table (items, order), odd-position labels"""
    return 'same_state %s (%s) %s %s %s %s %s' % (
        sym, call, '[' + '; '.join('true' if ix.dual else 'false' for ix in y.indices) + ']', gen.gch(y.charge),
        '[' + '; '.join(gen.gsec(s) for s in y.blocks) + ']', gtable(y.phases), gen.goddpos(y.oddpos))


def generated_cases(x, sym, ring, axs, perm, sec):
    """[(method, boolean Gallina term)]: each function of Gen/PhasesGen.v (translated from the current source by
    tr/gen_phases.py) on the state of x against what the implementation's method returns for x"""
    st = gstate_args(x)
    out = []

    def case(nm, call, y):
        out.append((nm, gsame_state(sym, call, y)))
    nd = x.ndim
    case('phase_global', 'phase_global_gen %s unit %s' % (sym, st), x.phase_global())
    case('phase_flip', 'phase_flip_gen %s unit %s %s' % (sym, st, gzlist(axs)), x.phase_flip(*axs))
    case('phase_flip_none', 'phase_flip_gen %s unit %s []' % (sym, st), x.phase_flip())
    case('phase_transpose', 'phase_transpose_gen %s unit %s (Some %s)' % (sym, st, gzlist(perm)), x.phase_transpose(tuple(perm)))
    case('phase_transpose_none', 'phase_transpose_gen %s unit %s None' % (sym, st), x.phase_transpose())
    if sec is not None:
        case('phase_sector', 'phase_sector_gen %s unit %s %s' % (sym, st, gen.gsec(sec)), x.phase_sector(sec))
    # transpose: the block keys / index order are moved by AbelianArray.transpose (not translated): the generated
    # function is given the identity for it, so only charge, sign table and labels are compared
    for nm, ax, phf, y in (('transpose', 'Some %s' % gzlist(perm), True, x.transpose(tuple(perm))),
                           ('transpose_none', 'None', True, x.transpose()),
                           ('transpose_nophase', 'Some %s' % gzlist(perm), False, x.transpose(tuple(perm), phase=False))):
        call = 'transpose_gen %s unit (no_move %s) %s (%s) %s' % (sym, sym, st, ax, 'true' if phf else 'false')
        out.append((nm, 'tbl_eqb %s (st_phases (%s)) %s && list_eqb op_eq (st_oddpos (%s)) %s' % (
            sym, call, gtable(y.phases), call, gen.goddpos(y.oddpos))))
    for pp in (True, False):
        for pd in (True, False):
            case('conj_%d%d' % (pp, pd), 'conj_gen %s unit (fun b => b) %s %s %s' % (sym, st, 'true' if pp else 'false', 'true' if pd else 'false'),
                 x.conj(phase_permutation=pp, phase_dual=pd))
    for pd in (True, False):
        case('dagger_%d' % pd, 'dagger_gen %s unit (fun b => b) (fun b => b) %s %s' % (sym, st, 'true' if pd else 'false'), x.dagger(phase_dual=pd))
    # phase_sync with the real blocks: which blocks are negated
    y = x.phase_sync()
    blk = lambda a: '[' + '; '.join('(%s, %s)' % (gen.gsec(s), gen.gtensor(b, ring)) for s, b in a.blocks.items()) + ']'   # noqa: E731
    call = 'phase_sync_gen %s (tensor %s) (tneg %s) %s' % (sym, ring, ring, gstate_args(x, blocks=blk(x)))
    out.append(('phase_sync', 'blocks_eqb_strict %s %s (st_blocks (%s)) %s && tbl_eqb %s (st_phases (%s)) %s' % (
        sym, ring, call, blk(y), sym, call, gtable(y.phases))))
    return out


def describe(x):
    return {'class': type(x).__name__, 'charge': x.charge, 'oddpos': [repr(o) for o in x.oddpos],
            'indices': [([list(kv) for kv in ix.chargemap.items()], ix.dual) for ix in x.indices],
            'phases': [str(s) for s, p in x.phases.items() if p == -1],
            'blocks': {str(k): np.asarray(v).tolist() for k, v in x.blocks.items()}}


def value_eq(x, y, tol=0.0):
    """equality of two results at VALUE level (pending signs applied)"""
    if hasattr(x, 'blocks') != hasattr(y, 'blocks'):
        return False
    if not hasattr(x, 'blocks'):
        a, b = np.asarray(x), np.asarray(y)
        return a.shape == b.shape and (np.array_equal(a, b) if tol == 0 else np.allclose(a, b, rtol=tol, atol=tol))
    if hasattr(x, 'indices'):
        if x.charge != y.charge or x.ndim != y.ndim:
            return False
        for i, j in zip(x.indices, y.indices):
            if i.chargemap != j.chargemap or i.dual != j.dual or (i.subinfo is None) != (j.subinfo is None):
                return False
        if [(o.label, o.dual) for o in getattr(x, 'oddpos', ())] != [(o.label, o.dual) for o in getattr(y, 'oddpos', ())]:
            return False
    if set(x.blocks) != set(y.blocks):
        return False
    px, py = getattr(x, 'phases', {}), getattr(y, 'phases', {})
    for s in x.blocks:
        a = np.asarray(x.blocks[s]) * (-1 if px.get(s, 1) == -1 else 1)
        b = np.asarray(y.blocks[s]) * (-1 if py.get(s, 1) == -1 else 1)
        if a.shape != b.shape or not (np.array_equal(a, b) if tol == 0 else np.allclose(a, b, rtol=tol, atol=tol)):
            return False
    return True


# ---- reductions / scalar conversions that read blocks (Model/FermiReduce.v) ----
REDUCTIONS = ('item', 'sum', 'max', 'min', 'norm2')


def reduction_impl(x, name):
    """what the implementation returns (complex / float), or raises"""
    if name == 'norm2':
        return float(x.norm()) ** 2
    return complex(np.asarray(getattr(x, name)()).item())


def reduction_reference(x):
    """the same quantities computed here from the stored blocks and the pending-sign table (every
    sign applied exactly once); a missing key = nothing to compare (the code raises: no stored block,
    item of anything but one block of one element)"""
    parts = [np.asarray(b).reshape(-1) * (-1 if x.phases.get(s, 1) == -1 else 1) for s, b in x.blocks.items()]
    ref = {}
    if parts and all(p.size for p in parts):
        allv = [complex(v) for p in parts for v in p]
        ref['sum'] = sum(allv)
        ref['max'] = max(allv, key=lambda v: (v.real, v.imag))     # numpy's order on complex numbers
        ref['min'] = min(allv, key=lambda v: (v.real, v.imag))
        ref['norm2'] = float(sum(abs(v) ** 2 for v in allv))
    if len(parts) == 1 and parts[0].size == 1:
        ref['item'] = complex(parts[0][0])
    return ref


def gvalue(v, ring):
    c = complex(v)
    if ring == 'GRing':
        return '(%s, %s)' % (gen.gnum(gen.exact_int(c.real)), gen.gnum(gen.exact_int(c.imag)))
    if c.imag != 0:
        raise ValueError('complex value for ZRing')
    return gen.gnum(gen.exact_int(c.real))


def reduction_model(name, A, ring, gx):
    leb = 'g_leb' if ring == 'GRing' else 'z_leb'
    return {'item': 'f_item %s %s' % (A, gx), 'sum': 'f_sum %s %s' % (A, gx), 'max': 'f_max %s %s %s' % (A, leb, gx),
            'min': 'f_min %s %s %s' % (A, leb, gx), 'norm2': 'f_norm2 %s %s' % (A, gx)}[name]


def reduction_cases(x, sym, ring):
    """[(name, boolean Gallina term, reference failure or None)]: the model on the serialised LAZY array
    against what the implementation returned / whether it raised (exact integer data)"""
    A = '%s %s' % (sym, ring)
    gx = gen.gfarray(x, sym, ring)
    ref = reduction_reference(x)
    out = []
    for name in REDUCTIONS:
        m = reduction_model(name, A, ring, gx)
        try:
            v = reduction_impl(x, name)
        except Exception:
            out.append((name, 'match %s with None => true | Some _ => false end' % m, None))
            continue
        vv = complex(round(v), 0) if name == 'norm2' else v
        bad = None
        if name in ref and not (abs(ref[name] - v) <= 1e-6 * max(1.0, abs(ref[name]))):
            bad = {'expected': str(ref[name]), 'got': str(v)}
        out.append((name, 'match %s with Some v => reqb %s v %s | None => false end' % (m, ring, gvalue(vv, ring)), bad))
    if ring == 'ZRing':
        for name, mexpr, f in (('abs', 'f_abs %s %s' % (sym, gx), lambda a: a.abs()),
                               ('clip', 'f_clip %s (-1) 1 %s' % (sym, gx), lambda a: a.clip(-1, 1))):
            try:
                y = f(x)
            except Exception:
                continue
            bad = None
            if y.phases or any(not np.array_equal(np.asarray(y.blocks[s]),
                                                  np.abs(np.asarray(b)) if name == 'abs' else
                                                  np.clip(np.asarray(b) * (-1 if x.phases.get(s, 1) == -1 else 1), -1, 1))
                               for s, b in x.blocks.items()):
                bad = {'expected': 'the function applied to the blocks with the pending signs multiplied in, empty sign table', 'got': describe(y)}
            out.append((name, 'farray_eqb_strict %s (%s) %s' % (A, mexpr, gen.gfarray(y, sym, ring)), bad))
    return out


def operations(rng, sr, x, other, vec):
    """(name, callable on an array) — each applied to the lazy array and to its synchronised copy"""
    n = x.ndim
    ops = []
    perm = list(range(n)); rng.shuffle(perm)
    ops.append(('transpose', lambda a: a.transpose(tuple(perm))))
    ops.append(('transpose_nophase', lambda a: a.transpose(tuple(perm), phase=False)))
    ops.append(('conj', lambda a: a.conj()))
    ops.append(('conj_pd', lambda a: a.conj(phase_dual=True)))
    ops.append(('conj_nopp', lambda a: a.conj(phase_permutation=False)))
    ops.append(('dagger', lambda a: a.dagger()))
    ops.append(('dagger_pd', lambda a: a.dagger(phase_dual=True)))
    if n:
        axs = rng.sample(range(n), rng.randint(1, n))
        ops.append(('phase_flip', lambda a: a.phase_flip(*axs)))
        ops.append(('phase_transpose', lambda a: a.phase_transpose(tuple(perm))))
    ops.append(('phase_global', lambda a: a.phase_global()))
    ops.append(('phase_sync', lambda a: a.phase_sync()))
    if x.blocks:
        sec = rng.choice(list(x.blocks))
        ops.append(('phase_sector', lambda a: a.phase_sector(sec)))
    if n >= 2:
        g = sorted(rng.sample(range(n), 2))
        if rng.random() < 0.5:
            g = g[::-1]
        ops.append(('fuse', lambda a: a.fuse(tuple(g))))
        ops.append(('fuse_unfuse', lambda a: a.fuse(tuple(g)).unfuse(min(g))))
        ops.append(('fuse2', lambda a: a.fuse((g[0],), (g[1],))))
        ops.append(('reshape', lambda a: a.fuse(tuple(g)).reshape(a.fuse(tuple(g)).shape) if False else a.fuse(tuple(g)).transpose()))
    ops.append(('expand_dims', lambda a: a.expand_dims(rng_ax)))
    rng_ax = rng.randint(0, n)
    ops.append(('expand_squeeze', lambda a: a.expand_dims(rng_ax).squeeze(rng_ax)))
    ops.append(('scale', lambda a: a * 3))
    ops.append(('rscale', lambda a: 2 * a))
    ops.append(('neg', lambda a: -a))
    ops.append(('div', lambda a: (a * 4) / 2))
    ops.append(('add', lambda a: a + other))
    ops.append(('radd', lambda a: other + a))
    ops.append(('mul', lambda a: a * other))
    ops.append(('sub_self', lambda a: a - a.phase_sync().phase_global().phase_global()))
    ops.append(('to_dense', lambda a: a.to_dense()))
    ops.append(('norm2', lambda a: np.round(float(a.norm()) ** 2, 6)))
    ops.append(('allclose_other', lambda a: bool(a.allclose(other))))
    ops.append(('allclose_self', lambda a: bool(a.allclose(x.phase_sync()))))
    if n and vec is not None:
        ax, v = vec
        ops.append(('multiply_diagonal', lambda a: a.multiply_diagonal(v, ax)))
    # contraction with another (lazy) array over all of x's axes that match `other`'s conj
    oc = other.conj()
    ops.append(('tensordot_full_left', lambda a: sr.tensordot(a, oc, axes=n, preserve_array=True, mode='blockwise')))
    ops.append(('tensordot_full_right', lambda a: sr.tensordot(oc, a, axes=n, preserve_array=True, mode='fused' if n else 'blockwise')))
    ops.append(('tensordot_outer', lambda a: sr.tensordot(a, oc, axes=0, preserve_array=True)))
    if n == 2:
        ops.append(('matmul', lambda a: a @ oc.transpose()))
        ops.append(('rmatmul', lambda a: oc.transpose() @ a))
        ops.append(('rmatmul_conj', lambda a: a.conj().transpose() @ a))
        if x.indices[0].chargemap == x.indices[1].chargemap and x.indices[0].dual != x.indices[1].dual:
            ops.append(('trace', lambda a: a.trace()))
            ops.append(('einsum_trace', lambda a: a.einsum('aa->')))
    if n == 1:
        ops.append(('vec_matmul_right', lambda a: oc @ a))
        ops.append(('vec_matmul_left', lambda a: a @ oc))
    if x.blocks or True:
        ops.append(('item_of_full_contraction', lambda a: complex(sr.tensordot(a, oc, axes=n, preserve_array=True, mode='blockwise').item())
                    if sr.tensordot(a, oc, axes=n, preserve_array=True, mode='blockwise').blocks else 0j))
    if n == 0 and x.blocks:
        # scalar conversions of a rank-0 array read its single block
        ops.append(('item', lambda a: complex(a.item())))
        ops.append(('complex', lambda a: complex(a)))
        ops.append(('float', lambda a: float(a) if 'complex' not in str(a.dtype) else complex(a)))
        ops.append(('bool', lambda a: bool(a)))
    # reductions / elementwise functions exported by the library
    for fn in ('sum', 'max', 'min'):
        ops.append((fn, (lambda f: (lambda a: np.asarray(getattr(a, f)()).item()))(fn)))
    ops.append(('abs', lambda a: a.abs()))
    ops.append(('clip', lambda a: a.clip(-1, 1)))
    return ops


def linalg_ops(sr, m):
    """decompositions of a fermionic matrix: compare gauge-invariant results"""
    import symmray.linalg as la
    ops = []

    def qr_prod(a, stab=False):
        q, r = la.qr(a, stabilized=stab)
        return sr.tensordot(q, r, 1, mode='blockwise')

    def svd_prod(a):
        u, s, vh = la.svd(a)
        return sr.tensordot(u.multiply_diagonal(s, 1), vh, 1, mode='blockwise')

    def svd_vals(a):
        u, s, vh = la.svd(a)
        return np.round(np.sort(np.concatenate([np.asarray(b) for b in s.blocks.values()]) if s.blocks else np.zeros(0)), 8)

    def trunc_prod(a):
        u, s, vh = la.svd_truncated(a, max_bond=-1, cutoff=0.0, absorb=0)
        return sr.tensordot(u, vh, 1, mode='blockwise')

    ops.append(('qr_product', lambda a: qr_prod(a)))
    ops.append(('qr_stabilized_product', lambda a: qr_prod(a, True)))
    ops.append(('svd_product', svd_prod))
    ops.append(('svd_values', svd_vals))
    ops.append(('svd_truncated_product', trunc_prod))
    return ops


def run(ctx):
    import symmray as sr
    ok = common.standard_proof_phase(ctx)
    rng = ctx.rng
    n_cases = 700 if ctx.thorough else 130
    exprs, meta, found = [], [], []
    gexprs, gmeta, gstat = [], [], {}
    opstat, raised = {}, {}
    n_reduction_cases, found_values = {}, []     # value failures are reported after the lazy-vs-synchronised ones
    for k in range(n_cases):
        sym = SYMS[k % len(SYMS)]
        cplx = rng.random() < 0.25
        nd = rng.choice([0, 1, 1, 2, 2, 2, 3, 3])
        cms = [gen.rand_chargemap(rng, sym, maxsize=2) for _ in range(nd)]
        if nd == 2 and rng.random() < 0.4:
            cms[1] = dict(cms[0])
        dus = [rng.random() < 0.5 for _ in range(nd)]
        if nd == 2 and cms[0] == cms[1]:
            dus[1] = not dus[0]
        base = gen.rand_array(rng, sr, sym, chargemaps=cms, duals=dus, cplx=cplx, fermionic=True, oddpos=rng.randint(1, 9), lo=-2, hi=2)
        x = gen.rand_lazy(rng, sr, base, steps=rng.randint(1, 4))
        other = gen.rand_lazy(rng, sr, gen.rand_array(rng, sr, sym, chargemaps=cms, duals=dus, charge=x.charge, cplx=cplx, fermionic=True,
                                                      oddpos=rng.randint(11, 19), lo=-2, hi=2), steps=rng.randint(0, 2))
        # complete descriptions for the replay files, taken BEFORE any operation runs (an operation that
        # corrupts its operand through a shared sign table must not leak into the recorded input)
        x_full, other_full = rl.describe_safe(x), rl.describe_safe(other)
        xs = x.phase_sync()
        ring = gen.ring_of(x, other)
        A = '%s %s' % (sym, ring)
        if x.phases:
            ctx.nontrivial((sym, str(sorted(x.blocks)), str(sorted(s for s, p in x.phases.items() if p == -1)), len(x.oddpos)))
        # sync itself: idempotent, value unchanged, table empty
        ctx.count()
        if xs.phases or not value_eq(x, xs) or not value_eq(xs.phase_sync(), xs):
            found.append({'op': 'phase_sync', 'symmetry': sym, 'x': describe(x), 'error': 'sync changes the value, is not idempotent or leaves a table',
                          'replay': rl.record('sync', {'x': x_full}, {'symmetry': sym})})
        if not np.array_equal(gen.densify(x), gen.densify(xs)) or not np.array_equal(np.asarray(x.to_dense()), gen.densify(x)):
            found.append({'op': 'to_dense', 'symmetry': sym, 'x': describe(x), 'error': 'dense value changes under synchronisation',
                          'replay': rl.record('sync', {'x': x_full}, {'symmetry': sym})})
        exprs.append('farray_eqb_strict %s (f_phase_sync %s %s) %s' % (A, A, gen.gfarray(x, sym, ring), gen.gfarray(xs, sym, ring)))
        meta.append(('phase_sync', sym, k))
        # reductions, scalar conversions, abs / clip: model on the lazy array vs the implementation's values,
        # and the implementation's values vs the blocks with the pending signs applied once (computed here)
        for nm, expr, bad in reduction_cases(x, sym, ring):
            exprs.append(expr); meta.append((nm, sym, k)); ctx.count()
            n_reduction_cases[nm] = n_reduction_cases.get(nm, 0) + 1
            if bad is not None:
                found_values.append({'op': nm + ' (value)', 'symmetry': sym, 'x': describe(x),
                              'error': '%s of the lazy array is not %s of its value (pending signs applied exactly once)' % (nm, nm), **bad,
                              'replay': rl.record('reduction', {'x': x_full}, {'symmetry': sym, 'op': nm})})
        vec = None
        if nd:
            ax = rng.randrange(nd)
            tab = x.indices[ax].chargemap
            vec = (ax, sr.BlockVector({c: gen.rand_data(rng, (d,), False, 1, 3) for c, d in tab.items() if rng.random() < 0.8}))
        ops_rng = rl.rng_state(rng)     # operations() draws its parameters from rng: from this state a replay draws them again

        def rp_op(name):
            return rl.record('operation', {'x': x_full, 'other': other_full, 'vec': [] if vec is None else [vec[1]]},
                             {'symmetry': sym, 'op': name, 'vec_axis': None if vec is None else vec[0], 'rng': ops_rng})
        for name, f in operations(rng, sr, x, other, vec):
            ctx.count()
            opstat[name] = opstat.get(name, 0) + 1
            try:
                r1 = f(x)
                e1 = None
            except Exception as e:
                r1, e1 = None, type(e).__name__
            try:
                r2 = f(xs)
                e2 = None
            except Exception as e:
                r2, e2 = None, type(e).__name__
            if e1 or e2:
                raised[name] = raised.get(name, 0) + 1
                if e1 != e2:
                    found.append({'op': name, 'symmetry': sym, 'x': describe(x), 'other': describe(other),
                                  'error': 'lazy array: %s, synchronised copy: %s' % (e1 or 'returns', e2 or 'returns'),
                                  'replay': rp_op(name)})
                continue
            # a second step on the result: its dense value through the library (which synchronises)
            # must be its dense value computed here from blocks and pending signs
            for rr in (r1, r2):
                if hasattr(rr, 'phases') and hasattr(rr, 'indices') and all(ix.subinfo is None for ix in rr.indices):
                    try:
                        if not np.array_equal(np.asarray(rr.to_dense()), gen.densify(rr)):
                            found.append({'op': name + ' then to_dense', 'symmetry': sym, 'x': describe(x), 'other': describe(other),
                                          'error': 'pending signs of the result are not applied exactly once by to_dense', 'result': describe(rr),
                                          'replay': rp_op(name)})
                            break
                    except Exception as e:
                        # e.g. every charge pruned away: nothing to densify; raising observes no sign
                        raised['to_dense_of_result'] = raised.get('to_dense_of_result', 0) + 1
            if not value_eq(r1, r2):
                found.append({'op': name, 'symmetry': sym, 'x': describe(x), 'other': describe(other),
                              'error': 'result on the lazy array differs from the result on its synchronised copy',
                              'lazy': describe(r1) if hasattr(r1, 'blocks') else np.asarray(r1).tolist(),
                              'synced': describe(r2) if hasattr(r2, 'blocks') else np.asarray(r2).tolist(),
                              'replay': rp_op(name)})
        # model correspondence for the phase operations themselves (strict: same table)
        if nd:
            axs = rng.sample(range(nd), rng.randint(1, nd))
            perm = list(range(nd)); rng.shuffle(perm)
            for nm, res, mexpr in (
                    ('phase_flip', x.phase_flip(*axs), 'f_phase_flip %s %s %s' % (A, gen.gfarray(x, sym, ring), gen.gnatlist(axs))),
                    ('phase_transpose', x.phase_transpose(tuple(perm)), 'f_phase_transpose %s %s (Some %s)' % (A, gen.gfarray(x, sym, ring), gen.gnatlist(perm))),
                    ('phase_global', x.phase_global(), 'f_phase_global %s %s' % (A, gen.gfarray(x, sym, ring))),
                    ('conj', x.conj(), 'f_conj %s %s true false' % (A, gen.gfarray(x, sym, ring))),
                    ('conj_pd', x.conj(phase_dual=True), 'f_conj %s %s true true' % (A, gen.gfarray(x, sym, ring))),
                    ('dagger', x.dagger(), 'f_dagger %s %s false' % (A, gen.gfarray(x, sym, ring))),
                    ('dagger_pd', x.dagger(phase_dual=True), 'f_dagger %s %s true' % (A, gen.gfarray(x, sym, ring)))):
                exprs.append('farray_eqb_strict %s (%s) %s' % (A, mexpr, gen.gfarray(res, sym, ring)))
                meta.append((nm, sym, k)); ctx.count()
        # translator tie: the functions generated from the current source of the methods against the methods
        if nd:
            try:
                gsec0 = rng.choice(list(x.blocks)) if x.blocks else None
                for nm, e in generated_cases(x, sym, gen.ring_of(x), axs, perm, gsec0):
                    gexprs.append(e); gmeta.append((nm, sym, k)); ctx.count()
                    gstat[nm] = gstat.get(nm, 0) + 1
            except Exception as e:
                raised['generated_cases'] = raised.get('generated_cases', 0) + 1
        if nd >= 2:
            g = sorted(rng.sample(range(nd), 2))
            if rng.random() < 0.5:
                g = g[::-1]
            y = x.fuse(tuple(g))
            exprs.append('farray_eqb %s (f_fuse %s %s [%s]) %s' % (A, A, gen.gfarray(x, sym, ring), gen.gnatlist(g), gen.gfarray(y, sym, ring)))
            meta.append(('fuse', sym, k)); ctx.count()
            z = y.unfuse(min(g))
            exprs.append('match f_unfuse %s %s %d%%nat with Some c => farray_eqb %s c %s | None => false end' % (
                A, gen.gfarray(y, sym, ring), min(g), A, gen.gfarray(z, sym, ring)))
            meta.append(('unfuse', sym, k)); ctx.count()
        # decompositions (float data) on matrices
        if nd == 2 and k % 3 == 0:
            m = x.copy()
            for s in list(m.blocks):
                m.blocks[s] = np.asarray(m.blocks[s]) + 0.25 * np.arange(1, np.asarray(m.blocks[s]).size + 1).reshape(np.asarray(m.blocks[s]).shape)
            m_full = rl.describe_safe(m)
            ms = m.phase_sync()
            # outputs built from the lazy input must not share its sign table: synchronising a factor
            # in place must leave the input's value untouched
            import symmray.linalg as la
            before = gen.densify(m)
            try:
                ctx.count()
                q, r = la.qr(m)
                q.phase_sync(inplace=True); r.phase_sync(inplace=True)
                u, sv, vh = la.svd(m)
                u.phase_global(inplace=True); u.phase_sync(inplace=True)
                mm = m.sync_charges(); mm.phase_sync(inplace=True)
                if not np.array_equal(gen.densify(m), before) or not np.allclose(np.asarray(m.to_dense()), before):
                    found.append({'op': 'qr/svd/sync_charges then in-place sign operation on the output', 'symmetry': sym, 'x': describe(m),
                                  'error': 'the lazy input changed value: its pending signs are shared with an output',
                                  'replay': rl.record('inplace_outputs', {'x': m_full}, {'symmetry': sym})})
            except Exception as e:
                raised['inplace_on_outputs'] = raised.get('inplace_on_outputs', 0) + 1
            for name, f in linalg_ops(sr, m):
                ctx.count()
                opstat[name] = opstat.get(name, 0) + 1
                try:
                    r1, r2 = f(m), f(ms)
                except Exception as e:
                    raised[name] = raised.get(name, 0) + 1
                    continue
                if not value_eq(r1, r2, tol=1e-9):
                    found.append({'op': name, 'symmetry': sym, 'x': describe(m), 'error': 'lazy and synchronised inputs give different results',
                                  'replay': rl.record('linalg_op', {'x': m_full}, {'symmetry': sym, 'op': name})})
        # stale sign entries: blocks dropped (diagonal vector lacking a charge) while their pending signs remain
        if nd and len(x.blocks) >= 2:
            for ax in range(nd):
                tab = x.indices[ax].chargemap
                for miss in tab:
                    ctx.count()
                    v = sr.BlockVector({c: np.ones(d) for c, d in tab.items() if c != miss})
                    try:
                        y = x.phase_global().multiply_diagonal(v, ax)
                        if not np.array_equal(np.asarray(y.to_dense()), gen.densify(y)):
                            found.append({'op': 'multiply_diagonal (vector lacking a charge) then to_dense', 'symmetry': sym, 'x': describe(x),
                                          'axis': ax, 'missing_charge': miss,
                                          'error': 'pending signs are not applied exactly once when some signed sectors have no block',
                                          'replay': rl.record('stale', {'x': x_full}, {'symmetry': sym, 'axis': ax, 'missing_charge': miss})})
                        y2 = y.phase_sync()
                        if y2.phases or not np.array_equal(gen.densify(y2, phases=False), gen.densify(y)):
                            found.append({'op': 'phase_sync with signed sectors that have no block', 'symmetry': sym, 'x': describe(x),
                                          'axis': ax, 'missing_charge': miss, 'error': 'synchronising does not empty the table / changes the value',
                                          'replay': rl.record('stale', {'x': x_full}, {'symmetry': sym, 'axis': ax, 'missing_charge': miss})})
                    except Exception:
                        raised['stale'] = raised.get('stale', 0) + 1
        if k < 2:
            ctx.sample({'symmetry': sym, 'x': describe(x)})
    # eigh on hermitian charge-zero matrices with pending signs
    import symmray.linalg as la
    for k in range(n_cases // 4):
        sym = SYMS[k % len(SYMS)]
        cm = gen.rand_chargemap(rng, sym, maxsize=2)
        d0 = rng.random() < 0.5
        h = gen.rand_array(rng, sr, sym, chargemaps=[cm, cm], duals=[d0, not d0], charge=refsym.zero(sym), fermionic=True, keep=1.0, static=False)
        for s in list(h.blocks):
            b = np.asarray(h.blocks[s], dtype='float64')
            h.blocks[s] = b + b.T
        hl = gen.rand_lazy(rng, sr, h, steps=2)
        hl_full = rl.describe_safe(hl)
        # keep only lazy states whose VALUE is still hermitian block-wise (signs constant per block => yes)
        ctx.count()
        opstat['eigh'] = opstat.get('eigh', 0) + 1
        try:
            e1, _ = la.eigh(hl)
            e2, _ = la.eigh(hl.phase_sync())
            v1 = np.sort(np.concatenate([np.asarray(b) for b in e1.blocks.values()])) if e1.blocks else np.zeros(0)
            v2 = np.sort(np.concatenate([np.asarray(b) for b in e2.blocks.values()])) if e2.blocks else np.zeros(0)
            if v1.shape != v2.shape or not np.allclose(v1, v2, atol=1e-9):
                found.append({'op': 'eigh', 'symmetry': sym, 'x': describe(hl), 'lazy_eigenvalues': v1.tolist(), 'synced_eigenvalues': v2.tolist(),
                              'replay': rl.record('eigh', {'x': hl_full}, {'symmetry': sym})})
        except Exception:
            raised['eigh'] = raised.get('eigh', 0) + 1
    # solve with pending signs on the matrix and / or the right-hand side; the matrix has an EVEN total charge, zero or not,
    # and any directions (odd matrices are the pinned finding F16 of C11), so that row and column charges of a block differ
    for k in range(n_cases // 3):
        sym = SYMS[k % len(SYMS)]
        try:
            d = rng.randint(1, 2)
            cms = [{c: d for c in gen.rand_chargemap(rng, sym, maxcharges=3, maxsize=1)} for _ in range(2)]
            dus = [rng.random() < 0.5, rng.random() < 0.5]
            A0 = None
            for _ in range(8):
                cand = gen.rand_array(rng, sr, sym, chargemaps=cms, duals=dus, fermionic=True, keep=1.0, static=False, oddpos=rng.randint(1, 9))
                if cand.blocks and refsym.par(sym, cand.charge) == 0:
                    A0 = cand
                    break
            if A0 is None:
                continue
            for sct in list(A0.blocks):
                A0.blocks[sct] = np.asarray(A0.blocks[sct], dtype='float64') + 3.0 * np.eye(d)
            c0 = rng.choice(list(A0.blocks))[0]
            b0 = gen.rand_array(rng, sr, sym, chargemaps=[dict(cms[0])], duals=[dus[0]], charge=refsym.signed(sym, c0, dus[0]), fermionic=True,
                                keep=1.0, static=False, oddpos=rng.randint(11, 19))
            for sct in list(b0.blocks):
                b0.blocks[sct] = np.asarray(b0.blocks[sct], dtype='float64')
            Al, bl = gen.rand_lazy(rng, sr, A0, steps=rng.randint(0, 2)), gen.rand_lazy(rng, sr, b0, steps=rng.randint(1, 3))
            ctx.count()
            opstat['solve'] = opstat.get('solve', 0) + 1
            x1 = la.solve(Al, bl)
            x2 = la.solve(Al.phase_sync(), bl.phase_sync())
            if not value_eq(x1, x2, tol=1e-9):
                found.append({'op': 'solve', 'symmetry': sym, 'x': describe(bl), 'other': describe(Al),
                              'error': 'solve(A, b) with pending signs differs from solve on the synchronised copies',
                              'lazy': describe(x1), 'synced': describe(x2)})
            if (Al.phases or bl.phases) and A0.charge != refsym.zero(sym):
                ctx.nontrivial(('solve-lazy-charged', sym, str(A0.charge), str(dus), str(sorted(bl.phases))))
        except np.linalg.LinAlgError:
            raised['solve_singular'] = raised.get('solve_singular', 0) + 1
        except (ValueError, KeyError, IndexError) as e:
            raised['solve:' + type(e).__name__] = raised.get('solve:' + type(e).__name__, 0) + 1
    found += found_values
    bad_idx = common.run_cases(ctx, 'lazy', IMPORTS, '', exprs, shard=60)
    tie_broken = []
    if bad_idx is None:
        tie_broken.append('cases.v (phase-operation model vs implementation) did not evaluate')
    elif bad_idx:
        tie_broken += ['Model.%s disagrees with the implementation (symmetry %s, case %d)' % meta[i] for i in bad_idx[:10]]
        ctx.extra['disagreeing_cases'] = [exprs[i][:3000] for i in bad_idx[:2]]
    gbad = common.run_cases(ctx, 'gen', IMPORTS_GEN, GEN_PRE, gexprs, shard=120)
    if gbad is None:
        tie_broken.append('cases.v (functions generated from the phase methods vs implementation) did not evaluate')
    elif gbad:
        tie_broken += ['Gen.PhasesGen.%s_gen disagrees with the implementation (symmetry %s, case %d)' % (
            gmeta[i][0].split('_')[0] if not gmeta[i][0].startswith('phase_') else '_'.join(gmeta[i][0].split('_')[:2]), gmeta[i][1], gmeta[i][2])
            for i in gbad[:10]]
        ctx.extra['disagreeing_generated_cases'] = [gexprs[i][:3000] for i in gbad[:2]]
    kf = [f for f in common.load_known_findings().get('findings', []) if f.get('property') == 'C09']
    reported = set()
    for f in found:
        fam = next((e for e in kf if f['op'] in e.get('ops', [])), None)
        if fam is not None:
            line = 'KNOWN-FINDING: property=C09 %s %s' % (fam['id'], fam['what'])
            if line not in ctx.known:
                ctx.known.append(line)
            continue
        if f['op'] in reported or len(reported) >= 6:
            continue
        reported.add(f['op'])
        ctx.violation('%s observes the pending signs' % f['op'], {'oracle': 'lazy array vs its synchronised copy', **f, 'run': rl.run_info(ctx)})
    ctx.broken += tie_broken
    if (not ok or tie_broken) and not found:
        ctx.violation('proof obligation or tie of C09 no longer checks',
                      {'broken': ctx.broken, 'replay': rl.record('proof_phase')}, found_input=False)
    ctx.extra['operations_compared'] = opstat
    ctx.extra['operations_that_raised_on_both'] = raised
    ctx.extra['tie'] = {'model_cases': len(exprs), 'reduction_model_cases': sum(n_reduction_cases.values()),
                        'reduction_model_cases_by_op': n_reduction_cases,
                        'generated_phase_function_cases': len(gexprs), 'generated_phase_function_cases_by_method': gstat}
    ctx.coverage['rule'] = ('random fermionic arrays (rank 1-3, four symmetries, even/odd, sparse, real + Gaussian-integer) with pending-sign tables '
                            'produced by 1-4 random phase operations; every public operation applied to the lazy array and to its synchronised '
                            'copy, results compared at value level (signs applied); non-trivial = non-empty pending-sign table; distinct by '
                            '(symmetry, stored sectors, signed sectors, #labels)')


# ------------------------------------------------------------------ replay
def _show(v):
    return describe(v) if hasattr(v, 'indices') and hasattr(v, 'phases') else (
        {str(k): np.asarray(b).tolist() for k, b in v.blocks.items()} if hasattr(v, 'blocks') else np.asarray(v).tolist())


def _rp_sync(sr, ins, pr, r):
    x = ins['x']
    xs = x.phase_sync()
    fails = []
    if xs.phases:
        fails.append({'what': 'phase_sync leaves a pending-sign table', 'expected': {}, 'got': {str(k): v for k, v in xs.phases.items()}})
    if not value_eq(x, xs):
        fails.append({'what': 'phase_sync changes the value', 'expected': gen.densify(x).tolist(), 'got': gen.densify(xs).tolist()})
    if not value_eq(xs.phase_sync(), xs):
        fails.append({'what': 'phase_sync is not idempotent'})
    if not np.array_equal(gen.densify(x), gen.densify(xs)):
        fails.append({'what': 'dense value changes under synchronisation', 'expected': gen.densify(x).tolist(), 'got': gen.densify(xs).tolist()})
    if not np.array_equal(np.asarray(x.to_dense()), gen.densify(x)):
        fails.append({'what': 'x.to_dense() is not the blocks with the pending signs applied once', 'expected': gen.densify(x).tolist(),
                      'got': np.asarray(x.to_dense()).tolist()})
    return fails


def _rp_operation(sr, ins, pr, r):
    """the recorded operation on the lazy array and on its synchronised copy (parameters drawn again
    from the recorded generator state)"""
    x, other = ins['x'], ins['other']
    vec = (pr['vec_axis'], ins['vec'][0]) if ins.get('vec') else None
    xs = x.phase_sync()
    name = pr['op'][:-len(' then to_dense')] if pr['op'].endswith(' then to_dense') else pr['op']
    ops = operations(rl.rng_from_state(pr['rng']), sr, x, other, vec)
    if name not in dict(ops):
        return [{'what': 'operation %r is not offered for this input any more' % name}]
    # as in the check, the operations before the recorded one run first on both arrays (results unused)
    for nm, g in ops:
        if nm == name:
            break
        for arg in (x, xs):
            try:
                g(arg)
            except Exception:
                pass
    f = dict(ops)[name]
    try:
        r1, e1 = f(x), None
    except Exception as e:
        r1, e1 = None, type(e).__name__
    try:
        r2, e2 = f(xs), None
    except Exception as e:
        r2, e2 = None, type(e).__name__
    if e1 or e2:
        if e1 != e2:
            return [{'what': '%s: one of lazy array / synchronised copy raises' % name, 'expected': 'synchronised copy: %s' % (e2 or 'returns'),
                     'got': 'lazy array: %s' % (e1 or 'returns')}]
        return []
    fails = []
    for rr, which in ((r1, 'lazy array'), (r2, 'synchronised copy')):
        if hasattr(rr, 'phases') and hasattr(rr, 'indices') and all(ix.subinfo is None for ix in rr.indices):
            try:
                if not np.array_equal(np.asarray(rr.to_dense()), gen.densify(rr)):
                    fails.append({'what': '%s on the %s, then to_dense: pending signs of the result are not applied exactly once' % (name, which),
                                  'expected': gen.densify(rr).tolist(), 'got': np.asarray(rr.to_dense()).tolist()})
                    break
            except Exception:
                pass
    if not value_eq(r1, r2):
        fails.append({'what': '%s: result on the lazy array differs from the result on its synchronised copy' % name,
                      'expected': _show(r2), 'got': _show(r1)})
    return fails


def _inplace_section(m):
    import symmray.linalg as la
    q, rr = la.qr(m)
    q.phase_sync(inplace=True); rr.phase_sync(inplace=True)
    u, sv, vh = la.svd(m)
    u.phase_global(inplace=True); u.phase_sync(inplace=True)
    mm = m.sync_charges(); mm.phase_sync(inplace=True)


def _rp_inplace_outputs(sr, ins, pr, r):
    m = ins['x']
    m.phase_sync()          # as in the check: the synchronised copy is made first
    before = gen.densify(m)
    try:
        _inplace_section(m)
    except Exception:
        return []
    if not np.array_equal(gen.densify(m), before) or not np.allclose(np.asarray(m.to_dense()), before):
        return [{'what': 'qr/svd/sync_charges then an in-place sign operation on the output changes the lazy input',
                 'expected': before.tolist(), 'got': gen.densify(m).tolist()}]
    return []


def _rp_linalg_op(sr, ins, pr, r):
    m = ins['x']
    ms = m.phase_sync()
    try:                    # as in the check: the in-place operations on the factors come first
        _inplace_section(m)
    except Exception:
        pass
    ops = linalg_ops(sr, m)
    for nm, g in ops:       # and the decompositions before the recorded one
        if nm == pr['op']:
            break
        try:
            g(m), g(ms)
        except Exception:
            pass
    f = dict(ops)[pr['op']]
    try:
        r1, r2 = f(m), f(ms)
    except Exception:
        return []
    if not value_eq(r1, r2, tol=1e-9):
        return [{'what': '%s: lazy and synchronised inputs give different results' % pr['op'], 'expected': _show(r2), 'got': _show(r1)}]
    return []


def _rp_stale(sr, ins, pr, r):
    x, ax = ins['x'], pr['axis']
    miss = rl.dec_charge(pr['missing_charge'])
    tab = x.indices[ax].chargemap
    v = sr.BlockVector({c: np.ones(d) for c, d in tab.items() if c != miss})
    fails = []
    try:
        y = x.phase_global().multiply_diagonal(v, ax)
        if not np.array_equal(np.asarray(y.to_dense()), gen.densify(y)):
            fails.append({'what': 'multiply_diagonal (vector lacking charge %r on axis %d) then to_dense: pending signs not applied exactly once' % (miss, ax),
                          'expected': gen.densify(y).tolist(), 'got': np.asarray(y.to_dense()).tolist()})
        y2 = y.phase_sync()
        if y2.phases or not np.array_equal(gen.densify(y2, phases=False), gen.densify(y)):
            fails.append({'what': 'phase_sync with signed sectors that have no block: table not emptied / value changed',
                          'expected': gen.densify(y).tolist(), 'got': gen.densify(y2, phases=False).tolist()})
    except Exception:
        pass
    return fails


def _rp_eigh(sr, ins, pr, r):
    import symmray.linalg as la
    hl = ins['x']
    try:
        e1, _ = la.eigh(hl)
        e2, _ = la.eigh(hl.phase_sync())
    except Exception:
        return []
    v1 = np.sort(np.concatenate([np.asarray(b) for b in e1.blocks.values()])) if e1.blocks else np.zeros(0)
    v2 = np.sort(np.concatenate([np.asarray(b) for b in e2.blocks.values()])) if e2.blocks else np.zeros(0)
    if v1.shape != v2.shape or not np.allclose(v1, v2, atol=1e-9):
        return [{'what': 'eigh: eigenvalues of the lazy array vs of its synchronised copy', 'expected': v2.tolist(), 'got': v1.tolist()}]
    return []


def _rp_reduction(sr, ins, pr, r):
    """the recorded reduction / elementwise function of the lazy array against the blocks with the
    pending signs applied once"""
    x = ins['x']
    sym = pr['symmetry']
    fails = []
    for nm, expr, bad in reduction_cases(x, sym, gen.ring_of(x)):
        if nm == pr['op'] and bad is not None:
            fails.append({'what': '%s of the lazy array vs %s of its value (pending signs applied exactly once)' % (nm, nm), **bad})
    return fails


ORACLES = {'reduction': _rp_reduction, 'sync': _rp_sync, 'operation': _rp_operation, 'inplace_outputs': _rp_inplace_outputs, 'linalg_op': _rp_linalg_op,
           'stale': _rp_stale, 'eigh': _rp_eigh}


def replay(path):
    """re-run the recorded failing case against $SYMMRAY_REPO: 1 = still fails, 0 = passes now"""
    import sys
    return rl.dispatch(path, 'C09', ORACLES, sys.modules[__name__])
