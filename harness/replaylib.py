"""Shared machinery of `./check Cxx --replay <file>`.

A replay file must let the recorded failing case be RE-EXECUTED against the
implementation in $SYMMRAY_REPO: `describe_full(x)` writes down everything a
symmray object consists of (JSON-safe: sectors and charges as lists, complex
numbers as [re, im] pairs, dict orders kept as lists of pairs) and
`rebuild(desc)` makes the same object again from symmray's own constructors.

A violation record carries, next to its human-readable fields, a field

    "replay": {"oracle": <short name>, "inputs": {...}, "params": {...}}

and the `replay(path)` function of a harness module hands the file to
`dispatch`, which calls the module's function registered for that oracle name.
Such a function rebuilds the inputs, performs the same operation(s) and the same
comparison the check performed and returns the list of failures (empty = the
recorded case passes now).  Exit status of a replay: 1 = still fails, 0 = passes.
"""
import json
import random

import numpy as np

import common


# ------------------------------------------------------------------ encoding of small values
def enc_charge(c):
    """charge label: int, or tuple of ints (Z2Z2 / U1U1) -> int or list"""
    if isinstance(c, (tuple, list)):
        return [enc_charge(v) for v in c]
    return int(c)


def dec_charge(c):
    if isinstance(c, (list, tuple)):
        return tuple(dec_charge(v) for v in c)
    return int(c)


def enc_sector(s):
    return [enc_charge(c) for c in s]


def dec_sector(s):
    return tuple(dec_charge(c) for c in s)


def enc_label(lab):
    """odd-position label: int / str / float / None / (nested) tuple or list"""
    if isinstance(lab, bool):
        return {'t': 'bool', 'v': bool(lab)}
    if isinstance(lab, (int, np.integer)):
        return {'t': 'int', 'v': int(lab)}
    if isinstance(lab, (float, np.floating)):
        return {'t': 'float', 'v': float(lab)}
    if isinstance(lab, str):
        return {'t': 'str', 'v': lab}
    if lab is None:
        return {'t': 'none'}
    if isinstance(lab, tuple):
        return {'t': 'tuple', 'v': [enc_label(v) for v in lab]}
    if isinstance(lab, list):
        return {'t': 'list', 'v': [enc_label(v) for v in lab]}
    raise ValueError('label of type %r cannot be written to a replay file' % type(lab).__name__)


def dec_label(d):
    t = d['t']
    if t == 'none':
        return None
    if t == 'tuple':
        return tuple(dec_label(v) for v in d['v'])
    if t == 'list':
        return [dec_label(v) for v in d['v']]
    return {'bool': bool, 'int': int, 'float': float, 'str': str}[t](d['v'])


def enc_data(b):
    """a block (or any dense array / scalar): dtype, shape, flat data in C order"""
    a = np.asarray(b)
    flat = a.reshape(-1)
    if a.dtype.kind == 'c':
        data = [[float(np.real(v)), float(np.imag(v))] for v in flat]
    elif a.dtype.kind == 'f':
        data = [float(v) for v in flat]          # exact: repr of a double round-trips; float32 -> double is exact
    elif a.dtype.kind in 'iu':
        data = [int(v) for v in flat]
    elif a.dtype.kind == 'b':
        data = [bool(v) for v in flat]
    else:
        raise ValueError('block of dtype %s cannot be written to a replay file' % a.dtype)
    return {'dtype': str(a.dtype), 'shape': [int(d) for d in a.shape], 'data': data}


def dec_data(d):
    dt = np.dtype(d['dtype'])
    if dt.kind == 'c':
        flat = np.array([complex(re, im) for re, im in d['data']], dtype=dt)
    else:
        flat = np.array(d['data'], dtype=dt)
    return flat.reshape(tuple(d['shape']))


# ------------------------------------------------------------------ indices
def describe_index(ix):
    d = {'chargemap': [[enc_charge(c), int(n)] for c, n in ix.chargemap.items()], 'dual': bool(ix.dual), 'subinfo': None}
    if ix.subinfo is not None:
        d['subinfo'] = {
            'indices': [describe_index(s) for s in ix.subinfo.indices],
            'extents': [[enc_charge(c), [[enc_sector(ss), int(n)] for ss, n in ext.items()]] for c, ext in ix.subinfo.extents.items()],
        }
    return d


def rebuild_index(d, sr=None):
    if sr is None:
        import symmray as sr
    from symmray.abelian_core import SubIndexInfo
    sub = None
    if d.get('subinfo') is not None:
        sub = SubIndexInfo(
            indices=tuple(rebuild_index(s, sr) for s in d['subinfo']['indices']),
            extents={dec_charge(c): {dec_sector(ss): int(n) for ss, n in ext} for c, ext in d['subinfo']['extents']},
        )
    cm = {dec_charge(c): int(n) for c, n in d['chargemap']}
    ix = sr.BlockIndex(cm, dual=bool(d['dual']), subinfo=sub)
    if list(ix.chargemap.items()) != list(cm.items()):
        # the constructor sorts the table; a recorded table in another order is put back as recorded
        try:
            ix._chargemap = dict(cm)
        except AttributeError:
            pass
    return ix


# ------------------------------------------------------------------ arrays, vectors, scalars
def describe_full(x):
    """complete description of a symmray array / block vector / dense value"""
    if hasattr(x, 'indices') and hasattr(x, 'blocks'):
        d = {'kind': 'array', 'class': type(x).__name__, 'symmetry': type(x.symmetry).__name__,
             'charge': enc_charge(x.charge),
             'indices': [describe_index(ix) for ix in x.indices],
             'blocks': [[enc_sector(s), enc_data(b)] for s, b in x.blocks.items()],
             'fermionic': hasattr(x, 'phases')}
        if hasattr(x, 'phases'):
            d['phases'] = [[enc_sector(s), jsonable(p)] for s, p in x.phases.items()]
            d['oddpos'] = [[enc_label(o.label), bool(o.dual)] for o in x.oddpos]
        return d
    if hasattr(x, 'blocks'):
        return {'kind': 'vector', 'class': type(x).__name__,
                'blocks': [[enc_charge(c), enc_data(b)] for c, b in x.blocks.items()]}
    return {'kind': 'dense', **enc_data(x)}


KINDS = ('array', 'vector', 'dense', 'undescribable')


def is_description(v):
    return isinstance(v, dict) and v.get('kind') in KINDS


def describe_safe(x):
    """describe_full that never raises (a check must not die while writing down an input): what cannot
    be written down is recorded as such and makes the replay report that the input cannot be rebuilt"""
    try:
        return describe_full(x)
    except Exception as e:
        return {'kind': 'undescribable', 'class': type(x).__name__, 'error': '%s: %s' % (type(e).__name__, e)}


def rebuild(d, sr=None):
    if sr is None:
        import symmray as sr
    kind = d.get('kind', 'array')
    if kind == 'undescribable':
        raise ValueError('the %s could not be written to the replay file (%s)' % (d.get('class'), d.get('error')))
    if kind == 'dense':
        return dec_data(d)
    if kind == 'vector':
        return getattr(sr, d['class'])({dec_charge(c): dec_data(b) for c, b in d['blocks']})
    cls = getattr(sr, d['class'])
    kw = dict(indices=[rebuild_index(i, sr) for i in d['indices']], charge=dec_charge(d['charge']),
              blocks={dec_sector(s): dec_data(b) for s, b in d['blocks']})
    if not getattr(cls, 'static_symmetry', False):
        kw['symmetry'] = d['symmetry']
    if d.get('fermionic'):
        from symmray.fermionic_local_operators import FermionicOperator
        kw['phases'] = {dec_sector(s): p for s, p in d.get('phases', [])}
        kw['oddpos'] = [FermionicOperator(dec_label(l), bool(du)) for l, du in d.get('oddpos', [])]
    return cls(**kw)


def same_description(a, b):
    """two full descriptions denote the same object (used by the self-test of the round trip)"""
    return json.dumps(a, sort_keys=True) == json.dumps(b, sort_keys=True)


def short(d, maxblocks=6):
    """one-line summary of a full description, for the replay report"""
    if not isinstance(d, dict) or 'kind' not in d:
        return repr(d)[:300]
    if d['kind'] == 'undescribable':
        return '%s (not written down: %s)' % (d.get('class'), d.get('error'))
    if d['kind'] == 'dense':
        return 'dense %s%r' % (d['dtype'], tuple(d['shape']))
    if d['kind'] == 'vector':
        return '%s charges=%r' % (d['class'], [c for c, _ in d['blocks']])

    def ix(i):
        s = '%s%r' % ('-' if i['dual'] else '+', {json.dumps(c): n for c, n in i['chargemap']})
        return s + ('{fused %d}' % len(i['subinfo']['indices']) if i['subinfo'] else '')
    secs = [s for s, _ in d['blocks']]
    out = '%s[%s] charge=%r indices=[%s] sectors(%d)=%s%s' % (
        d['class'], d['symmetry'], d['charge'], ', '.join(ix(i) for i in d['indices']), len(secs),
        json.dumps(secs[:maxblocks]), '...' if len(secs) > maxblocks else '')
    if d.get('fermionic'):
        out += ' minus=%s oddpos=%s' % (json.dumps([s for s, p in d['phases'] if p == -1]),
                                        json.dumps([[l.get('v'), du] for l, du in d['oddpos']]))
    return out


# ------------------------------------------------------------------ random-generator state
def rng_state(rng):
    """JSON-safe state of a random.Random (so that a recorded random choice can be made again)"""
    return state_json(rng.getstate())


def state_json(st):
    """random.Random.getstate() as a JSON-safe dict"""
    v, internal, gauss = st
    return {'version': v, 'internal': list(internal), 'gauss_next': gauss}


def rng_from_state(st):
    rng = random.Random(0)
    rng.setstate((st['version'], tuple(st['internal']), st['gauss_next']))
    return rng


# ------------------------------------------------------------------ the replay record
def record(oracle, inputs=None, params=None):
    """the `replay` field of a violation record; `inputs` values are symmray objects (or lists /
    dicts of them), written with describe_full"""
    def enc(v):
        if is_description(v):
            return v                      # already a full description
        if isinstance(v, (list, tuple)):
            return [enc(e) for e in v]
        if isinstance(v, dict):
            return {k: enc(e) for k, e in v.items()}
        return describe_safe(v)
    return {'oracle': oracle, 'inputs': {k: enc(v) for k, v in (inputs or {}).items()}, 'params': jsonable(params or {})}


def jsonable(v):
    """params: tuples -> lists, numpy scalars -> Python numbers, complex -> {'complex': [re, im]}"""
    if isinstance(v, dict):
        return {str(k): jsonable(e) for k, e in v.items()}
    if isinstance(v, (list, tuple)):
        return [jsonable(e) for e in v]
    if isinstance(v, (bool, np.bool_)):
        return bool(v)
    if isinstance(v, (int, np.integer)):
        return int(v)
    if isinstance(v, (float, np.floating)):
        return float(v)
    if isinstance(v, (complex, np.complexfloating)):
        return {'complex': [float(np.real(v)), float(np.imag(v))]}
    if v is None or isinstance(v, str):
        return v
    return repr(v)


def inputs_of(r, sr=None):
    """rebuild every input of a replay record (lists and dicts of descriptions are followed)"""
    def dec(v):
        if is_description(v):
            return rebuild(v, sr)
        if isinstance(v, list):
            return [dec(e) for e in v]
        if isinstance(v, dict):
            return {k: dec(e) for k, e in v.items()}
        return v
    return {k: dec(v) for k, v in r['replay']['inputs'].items()}


# ------------------------------------------------------------------ proof obligations / ties
class DryCtx(common.Ctx):
    """a context whose violations are only collected (a replay must not write replay files)"""

    def violation(self, what, replay, found_input=True):
        self.violations.append({'what': what, 'replay': None, 'found_input': found_input, 'record': replay})
        return None


def run_info(ctx):
    """seed and tier of the run that found a violation: with them the whole check can be repeated"""
    return {'seed': ctx.seed, 'tier': ctx.tier}


def rerun_in_context(pid, r, path):
    """The recorded case passes when run on its own.  A failure may still depend on what ran before it in
    the same process (fuse cache filled by earlier cases, state shared between arrays): the whole check is
    repeated with the recorded seed and tier in a FRESH process (this one has already touched the caches;
    no evidence or replay files are written) and the case counts as still failing when the very same
    record is reported again."""
    import os
    import subprocess
    import sys
    info = r.get('run')
    if not info:
        return 0
    print('  the case passes on its own; repeating the whole check (seed %s, tier %s) to see whether it fails '
          'in the context of the cases before it' % (info.get('seed'), info.get('tier')))
    sys.stdout.flush()
    here = os.path.dirname(os.path.abspath(__file__))
    code = ('import sys; sys.path.insert(0, %r); import common; sys.path.insert(0, common.REPO); '
            'import replaylib; sys.exit(replaylib.context_child(%r, %r))' % (here, pid, os.path.abspath(path)))
    env = dict(os.environ)
    env.setdefault('PYTHONHASHSEED', '0')
    env.setdefault('PYTHONDONTWRITEBYTECODE', '1')
    p = subprocess.run([sys.executable, '-W', 'ignore', '-c', code], env=env)
    if p.returncode not in (0, 3):
        print('  FAILS the repeated check did not complete (exit status %d): the case cannot be confirmed to pass' % p.returncode)
        return 1
    return 1 if p.returncode == 3 else 0


def context_child(pid, path):
    """(child process of rerun_in_context) exit status 3 = the recorded case is reported again by the whole check"""
    import importlib
    r = json.load(open(path))
    info = r['run']
    module = importlib.import_module(pid.lower())
    ctx = DryCtx(pid, info.get('tier', 'quick'), int(info.get('seed', 0) or 0))
    module.run(ctx)
    want = json.loads(json.dumps(r.get('replay'), sort_keys=True, default=str))
    same = [v for v in ctx.violations
            if json.loads(json.dumps((v['record'] or {}).get('replay'), sort_keys=True, default=str)) == want]
    others = [v['what'] for v in ctx.violations if v not in same]
    if others:
        print('  (the repeated check reports %d violation(s) on other cases: %s)' % (len(others), '; '.join(sorted(set(others)))[:400]))
    if same:
        rec = same[0]['record']
        print('  FAILS in context: %s' % same[0]['what'])
        for key in ('error', 'raised', 'expected', 'expected_dense', 'expected_norm2', 'got', 'got_dense'):
            if key in rec:
                print('      %s: %s' % (key, str(rec[key])[:1200]))
        return 3
    print('  the repeated check does not report this case')
    return 0


def replay_proof_phase(pid, r, module=None):
    """Violation of the form 'proof obligation or tie no longer checks' (no failing input was
    found): print what was recorded as broken and run the proof phase of `./check <pid>` again
    (regenerate Gen/*.v from $SYMMRAY_REPO, make, audit, Print Assumptions).  1 = still broken.
    When the proof phase passes but the record names a broken TIE (model vs implementation
    disagreeing on the correspondence cases), the correspondence run of the module is repeated
    as well, without writing evidence or replay files."""
    broken = r.get('broken', [])
    print('recorded as broken (%d):' % len(broken))
    for b in broken:
        print('  - ' + str(b)[:600])
    ctx = DryCtx(pid)
    ok = common.standard_proof_phase(ctx)
    print('proof phase of %s against %s: %s (%d/%d theorems closed under the global context)' % (
        pid, common.REPO, 'passes' if ok else 'FAILS', ctx.discharged, ctx.obligations))
    for b in ctx.broken:
        print('  still broken: ' + str(b)[:600])
    if not ok:
        print('REPLAY %s: expected every obligation of Props/%s.v to check; got %d broken -> still fails' % (pid, pid, len(ctx.broken)))
        return 1
    proofish = ('Props/', 'forbidden tokens', 'Print Assumptions', 'theorems depending on axioms', 'coqchk')
    ties = [b for b in broken if not any(str(b).startswith(p) for p in proofish)]
    if r.get('exception'):
        # written by the safety net of check.py: the check itself ended in an exception
        print('recorded: the check could not complete: %s' % str(r['exception'])[:600])
        ties = ties or ['the check could not complete']
    if ties and module is not None:
        print('the record names %d broken tie(s); repeating the correspondence run of %s' % (len(ties), pid))
        info = r.get('run') or {}
        ctx2 = DryCtx(pid, info.get('tier', 'quick'), int(info.get('seed', 0) or 0))
        try:
            module.run(ctx2)
        except Exception as e:
            print('  the check still cannot complete: %s: %s' % (type(e).__name__, str(e)[:600]))
            print('REPLAY %s: expected the check to run to its end; got an exception -> still fails' % pid)
            return 1
        for b in ctx2.broken:
            print('  still broken: ' + str(b)[:600])
        for v in ctx2.violations:
            print('  violation: ' + v['what'])
        if ctx2.broken or ctx2.violations:
            print('REPLAY %s: the tie is still broken -> still fails' % pid)
            return 1
    print('REPLAY %s: every obligation checks again -> passes' % pid)
    return 0


# ------------------------------------------------------------------ dispatch
def dispatch(path, pid, oracles, module=None):
    """`oracles`: name -> function(sr, inputs, params, record) returning a list of failures, each a
    dict with a short 'what' and, where it applies, 'expected' and 'got'."""
    import symmray as sr
    r = json.load(open(path))
    print('REPLAY %s %s' % (pid, path))
    print('  recorded: %s' % r.get('what'))
    print('  implementation: %s' % common.REPO)
    rp = r.get('replay')
    if not r.get('found_failing_input', True) or (rp or {}).get('oracle') == 'proof_phase':
        return replay_proof_phase(pid, r, module)
    if not rp or rp.get('oracle') not in oracles:
        print('  this file carries no re-executable description (written by an older version of the check): '
              'run ./check %s again to obtain one' % pid)
        print(json.dumps({k: v for k, v in r.items() if k != 'replay'}, indent=1, default=str)[:3000])
        return 2
    print('  oracle: %s   params: %s' % (rp['oracle'], json.dumps({k: v for k, v in rp['params'].items() if 'rng' not in k}, default=str)[:600]))
    for k, v in rp['inputs'].items():
        for j, e in enumerate(v if isinstance(v, list) else [v]):
            print('  input %s%s: %s' % (k, '[%d]' % j if isinstance(v, list) else '', short(e)))
    try:
        ins = inputs_of(r, sr)
    except Exception as e:
        print('  FAILS the recorded input can no longer be built: %s: %s' % (type(e).__name__, e))
        return 1
    try:
        fails = oracles[rp['oracle']](sr, ins, rp['params'], r)
    except Exception as e:
        import traceback
        tb = traceback.extract_tb(e.__traceback__)[-1]
        fails = [{'what': 'the recorded operation raises', 'expected': 'a result',
                  'got': '%s: %s (%s:%d)' % (type(e).__name__, e, tb.filename.split('/')[-1], tb.lineno)}]
    for f in fails:
        line = '  FAILS %s' % f.get('what', f.get('error', '?'))
        for key in ('expected', 'got'):
            if key in f:
                line += '\n      %s: %s' % (key, str(f[key])[:1200])
        print(line)
    if not fails and rerun_in_context(pid, r, path):
        print('REPLAY %s: still fails (in the context of the whole check only)' % pid)
        return 1
    print('REPLAY %s: %s' % (pid, 'still fails (%d)' % len(fails) if fails else 'passes now'))
    return 1 if fails else 0


def fail_from(bad, what=None):
    """turn the dict an oracle function of a check returns (None = fine) into a failure entry"""
    if bad is None:
        return []
    f = {'what': what or bad.get('error') or bad.get('raised') or 'differs'}
    if what and (bad.get('error') or bad.get('raised')):
        f['what'] = '%s: %s' % (what, bad.get('error') or bad.get('raised'))
    for ke, kg in (('expected_dense', 'got_dense'), ('expected', 'got'), ('expected_norm2', 'got'), ('expected_norm2', 'got_norm2')):
        if ke in bad and kg in bad and 'expected' not in f:
            f['expected'], f['got'] = bad[ke], bad[kg]
    return [f]
