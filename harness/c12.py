"""C12 — spectra and solutions equal those of the dense matrix.

Oracle (tolerance, on the implementation alone): singular values as a multiset
and per charge vs numpy.linalg.svd of the OWN dense embedding (gen.densify),
eigenvalues of Hermitian charge-zero matrices vs numpy.linalg.eigvalsh,
norm() vs the dense Frobenius norm, solve vs numpy.linalg.solve / the dense
residual.  Correspondence: a_norm2 on exact integer data (==), and the
structure of the value containers of svd / eigh against Model/Linalg.v."""
import json

import numpy as np

import common
import gen
import refsym
import c11

IMPORTS = c11.IMPORTS
PREAMBLE = c11.PREAMBLE
SYMS = c11.SYMS
TOL = 1e-8


def col_slices(x):
    lay, _ = gen.index_layout(x.indices[1])
    return {c: slice(o, o + d) for c, (o, d) in lay.items()}


def check_svd_values(sr, sym, x, tol_rel=1e-7):
    import symmray.linalg as la
    fails = []
    try:
        u, s, vh = la.svd(x)
    except Exception as e:
        return ['svd raised %s: %s' % (type(e).__name__, e)], None
    d = gen.densify(x)
    scale = max(1.0, float(np.max(np.abs(d))) if d.size else 1.0)
    tol = tol_rel * scale
    got = np.sort(np.concatenate([np.asarray(b, dtype='float64').reshape(-1) for b in s.blocks.values()]) if s.blocks else np.zeros(0))
    want = np.sort(np.linalg.svd(d, compute_uv=False))
    g, w = got[got > tol], want[want > tol]
    if g.shape != w.shape or not np.all(np.abs(g - w) <= tol):
        fails.append('svd: non-zero singular values %r differ from those of the dense matrix %r' % (np.round(g, 6).tolist(), np.round(w, 6).tolist()))
    if got.size != sum(min(np.shape(b)) for b in x.blocks.values()):
        fails.append('svd: %d values returned for blocks of ranks-at-most %r' % (got.size, [min(np.shape(b)) for b in x.blocks.values()]))
    # per charge: the values stored under charge c are those of the dense columns of charge c
    sl = col_slices(x)
    for c, sb in s.blocks.items():
        if c not in sl:
            fails.append('svd: singular values stored under charge %r which is not a column charge of the input' % (c,))
            continue
        wc = np.linalg.svd(d[:, sl[c]], compute_uv=False)
        got_c = np.asarray(sb, dtype='float64').reshape(-1)
        k = got_c.size
        head = np.concatenate([wc, np.zeros(max(0, k - wc.size))])[:k]
        if not np.all(np.abs(got_c - head) <= tol) or np.any(wc[k:] > tol):
            fails.append('svd: values stored under charge %r are %r, the dense columns of that charge have %r' % (
                c, np.round(got_c, 6).tolist(), np.round(wc, 6).tolist()))
    return fails, (u, s, vh)


def check_norm(x):
    d = gen.densify(x)
    want = float(np.sqrt(np.sum(np.abs(d) ** 2)))
    try:
        got = complex(x.norm())
    except Exception as e:
        return ['norm raised %s: %s' % (type(e).__name__, e)]
    if abs(got.imag) > 1e-12 or abs(got.real - want) > 1e-9 * max(1.0, want):
        return ['norm() = %r, dense Frobenius norm = %r' % (got, want)]
    # the other entry points: symmray.linalg.norm and the autoray dispatch
    import symmray.linalg as la
    import autoray as ar
    for nm, f in (('linalg.norm(x)', lambda: la.norm(x)), ("ar.do('linalg.norm', x)", lambda: ar.do('linalg.norm', x))):
        try:
            g2 = complex(f())
        except Exception as e:
            return ['%s raised %s: %s' % (nm, type(e).__name__, e)]
        if abs(g2.imag) > 1e-12 or abs(g2.real - want) > 1e-9 * max(1.0, want):
            return ['%s = %r, dense Frobenius norm = %r' % (nm, g2, want)]
    return []


def check_eigvals(sr, sym, h):
    import symmray.linalg as la
    fails = []
    try:
        w, v = la.eigh(h)
    except Exception as e:
        return ['eigh raised %s: %s' % (type(e).__name__, e)], None
    d = gen.densify(h)
    scale = max(1.0, float(np.max(np.abs(d))) if d.size else 1.0)
    tol = 1e-7 * scale
    lay, tot = gen.index_layout(h.indices[1])
    stored = {s[1] for s in h.blocks}
    missing = sum(dd for c, (o, dd) in lay.items() if c not in stored)
    got = np.sort(np.concatenate([np.asarray(b, dtype='float64').reshape(-1) for b in w.blocks.values()] + [np.zeros(missing)]))
    want = np.sort(np.linalg.eigvalsh(d))
    if got.shape != want.shape or not np.all(np.abs(got - want) <= tol):
        fails.append('eigh: eigenvalues (with zeros for the %d coordinates of absent sectors) %r differ from eigvalsh of the dense matrix %r' % (
            missing, np.round(got, 6).tolist(), np.round(want, 6).tolist()))
    for c, wb in w.blocks.items():
        if c not in lay:
            fails.append('eigh: eigenvalues stored under charge %r which is not in the table' % (c,))
            continue
        o, dd = lay[c]
        wc = np.linalg.eigvalsh(d[o:o + dd, o:o + dd])
        if np.asarray(wb).shape != wc.shape or not np.all(np.abs(np.asarray(wb, dtype='float64') - wc) <= tol):
            fails.append('eigh: values stored under charge %r are %r, the dense diagonal block has %r' % (c, np.round(np.asarray(wb, dtype="float64"), 6).tolist(), np.round(wc, 6).tolist()))
    return fails, (w, v)


def check_solve_dense(sr, sym, a, b):
    import symmray.linalg as la
    fails = []
    try:
        x = la.solve(a, b)
    except Exception as e:
        return ['solve raised %s: %s' % (type(e).__name__, e)], None
    ad, bd = gen.densify(a), gen.densify(b, indices=[a.indices[0]])
    # the solution lives on the conjugate of a's column index (its own table and direction, not b's)
    if x.ndim != 1 or dict(x.indices[0].chargemap) != dict(a.indices[1].chargemap) or bool(x.indices[0].dual) == bool(a.indices[1].dual):
        fails.append('solve: the index of the solution (%r, dual=%r) is not the conjugate of the column index of a (%r, dual=%r)' % (
            dict(x.indices[0].chargemap) if x.ndim else None, bool(x.indices[0].dual) if x.ndim else None,
            dict(a.indices[1].chargemap), bool(a.indices[1].dual)))
    try:
        xd = gen.densify(x, indices=[a.indices[1]])
    except (KeyError, ValueError) as e:
        return ['solve: the solution does not embed into the second index of a: %s' % e], x
    scale = max(1.0, float(np.max(np.abs(ad))), float(np.max(np.abs(bd))) if bd.size else 1.0)
    tol = 1e-7 * scale
    lay0, _ = gen.index_layout(a.indices[0])
    rows = {s[0] for s in a.blocks}
    res = ad @ xd - bd
    for c, (o, dd) in lay0.items():
        if c in rows and np.any(np.abs(res[o:o + dd]) > tol):
            fails.append('solve: dense(a) . dense(x) differs from dense(b) on the rows of charge %r (max %.3e)' % (c, float(np.max(np.abs(res[o:o + dd])))))
    if ad.shape[0] == ad.shape[1] and np.linalg.matrix_rank(ad) == ad.shape[0]:
        want = np.linalg.solve(ad, bd)
        if np.any(np.abs(want - xd) > tol * 10):
            fails.append('solve: dense(x) differs from numpy.linalg.solve(dense(a), dense(b)) (max %.3e)' % float(np.max(np.abs(want - xd))))
    # columns of a without a stored block paired with b carry no solution entries
    lay1, _ = gen.index_layout(a.indices[1])
    used = {s[1] for s in a.blocks if (s[0],) in b.blocks}
    for c, (o, dd) in lay1.items():
        if c not in used and np.any(np.abs(xd[o:o + dd]) > tol):
            fails.append('solve: the solution is non-zero on charge %r which no (a-block, b-block) pair reaches' % (c,))
    return fails, x


def int_matrix(rng, sr, sym, ferm, cplx):
    """exact integer data, any rank 1-3, for the norm correspondence"""
    x = gen.rand_array(rng, sr, sym, ndim=rng.randint(1, 3), cplx=cplx, fermionic=ferm, oddpos=rng.randint(1, 9) if ferm else None, maxsize=2)
    if ferm:
        x = gen.rand_lazy(rng, sr, x)
    return x


def run(ctx):
    import symmray as sr
    ok = common.standard_proof_phase(ctx)
    rng = ctx.rng
    found = []
    n_mat = 1200 if ctx.thorough else 300
    n_herm = 600 if ctx.thorough else 150
    n_sys = 700 if ctx.thorough else 170
    n_norm = 1000 if ctx.thorough else 250
    exprs, meta = [], []
    stats = {'svd': 0, 'svd_fermionic': 0, 'eigh': 0, 'solve': 0, 'solve_invertible_dense': 0, 'norm': 0, 'missing_blocks': 0, 'complex': 0,
             'rank_deficient_inputs': 0, 'pending_signs': 0}
    for k in range(n_mat):
        sym = SYMS[k % len(SYMS)]
        ferm = (k // len(SYMS)) % 3 == 2
        cplx = rng.random() < 0.35
        x, rec = c11.rand_matrix(rng, sr, sym, ferm, cplx)
        if not x.blocks:
            continue
        ctx.count(2)
        stats['svd'] += 1; stats['svd_fermionic'] += ferm; stats['complex'] += cplx
        stats['pending_signs'] += bool(getattr(x, 'phases', None))
        stats['rank_deficient_inputs'] += any(np.linalg.matrix_rank(b) < min(np.shape(b)) for b in x.blocks.values())
        nvalid = len(refsym.valid_sectors(sym, [list(ix.chargemap) for ix in x.indices], [ix.dual for ix in x.indices], x.charge))
        stats['missing_blocks'] += len(x.blocks) < nvalid
        ctx.nontrivial(('svd', sym, ferm, x.indices[0].dual, x.indices[1].dual, str(sorted(x.blocks)), str([np.shape(b) for b in x.blocks.values()])))
        fails, out = check_svd_values(sr, sym, x)
        fails += check_norm(x)
        if fails:
            found.append((fails[0], {'op': 'svd' if fails[0].startswith('svd') else 'norm', 'failures': fails[:6], 'symmetry': sym, 'input': rec}))
        if out is not None and k % 3 == 0:
            exprs.append(c11.expr_svd(sym, x, *out)); meta.append(('svd value container', sym, k))
        # the same matrix in single precision (float32 / complex64): the values are those of the dense matrix to single precision
        if k % 4 == 1:
            try:
                sdt = 'complex64' if cplx else 'float32'
                x32 = x.copy_with(blocks={kk: np.asarray(v).astype(sdt) for kk, v in x.blocks.items()})
                ctx.count()
                stats['single_precision'] = stats.get('single_precision', 0) + 1
                f32, _ = check_svd_values(sr, sym, x32, tol_rel=2e-4)
                if f32:
                    found.append((f32[0], {'op': 'svd', 'dtype': sdt, 'failures': f32[:6], 'symmetry': sym, 'input': rec}))
            except Exception as e:
                found.append(('svd of a %s matrix raised %s: %s' % (sdt, type(e).__name__, e), {'op': 'svd', 'dtype': sdt, 'symmetry': sym, 'input': rec}))
        if k < 2:
            ctx.sample({'symmetry': sym, 'fermionic': ferm, 'sectors': [str(s) for s in x.blocks], 'block_shapes': [list(np.shape(b)) for b in x.blocks.values()]})
    for k in range(n_herm):
        sym = SYMS[k % len(SYMS)]
        h, rec = c11.rand_hermitian(rng, sr, sym, False, rng.random() < 0.4)
        if not h.blocks:
            continue
        ctx.count()
        stats['eigh'] += 1
        ctx.nontrivial(('eigh', sym, h.indices[1].dual, str(sorted(h.blocks)), str([np.shape(b) for b in h.blocks.values()])))
        fails, out = check_eigvals(sr, sym, h)
        fails += check_norm(h)
        if fails:
            found.append((fails[0], {'op': 'eigh', 'failures': fails[:6], 'symmetry': sym, 'input': rec}))
        if out is not None and k % 3 == 0:
            signs = {c: 1.0 for c in out[0].blocks}
            exprs.append(c11.expr_eigh(sym, h, out[0], out[1], signs)); meta.append(('eigh value container', sym, k))
    for k in range(n_sys):
        sym = SYMS[k % len(SYMS)]
        a, b, ra, rb = c11.rand_system(rng, sr, sym, False, rng.random() < 0.35)
        if not a.blocks or not b.blocks:
            continue
        ctx.count()
        stats['solve'] += 1
        ad = gen.densify(a)
        stats['solve_invertible_dense'] += int(ad.shape[0] == ad.shape[1] and np.linalg.matrix_rank(ad) == ad.shape[0])
        ctx.nontrivial(('solve', sym, a.indices[0].dual, a.indices[1].dual, str(a.charge), str(b.charge), str(sorted(a.blocks)), str(sorted(b.blocks))))
        fails, x = check_solve_dense(sr, sym, a, b)
        if fails:
            found.append((fails[0], {'op': 'solve', 'failures': fails[:6], 'symmetry': sym, 'a': ra, 'b': rb}))
    # norm on exact integer data: the model's a_norm2 equals the implementation's norm^2 (==)
    for k in range(n_norm):
        sym = SYMS[k % len(SYMS)]
        ferm = k % 2 == 1
        cplx = rng.random() < 0.3
        x = int_matrix(rng, sr, sym, ferm, cplx)
        if not x.blocks:
            continue
        ctx.count()
        stats['norm'] += 1
        fails = check_norm(x)
        if fails:
            found.append((fails[0], {'op': 'norm', 'failures': fails, 'symmetry': sym, 'input': c11.recipe(x, None, x)}))
        n2 = int(round(float(np.real(complex(x.norm()))) ** 2))
        ring = gen.ring_of(x)
        arr = gen.garray(x, sym, ring)
        if ring == 'GRing':
            exprs.append('pair_eqb Z.eqb Z.eqb (a_norm2 %s GRing %s) (%d, 0)' % (sym, arr, n2))
        else:
            exprs.append('Z.eqb (a_norm2 %s ZRing %s) %d' % (sym, arr, n2))
        meta.append(('norm2', sym, k))
    bad_idx = common.run_cases(ctx, 'dense', IMPORTS, PREAMBLE, exprs, shard=60)
    tie_broken = []
    if bad_idx is None:
        tie_broken.append('cases.v (norm / value containers vs implementation) did not evaluate')
    elif bad_idx:
        tie_broken += ['model of %s disagrees with the implementation (symmetry %s, case %d)' % meta[i] for i in bad_idx[:10]]
        ctx.extra['disagreeing_cases'] = [exprs[i][:3000] for i in bad_idx[:2]]
    seen = set()
    for what, rep in found:
        key = (rep['op'], what.split(':')[1][:30] if ':' in what else what[:30])
        if key in seen or len(seen) >= 5:
            continue
        seen.add(key)
        ctx.violation(what, {'oracle': 'numpy.linalg on the own dense embedding (tolerance)', **rep})
    ctx.broken += tie_broken
    if (not ok or tie_broken) and not found:
        ctx.violation('proof obligation or tie of C12 no longer checks', {'broken': ctx.broken}, found_input=False)
    ctx.extra['case_classes'] = stats
    ctx.extra['tie'] = {'model_cases': len(exprs)}
    ctx.note('C12 is PARTIAL in Coq: uniqueness of the spectrum of a real/complex matrix is not formalised (Props/C12.v C12_full); '
             'the oracle compares with numpy.linalg on the dense embedding instead')
    ctx.coverage['rule'] = ('abelian matrices over five symmetries and fermionic ones (singular values, norm): direct or fused from rank 3-4, all '
                            'direction patterns and charges, tall / wide / square / rank-deficient blocks, missing blocks, real and complex; '
                            'Hermitian charge-zero matrices (eigenvalues), square-block systems (solve); integer arrays of rank 1-3 (norm, exact); '
                            'distinct by (operation, symmetry, directions, sectors, block shapes)')


def replay(path):
    import symmray as sr
    r = json.load(open(path))
    sym = r.get('symmetry')
    print(json.dumps({k: v for k, v in r.items() if k not in ('input', 'a', 'b')}, indent=1)[:3000])
    if r.get('op') in ('svd', 'norm', 'eigh') and 'input' in r:
        x = c11.from_recipe(sr, sym, r['input'])
        fails = check_norm(x)
        if r['op'] == 'svd':
            fails += check_svd_values(sr, sym, x)[0]
        elif r['op'] == 'eigh':
            fails += check_eigvals(sr, sym, x)[0]
    elif r.get('op') == 'solve':
        fails = check_solve_dense(sr, sym, c11.from_recipe(sr, sym, r['a']), c11.from_recipe(sr, sym, r['b']))[0]
    else:
        return 0
    print('replayed on the working tree: %d failure(s)' % len(fails))
    for f in fails[:8]:
        print('  ', f)
    return 1 if fails else 0
