"""C04 — a fermionic network's value does not depend on how it is contracted.

Proof phase: Props/C04.v (label order, the phased sort/annihilation loop,
label-level associativity, Koszul algebra, the generated Koszul routine).
Correspondence: Gen.OpOrder vs FermionicOperator, Model.Oddpos AND the function
generated from the current source (Gen.OddposGen, tr/gen_oddpos.py; theorems
Props/C04e.v) vs the real resolve_combined_oddpos on stub operands,
Gen.PhasePerm vs calc_phase_permutation.
Oracle (the property itself, on the implementation): random fermionic networks
contracted along every pairwise order with all the variations the property
names; all routes must agree exactly, and agree with an independent dense
graded-tensor evaluation written here from the definition."""
import itertools
import json

import numpy as np

import common
from common import gz, gbool, glist
import refsym

IMPORTS = 'From SV Require Import Gen.OpOrder Gen.PhasePerm Model.Graded Model.Oddpos.\n'
PREAMBLE = '''
Definition res_eqb (r : result) (e : option (bool * list op)) : bool :=
  match r, e with
  | Raise, None => true
  | Done s w, Some (s', w') => Bool.eqb s s' && list_eqb op_eq w w'
  | _, _ => false
  end.
Definition lbl_eqb (a b : op) : bool := list_eqb Z.eqb (fst a) (fst b) && Bool.eqb (snd a) (snd b).
'''
# the function generated from the current source of resolve_combined_oddpos (own cases file: the hand-model
# tie above keeps evaluating when Gen/OddposGen.v is missing because the translator refused the source)
IMPORTS_GEN = 'From SV Require Import Gen.OpOrder Gen.OddposGen.\n'
PREAMBLE_GEN = '''
Definition gen_eqb (g : gen_result) (e : option (bool * list op)) : bool :=
  match g, e with
  | GenRaise, None => true
  | GenDone s w, Some (s', w') => Bool.eqb s s' && list_eqb op_eq w w'
  | _, _ => false
  end.
'''


# ------------------------------------------------------------------ labels
def enc_label(x):
    """label -> list of ints (the representation fixed in tr/gen_oporder.py)"""
    if isinstance(x, bool):
        raise TypeError('bool label')
    if isinstance(x, int):
        return [x]
    if isinstance(x, str):
        return [ord(c) for c in x]
    if isinstance(x, tuple) and all(isinstance(y, int) and not isinstance(y, bool) for y in x):
        return list(x)
    raise TypeError('label %r outside the modelled kinds' % (x,))


def g_label(x):
    return glist([gz(v) for v in enc_label(x)])


def g_op(label, dual):
    return '(%s, %s)' % (g_label(label), gbool(dual))


def g_ops(ops):
    return glist([g_op(l, d) for l, d in ops])


POOLS = {
    'int': [-2, -1, 1, 2, 3, 10],
    'tuple': [(0,), (0, 0), (0, 1), (1,), (1, -1), (1, 0), (2, 5)],
    'str': ['', 'a', 'ab', 'b', 'ba', 'B'],
}


def ref_lt(a, b):
    """the documented order, written independently: creation (dual) operators
    first, reflected; then annihilation operators ascending"""
    (la, da), (lb, db) = a, b
    if da != db:
        return da
    return (la > lb) if da else (la < lb)


def ref_sorted(ops):
    out = []
    for o in ops:
        i = 0
        while i < len(out) and ref_lt(out[i], o):
            i += 1
        out.insert(i, o)
    return out


# ------------------------------------------------------------------ stubs for resolve_combined_oddpos
class _Stub:
    def __init__(self, oddpos, parity):
        self.oddpos = tuple(oddpos)
        self.parity = parity


class _New:
    def __init__(self):
        self.flips = 0
        self._oddpos = None

    def phase_global(self, inplace=False):
        self.flips += 1
        return self


def run_resolve(fc, FO, l, r, parity):
    """real resolve_combined_oddpos on stub operands -> None (ValueError) or (sign, [(label, dual)])"""
    left = _Stub([FO(a, d) for a, d in l], 1 if parity else 0)
    right = _Stub([FO(a, d) for a, d in r], 0)
    new = _New()
    try:
        fc.resolve_combined_oddpos(left, right, new)
    except ValueError:
        return None
    return (new.flips % 2 == 1, [(o.label, o.dual) for o in new._oddpos])


def gen_resolve_cases(rng, n):
    out = []
    for _ in range(n):
        kind = rng.choice(list(POOLS))
        pool = POOLS[kind]
        regime = rng.choice(['sorted', 'sorted', 'unsorted', 'conj', 'conj', 'dup', 'empty', 'nondual'])
        k = rng.randint(0, min(5, len(pool)))
        labs = rng.sample(pool, k)
        ops = [(x, rng.random() < 0.4) for x in labs]
        if regime == 'nondual':
            ops = [(x, False) for x in labs]
        cut = rng.randint(0, len(ops))
        l, r = ops[:cut], ops[cut:]
        if regime in ('sorted', 'nondual'):
            l, r = ref_sorted(l), ref_sorted(r)
        elif regime == 'conj':
            l, r = ref_sorted(l), ref_sorted(r)
            for _ in range(rng.randint(1, 2)):
                if l + r:
                    x, d = rng.choice(l + r)
                    tgt = rng.choice([l, r])
                    if (x, not d) not in l + r:
                        tgt.insert(rng.randint(0, len(tgt)), (x, not d))
            if rng.random() < 0.6:
                l, r = ref_sorted(l), ref_sorted(r)
        elif regime == 'dup':
            if l + r:
                x, d = rng.choice(l + r)
                tgt = rng.choice([l, r])
                tgt.insert(rng.randint(0, len(tgt)), (x, d))
        elif regime == 'empty':
            if rng.random() < 0.5:
                l = []
            else:
                r = []
            if rng.random() < 0.3:
                l, r = [], []
        out.append((l, r, rng.random() < 0.5, regime))
    return out


# ------------------------------------------------------------------ networks
POOL_CH = {
    'Z2': [0, 1],
    'U1': [-1, 0, 1, 2],
    'Z2Z2': [(0, 0), (0, 1), (1, 0), (1, 1)],
    'U1U1': [(0, 0), (0, 1), (1, 0), (1, 1), (-1, 0), (1, -1)],
}
NET_SYMS = ['Z2', 'U1', 'Z2Z2', 'U1U1']


def tup(c):
    return tuple(c) if isinstance(c, list) else c


def gen_network(rng, sym=None, n=None, topo=None):
    """explicit, JSON-serialisable network"""
    sym = sym or rng.choice(NET_SYMS)
    n = n or rng.choice([2, 3, 3, 3, 4, 4])
    if topo is None:
        topo = rng.choice(['chain', 'chain', 'triangle'] if n == 3 else (['chain'] if n == 2 else ['chain', 'ring', 'star', 'chain+']))
    pairs = {'chain': [(i, i + 1) for i in range(n - 1)],
             'triangle': [(0, 1), (1, 2), (0, 2)],
             'ring': [(i, (i + 1) % n) for i in range(n)],
             'star': [(0, i) for i in range(1, n)],
             'chain+': [(i, i + 1) for i in range(n - 1)] + [(0, 2)]}[topo]
    pairs = list(pairs)
    if rng.random() < 0.3:      # a double bond: several indices at once
        pairs.append(rng.choice(pairs))
    dangling = rng.random() < 0.65
    pool = POOL_CH[sym]
    legs = [[] for _ in range(n)]     # per tensor: (name, chargemap, dual)
    for k, (i, j) in enumerate(pairs):
        cm = sorted(rng.sample(pool, rng.choice([1, 2, 2, 2, min(3, len(pool))])))
        cmap = [[c, rng.randint(1, 2)] for c in cm]
        d = rng.random() < 0.5
        legs[i].append(('b%d' % k, cmap, d))
        legs[j].append(('b%d' % k, cmap, not d))
    nd = 0
    if dangling:
        for i in range(n):
            for _ in range(rng.choice([0, 1, 1, 2])):
                if len(legs[i]) >= 4:
                    break
                cm = sorted(rng.sample(pool, rng.randint(1, min(2, len(pool)))))
                legs[i].append(('d%d' % nd, [[c, rng.randint(1, 2)] for c in cm], rng.random() < 0.5))
                nd += 1
    kind = rng.choice(list(POOLS))
    labels = rng.sample(POOLS[kind], n)
    want_par = [rng.random() < 0.6 for _ in range(n)]
    for i in range(n):
        rng.shuffle(legs[i])
    # one jointly valid "witness" configuration (a charge per bond / dangling leg) fixes the total
    # charges, so that the network is not trivially zero; re-drawn to approach the wanted parities
    cmap_of = {nm: cm for i in range(n) for nm, cm, _ in legs[i]}
    best = None
    for _ in range(25):
        wit = {nm: tup(rng.choice(cm)[0]) for nm, cm in sorted(cmap_of.items())}
        qs = [refsym.csum(sym, [refsym.signed(sym, wit[nm], d) for nm, _, d in legs[i]]) for i in range(n)]
        score = sum(bool(refsym.par(sym, q)) == w for q, w in zip(qs, want_par))
        if best is None or score > best[0]:
            best = (score, wit, qs)
        if score == n:
            break
    _, wit, qs = best
    tensors = []
    for i in range(n):
        q = qs[i]
        wsec = tuple(wit[nm] for nm, _, _ in legs[i])
        chs = [[tup(c) for c, _ in cm] for _, cm, _ in legs[i]]
        sizes = [{tup(c): s for c, s in cm} for _, cm, _ in legs[i]]
        duals = [d for _, _, d in legs[i]]
        blocks = []
        secs = refsym.valid_sectors(sym, chs, duals, q)
        sparse = rng.random() < 0.5
        for s in secs:
            if sparse and tuple(s) != wsec and rng.random() < 0.4:
                continue
            shape = [sizes[a][c] for a, c in enumerate(s)]
            data = [rng.randint(-2, 2) for _ in range(int(np.prod(shape)) if shape else 1)]
            blocks.append([list(s), shape, data])
        odd = bool(refsym.par(sym, q))
        tensors.append({'legs': [nm for nm, _, _ in legs[i]],
                        'indices': [{'chargemap': cm, 'dual': d} for _, cm, d in legs[i]],
                        'charge': q, 'odd': odd,
                        'label': labels[i] if (odd or rng.random() < 0.3) else None,
                        'label_dual': rng.random() < 0.3,
                        'blocks': blocks})
    return {'symmetry': sym, 'topology': topo, 'label_kind': kind, 'tensors': tensors}


def fix_label(x):
    return tuple(x) if isinstance(x, list) else x


def build_arrays(sr, FO, net):
    out = []
    for t in net['tensors']:
        ixs = [sr.BlockIndex({tup(c): s for c, s in ix['chargemap']}, dual=ix['dual']) for ix in t['indices']]
        blocks = {tuple(tup(c) for c in s): np.array(data, dtype='float64').reshape(shape) for s, shape, data in t['blocks']}
        lab = fix_label(t['label'])
        oddpos = None if lab is None else FO(lab, bool(t['label_dual']))
        arr = sr.FermionicArray(indices=ixs, charge=tup(t['charge']), blocks=blocks, symmetry=net['symmetry'], oddpos=oddpos)
        out.append((arr, list(t['legs'])))
    return out


def gen_route(rng, net, seq, plain=False):
    """seq: list of (id_a, id_b) over tensor ids (initial 0..n-1, results n, n+1, ...).
    Adds the variations: operand order, listing order, prior transposes,
    several-at-once vs one-after-another, negative axes, mode."""
    n = len(net['tensors'])
    legs = {i: list(t['legs']) for i, t in enumerate(net['tensors'])}
    steps = []
    nxt = n
    for (i, j) in seq:
        a, b = (i, j)
        if not plain and rng.random() < 0.5:
            a, b = b, a
        la, lb = list(legs[a]), list(legs[b])
        pre_a = pre_b = None
        if not plain and rng.random() < 0.4 and len(la) > 1:
            pre_a = list(range(len(la)))
            rng.shuffle(pre_a)
            la = [la[p] for p in pre_a]
        if not plain and rng.random() < 0.4 and len(lb) > 1:
            pre_b = list(range(len(lb)))
            rng.shuffle(pre_b)
            lb = [lb[p] for p in pre_b]
        shared = [x for x in la if x in lb]
        if not plain:
            rng.shuffle(shared)
        split = None
        if not plain and len(shared) >= 2 and rng.random() < 0.5:
            split = rng.randint(1, len(shared) - 1)
        mode = 'blockwise' if plain else rng.choice(['fused', 'blockwise', 'auto'])
        neg = (not plain) and rng.random() < 0.3
        steps.append({'a': a, 'b': b, 'pre_a': pre_a, 'pre_b': pre_b, 'order': shared, 'split': split,
                      'mode': mode, 'neg': neg})
        first = shared if split is None else shared[:split]
        res = [x for x in la if x not in first] + [x for x in lb if x not in first]
        if split is not None:
            rest = shared[split:]
            res = [x for x in res if x not in rest]
        legs[nxt] = res
        del legs[a], legs[b]
        nxt += 1
    return steps


def all_sequences(net, connected_only=True):
    """every order of pairwise contractions (as sequences of id pairs)"""
    n = len(net['tensors'])
    legs0 = {i: set(t['legs']) for i, t in enumerate(net['tensors'])}
    out = []

    def rec(legs, nxt, acc):
        ids = sorted(legs)
        if len(ids) == 1:
            out.append(list(acc))
            return
        for x in range(len(ids)):
            for y in range(x + 1, len(ids)):
                i, j = ids[x], ids[y]
                if connected_only and not (legs[i] & legs[j]):
                    continue
                new = dict(legs)
                new[nxt] = legs[i] ^ legs[j]
                del new[i], new[j]
                rec(new, nxt + 1, acc + [(i, j)])

    rec(legs0, n, [])
    return out


def run_route(sr, FO, net, steps):
    """contract along the route with the real implementation; returns the
    canonical form of the result: (leg names sorted, indices, blocks, oddpos)"""
    arrs = dict(enumerate(build_arrays(sr, FO, net)))
    nxt = len(arrs)
    for st in steps:
        A, la = arrs.pop(st['a'])
        B, lb = arrs.pop(st['b'])
        if st['pre_a'] is not None:
            A = A.transpose(tuple(st['pre_a']))
            la = [la[p] for p in st['pre_a']]
        if st['pre_b'] is not None:
            B = B.transpose(tuple(st['pre_b']))
            lb = [lb[p] for p in st['pre_b']]
        shared = st['order']
        first = shared if st['split'] is None else shared[:st['split']]
        ax_a = [la.index(x) for x in first]
        ax_b = [lb.index(x) for x in first]
        if st['neg']:
            ax_a = [x - len(la) for x in ax_a]
            ax_b = [x - len(lb) if k % 2 else x for k, x in enumerate(ax_b)]
        C = sr.tensordot(A, B, axes=(tuple(ax_a), tuple(ax_b)), mode=st['mode'], preserve_array=True)
        lc = [x for x in la if x not in first] + [x for x in lb if x not in first]
        if C.ndim == 0 and st['split'] is None:
            # the plain-number return path of a full contraction (preserve_array left at its default) must be the same number
            val = sr.tensordot(A, B, axes=(tuple(ax_a), tuple(ax_b)), mode=st['mode'])
            cs = C.phase_sync()
            held = complex(np.asarray(cs.blocks[()]).item()) if cs.blocks else 0j
            if complex(np.asarray(val).item()) != held:
                raise AssertionError('full contraction returned as a plain number gives %r, as a rank-0 array it holds %r' % (complex(np.asarray(val).item()), held))
        if st['split'] is not None:
            # the remaining shared bonds are traced afterwards (one einsum:
            # numpy forbids a repeated subscript in the output)
            rest = shared[st['split']:]
            letters = {}
            lhs = ''
            for nm in lc:
                if nm not in letters:
                    letters[nm] = chr(ord('a') + len(letters))
                lhs += letters[nm]
            keep = [nm for nm in lc if nm not in rest]
            C = C.einsum(lhs + '->' + ''.join(letters[nm] for nm in keep), preserve_array=True)
            lc = keep
        arrs[nxt] = (C, lc)
        nxt += 1
    (R, lr), = arrs.values()
    names = sorted(lr)
    if len(lr) > 1:
        R = R.transpose(tuple(lr.index(x) for x in names))
    R = R.phase_sync()
    return canon_result(R, names)


def canon_result(R, names):
    idx = [(sorted((tup(c), int(s)) for c, s in ix.chargemap.items()), bool(ix.dual)) for ix in R.indices]
    blocks = {}
    for s, blk in R.blocks.items():
        arr = np.asarray(blk)
        if np.any(arr != 0):
            blocks[tuple(s)] = arr
    odd = [(o.label, bool(o.dual)) for o in R.oddpos]
    return {'names': names, 'indices': idx, 'blocks': blocks, 'oddpos': odd, 'charge': R.charge}


def same_result(x, y):
    """exact equality; absent block == zero block; charge tables compared on
    the charges that carry a non-zero block or are present in both"""
    if x['names'] != y['names'] or x['oddpos'] != y['oddpos'] or x['charge'] != y['charge']:
        return False
    if [d for _, d in x['indices']] != [d for _, d in y['indices']]:
        return False
    if set(x['blocks']) != set(y['blocks']):
        return False
    return all(x['blocks'][s].shape == y['blocks'][s].shape and np.array_equal(x['blocks'][s], y['blocks'][s])
               for s in x['blocks'])


def show_result(x):
    return {'names': x['names'], 'oddpos': [[l, d] for l, d in x['oddpos']], 'charge': x['charge'],
            'duals': [d for _, d in x['indices']],
            'blocks': {str(s): b.tolist() for s, b in sorted(x['blocks'].items(), key=lambda kv: str(kv[0]))}}


# ------------------------------------------------------------------ independent dense graded evaluation
def reference_value(net):
    """[[N]] from the definition (DESIGN 2.3): canonical order = dummies sorted
    by the documented label order, then (bra, ket) = (dual end, non-dual end)
    per bond, then dangling legs by name.  Element of the result (labels =
    sorted dummies, legs = dangling by name) = sum over bond values of the
    product of tensor elements times (-1)^(odd-odd inversions of the
    concatenated words w.r.t. the canonical order).  No symmray code."""
    sym = net['symmetry']
    T = net['tensors']
    dummies = []
    for t in T:
        if t['odd']:
            dummies.append((fix_label(t['label']), bool(t['label_dual'])))
    sorted_d = ref_sorted(dummies)
    canon = {}
    for k, d in enumerate(sorted_d):
        canon[('D', d)] = k
    base = len(sorted_d)
    bond_names = sorted({nm for t in T for nm in t['legs'] if nm.startswith('b')})
    for k, nm in enumerate(bond_names):
        canon[(nm, True)] = base + 2 * k        # bra = dual end
        canon[(nm, False)] = base + 2 * k + 1   # ket
    dang = sorted({nm for t in T for nm in t['legs'] if nm.startswith('d')})
    for k, nm in enumerate(dang):
        canon[(nm, None)] = base + 2 * len(bond_names) + k
    # the word: per tensor its dummy then its legs in axis order
    word = []          # (canon position, leg name or None)
    for t in T:
        if t['odd']:
            word.append((canon[('D', (fix_label(t['label']), bool(t['label_dual'])))], None))
        for nm, ix in zip(t['legs'], t['indices']):
            word.append((canon[(nm, ix['dual'])] if nm.startswith('b') else canon[(nm, None)], nm))
    # coordinates of every leg name
    cmaps = {}
    for t in T:
        for nm, ix in zip(t['legs'], t['indices']):
            cmaps[nm] = [(tup(c), s) for c, s in ix['chargemap']]
    names = bond_names + dang
    coords = {nm: [(c, o) for c, s in cmaps[nm] for o in range(s)] for nm in names}
    blocks = [{tuple(tup(c) for c in s): np.array(data, dtype='float64').reshape(shape) for s, shape, data in t['blocks']} for t in T]
    result = {}
    # enumerate sector assignments first (cheap pruning), then offsets
    charges = {nm: [c for c, _ in cmaps[nm]] for nm in names}
    for csel in itertools.product(*[charges[nm] for nm in names]):
        ch = dict(zip(names, csel))
        secs = [tuple(ch[nm] for nm in t['legs']) for t in T]
        if any(s not in b for s, b in zip(secs, blocks)):
            continue
        # sign of this sector assignment
        par = [True if nm is None else bool(refsym.par(sym, ch[nm])) for _, nm in word]
        pos = [p for p, _ in word]
        inv = 0
        for x in range(len(word)):
            if par[x]:
                for y in range(x + 1, len(word)):
                    if par[y] and pos[x] > pos[y]:
                        inv += 1
        sgn = -1.0 if inv % 2 else 1.0
        sizes = {nm: dict(cmaps[nm])[ch[nm]] for nm in names}
        for offs in itertools.product(*[range(sizes[nm]) for nm in names]):
            of = dict(zip(names, offs))
            v = sgn
            for t, s, b in zip(T, secs, blocks):
                v *= b[s][tuple(of[nm] for nm in t['legs'])]
                if v == 0:
                    break
            if v == 0:
                continue
            key = (tuple(ch[nm] for nm in dang), tuple(of[nm] for nm in dang))
            result[key] = result.get(key, 0.0) + v
    # conjugate dummies standing as (x+, x-) in the canonical order evaluate to 1
    left = list(sorted_d)
    k = 0
    while k < len(left) - 1:
        if left[k][0] == left[k + 1][0] and left[k][1] and not left[k + 1][1]:
            del left[k:k + 2]
            k = max(0, k - 1)
        else:
            k += 1
    return {'names': dang, 'oddpos': left, 'values': {k: v for k, v in result.items() if v != 0}}


def result_values(x):
    out = {}
    for s, b in x['blocks'].items():
        for off in itertools.product(*[range(k) for k in b.shape]):
            v = float(b[off])
            if v != 0:
                out[(tuple(s), tuple(off))] = v
    return out


def agrees_with_reference(x, ref):
    return x['names'] == ref['names'] and x['oddpos'] == ref['oddpos'] and result_values(x) == ref['values']


# ------------------------------------------------------------------ the oracle
def check_network(ctx, sr, FO, net, nvar, stats, outer=False):
    """returns a replay dict for the first disagreement, or None"""
    seqs = all_sequences(net, connected_only=not outer)
    if not seqs:
        return None
    base_steps = gen_route(ctx.rng, net, seqs[0], plain=True)
    try:
        base = run_route(sr, FO, net, base_steps)
    except Exception as e:   # the plain route itself raises
        return {'oracle': 'route_raises', 'network': net, 'route': base_steps, 'error': '%s: %s' % (type(e).__name__, e)}
    ctx.count()
    ref = reference_value(net)
    if not agrees_with_reference(base, ref):
        return {'oracle': 'reference', 'network': net, 'route': base_steps, 'got': show_result(base),
                'expected_oddpos': [[l, d] for l, d in ref['oddpos']],
                'expected_values': {str(k): v for k, v in ref['values'].items()}}
    nodd = sum(1 for t in net['tensors'] if t['odd'])
    nontrivial = bool(base['blocks']) and (nodd >= 2 or len(net['tensors']) >= 3)
    if nontrivial:
        ctx.nontrivial(json.dumps(net, sort_keys=True, default=str))
    stats['networks'] += 1
    stats['odd_tensors_%d' % min(nodd, 3)] = stats.get('odd_tensors_%d' % min(nodd, 3), 0) + 1
    stats['nonzero'] += bool(base['blocks'])
    stats['sym_' + net['symmetry']] = stats.get('sym_' + net['symmetry'], 0) + 1
    for seq in seqs:
        for v in range(nvar):
            steps = gen_route(ctx.rng, net, seq, plain=False)
            try:
                got = run_route(sr, FO, net, steps)
            except Exception as e:
                return {'oracle': 'route_raises', 'network': net, 'route': steps, 'error': '%s: %s' % (type(e).__name__, e)}
            ctx.count()
            stats['routes'] += 1
            for st in steps:
                stats['swapped'] += st['a'] > st['b']
                stats['split'] += st['split'] is not None
                stats['pretransposed'] += (st['pre_a'] is not None) + (st['pre_b'] is not None)
                stats['mode_' + st['mode']] = stats.get('mode_' + st['mode'], 0) + 1
            if not same_result(got, base):
                return {'oracle': 'two_routes', 'network': net, 'route_1': base_steps, 'route_2': steps,
                        'result_1': show_result(base), 'result_2': show_result(got)}
    return None


def conjugate_pair_network(ctx, sr, FO):
    """The annihilation branch (conjugate labels x-, x+ meet) is reached only
    when a tensor meets a tensor carrying the conjugate label.  Network
    {conj(x), x} fully contracted: the elements of conj(x) are READ from the
    implementation (conj itself belongs to C10), the contraction of the two is
    what is checked here (both operand orders, all variations, reference)."""
    rng = ctx.rng
    net = gen_network(rng, n=2, topo='chain')
    t = dict(net['tensors'][0])
    if t['label'] is None:
        t['label'] = POOLS[net['label_kind']][0]
    t['legs'] = ['b%d' % k for k in range(len(t['legs']))]
    one = {'symmetry': net['symmetry'], 'topology': 'single', 'label_kind': net['label_kind'], 'tensors': [t]}
    (x, _), = build_arrays(sr, FO, one)
    xc = x.conj().phase_sync()
    tc = {'legs': list(t['legs']),
          'indices': [{'chargemap': ix['chargemap'], 'dual': not ix['dual']} for ix in t['indices']],
          'charge': xc.charge, 'odd': t['odd'], 'label': t['label'], 'label_dual': not t['label_dual'],
          'blocks': [[list(s), list(np.asarray(b).shape), [float(v) for v in np.asarray(b).reshape(-1)]]
                     for s, b in xc.blocks.items()]}
    order = [tc, t] if rng.random() < 0.5 else [t, tc]
    return {'symmetry': net['symmetry'], 'topology': 'conjugate_pair', 'label_kind': net['label_kind'], 'tensors': order}


def conjugate_network(ctx, sr, FO):
    """{x, y, conj(y), conj(x)} with x - y bonded, every dangling leg contracted with its conjugate: among the
    routes is "ket network, bra network, overlap", whose label list [a, b, b+, a+] holds NESTED conjugate pairs
    (after the inner pair is annihilated the outer pair becomes adjacent).  The elements of the conjugates are read
    from the implementation (conj belongs to C10); what is checked is that all routes agree with each other and
    with the independent reference."""
    rng = ctx.rng
    for _ in range(30):
        net = gen_network(rng, n=2, topo='chain')
        if all(t['odd'] and t['label'] is not None for t in net['tensors']):
            break
    else:
        return None
    count = {}
    for t in net['tensors']:
        for nm in t['legs']:
            count[nm] = count.get(nm, 0) + 1
    # (names starting with 'b' are bonds for the reference: the dangling legs of the ket become bonds to the bra)
    ren = lambda nm: nm if count[nm] == 2 else 'bk' + nm
    out = [dict(t, legs=[ren(nm) for nm in t['legs']]) for t in net['tensors']]
    bras = []
    for t in net['tensors']:
        one = {'symmetry': net['symmetry'], 'topology': 'single', 'label_kind': net['label_kind'], 'tensors': [t]}
        (x, _), = build_arrays(sr, FO, one)
        xc = x.conj().phase_sync()
        bras.append({'legs': [nm + 'c' if count[nm] == 2 else ren(nm) for nm in t['legs']],
                     'indices': [{'chargemap': ix['chargemap'], 'dual': not ix['dual']} for ix in t['indices']],
                     'charge': xc.charge, 'odd': t['odd'], 'label': t['label'], 'label_dual': not t['label_dual'],
                     'blocks': [[list(sc), list(np.asarray(b).shape), [float(v) for v in np.asarray(b).reshape(-1)]]
                                for sc, b in xc.blocks.items()]})
    tensors = out + bras[::-1]
    if rng.random() < 0.3:
        rng.shuffle(tensors)
    return {'symmetry': net['symmetry'], 'topology': 'ket-bra network', 'label_kind': net['label_kind'], 'tensors': tensors}


def shrink_route(sr, FO, net, base_steps, steps):
    """drop variations one at a time while the disagreement persists"""
    def bad(s):
        try:
            return not same_result(run_route(sr, FO, net, s), run_route(sr, FO, net, base_steps))
        except Exception:
            return False
    cur = [dict(s) for s in steps]
    for k in range(len(cur)):
        for field, plainv in (('pre_a', None), ('pre_b', None), ('neg', False), ('mode', 'blockwise')):
            if cur[k][field] != plainv:
                trial = [dict(s) for s in cur]
                trial[k][field] = plainv
                # legs bookkeeping of later steps depends on pre_a / pre_b only through names: unaffected
                if bad(trial):
                    cur = trial
    return cur


# ------------------------------------------------------------------ run
def run(ctx):
    import symmray as sr
    import symmray.fermionic_core as fc
    from symmray.fermionic_local_operators import FermionicOperator as FO
    from symmray.symmetries import calc_phase_permutation
    rng = ctx.rng
    ok = common.standard_proof_phase(ctx)
    tie_broken = []

    # ---- tie 1: Gen.OpOrder vs FermionicOperator (exhaustive over small label sets)
    exprs, meta = [], []
    for kind, pool in POOLS.items():
        ops = [(x, d) for x in pool for d in (False, True)]
        for a in ops:
            pa = FO(*a)
            dg = pa.dag
            exprs.append('lbl_eqb (op_dag %s) %s' % (g_op(*a), g_op(dg.label, dg.dual)))
            meta.append(('dag', a))
            for b in ops:
                pb = FO(*b)
                exprs.append('Bool.eqb (op_lt %s %s) %s' % (g_op(*a), g_op(*b), gbool(bool(pa < pb))))
                meta.append(('__lt__', (a, b)))
                exprs.append('Bool.eqb (op_eq %s %s) %s' % (g_op(*a), g_op(*b), gbool(bool(pa == pb))))
                meta.append(('__eq__', (a, b)))
        for _ in range(20):
            l = [(rng.choice(pool), rng.random() < 0.5) for _ in range(rng.randint(0, 5))]
            got = fc.oddpos_dag(tuple(FO(*o) for o in l))
            exprs.append('list_eqb lbl_eqb (oddpos_dag %s) %s' % (g_ops(l), g_ops([(o.label, o.dual) for o in got])))
            meta.append(('oddpos_dag', l))
    ctx.count(len(exprs))
    bad = common.run_cases(ctx, 'oporder', IMPORTS, PREAMBLE, exprs)
    if bad is None:
        tie_broken.append('cases.v (Gen.OpOrder vs FermionicOperator) did not evaluate')
    elif bad:
        tie_broken += ['Gen.OpOrder.%s disagrees with Python on %r' % meta[i] for i in bad[:6]]
    n_op = len(exprs)

    # ---- tie 2: Model.Oddpos vs the real resolve_combined_oddpos on stubs
    cases = gen_resolve_cases(rng, 3000 if ctx.thorough else 500)
    exprs2, meta2, exprs2g = [], [], []
    cov = {'parity_and_odd_true': 0, 'parity_and_odd_false': 0, 'swap': 0, 'annihilate_sign': 0, 'annihilate_nosign': 0,
           'raise': 0, 'empty': 0}
    for (l, r, p, regime) in cases:
        got = run_resolve(fc, FO, l, r, p)
        e = 'None' if got is None else '(Some (%s, %s))' % (gbool(got[0]), g_ops(got[1]))
        exprs2.append('res_eqb (resolve_raw %s %s %s) %s && res_eqb (resolve_raw_idx %s %s %s) %s' % (
            g_ops(l), g_ops(r), gbool(p), e, g_ops(l), g_ops(r), gbool(p), e))
        # generated function: once with exactly the fuel the termination theorem names ((|l|+|r|)^2 + 1), once with more
        nlab = len(l) + len(r)
        exprs2g.append('gen_eqb (resolve_combined_oddpos_gen %d%%nat %s %s %s) %s && gen_eqb (resolve_combined_oddpos_gen %d%%nat %s %s %s) %s' % (
            nlab * nlab + 1, g_ops(l), g_ops(r), gbool(p), e, nlab * nlab + 7, g_ops(l), g_ops(r), gbool(p), e))
        meta2.append((l, r, p, got))
        cov['parity_and_odd_true' if (p and len(r) % 2) else 'parity_and_odd_false'] += 1
        cov['raise'] += got is None
        cov['empty'] += not (l or r)
        if got is not None:
            cov['swap'] += (l + r != ref_sorted(l + r))
            w = l + r
            for k in range(len(w) - 1):
                if w[k][0] == w[k + 1][0] and w[k][1] != w[k + 1][1]:
                    cov['annihilate_sign' if w[k + 1][1] else 'annihilate_nosign'] += 1
            if len(l) + len(r) >= 2 and got is not None:
                ctx.nontrivial(('resolve', str(l), str(r), p))
    ctx.count(len(exprs2))
    ctx.sample({'resolve_combined_oddpos': {'left': str(cases[0][0]), 'right': str(cases[0][1]), 'left_parity': cases[0][2]}})
    bad2 = common.run_cases(ctx, 'resolve', IMPORTS, PREAMBLE, exprs2)
    if bad2 is None:
        tie_broken.append('cases.v (Model.Oddpos vs resolve_combined_oddpos) did not evaluate')
    elif bad2:
        tie_broken += ['Model.Oddpos.resolve disagrees with resolve_combined_oddpos on left=%r right=%r left_parity=%r (implementation: %r)'
                       % meta2[i] for i in bad2[:6]]

    # ---- tie 2g: the function GENERATED from the current source (Gen.OddposGen) vs the real routine, same inputs
    ctx.count(len(exprs2g))
    bad2g = common.run_cases(ctx, 'resolvegen', IMPORTS_GEN, PREAMBLE_GEN, exprs2g)
    if bad2g is None:
        tie_broken.append('cases.v (Gen.OddposGen vs resolve_combined_oddpos) did not evaluate')
    elif bad2g:
        tie_broken += ['Gen.OddposGen.resolve_combined_oddpos_gen disagrees with resolve_combined_oddpos on left=%r right=%r '
                       'left_parity=%r (implementation: %r)' % meta2[i] for i in bad2g[:6]]

    # ---- tie 3: Gen.PhasePerm vs calc_phase_permutation: all permutations of <= 5 axes x all parity vectors
    exprs3, meta3 = [], []
    for n in range(0, 6):
        for par in itertools.product((0, 1), repeat=n):
            gp = glist([gz(x) for x in par])
            v = calc_phase_permutation(tuple(par), None)
            exprs3.append('Z.eqb (calc_phase_permutation %s None) %s' % (gp, gz(v)))
            meta3.append((par, None))
            for perm in itertools.permutations(range(n)):
                v = calc_phase_permutation(tuple(par), tuple(perm))
                gq = glist([gz(x) for x in perm])
                exprs3.append('Z.eqb (calc_phase_permutation %s (Some %s)) %s && Z.eqb (phase_of (inv_parity %s %s)) %s'
                              % (gp, gq, gz(v), gp, gq, gz(v)))
                meta3.append((par, perm))
    ctx.count(len(exprs3))
    bad3 = common.run_cases(ctx, 'phaseperm', IMPORTS, PREAMBLE, exprs3, shard=600)
    if bad3 is None:
        tie_broken.append('cases.v (Gen.PhasePerm vs calc_phase_permutation) did not evaluate')
    elif bad3:
        tie_broken += ['Gen.PhasePerm / inv_parity disagrees with calc_phase_permutation on parities=%r perm=%r' % meta3[i]
                       for i in bad3[:6]]

    # ---- oracle on the implementation: route independence + independent dense graded evaluation
    stats = {'networks': 0, 'routes': 0, 'nonzero': 0, 'swapped': 0, 'split': 0, 'pretransposed': 0}
    found = []
    broken = (not ok) or bool(tie_broken)
    nnets = 3000 if ctx.thorough else 240
    if broken:
        nnets *= 3           # search harder for a concrete failing input
    nvar = 4 if ctx.thorough else 2
    for k in range(nnets):
        net = gen_network(rng)
        if k == 0:
            ctx.sample({'network': {'symmetry': net['symmetry'], 'topology': net['topology'],
                                    'tensors': [{'legs': t['legs'], 'charge': t['charge'], 'label': t['label'],
                                                 'duals': [ix['dual'] for ix in t['indices']]} for t in net['tensors']]}})
        rep = check_network(ctx, sr, FO, net, nvar, stats, outer=(ctx.thorough and k % 5 == 0))
        if rep is not None:
            if rep['oracle'] == 'two_routes':
                rep['route_2'] = shrink_route(sr, FO, net, rep['route_1'], rep['route_2'])
            found.append(rep)
            if len(found) >= 3:
                break
    for k in range(nnets // 3):
        if len(found) >= 4:
            break
        net = conjugate_pair_network(ctx, sr, FO)
        rep = check_network(ctx, sr, FO, net, nvar, stats)
        stats['conjugate_pair_networks'] = stats.get('conjugate_pair_networks', 0) + 1
        if rep is not None:
            found.append(rep)
    for k in range(nnets // 6):
        if len(found) >= 4:
            break
        net = conjugate_network(ctx, sr, FO)
        if net is None:
            continue
        rep = check_network(ctx, sr, FO, net, nvar, stats)
        stats['ket_bra_networks'] = stats.get('ket_bra_networks', 0) + 1
        if rep is not None:
            found.append(rep)
    what = {'two_routes': 'two contraction routes of the same fermionic network give different results',
            'reference': 'contraction result differs from the independent dense graded-tensor evaluation',
            'route_raises': 'a contraction route raises'}
    for rep in found:
        ctx.violation(what[rep['oracle']], rep)
    ctx.broken += tie_broken
    if broken and not found:
        ctx.violation('proof obligation or tie of C04 no longer checks', {'broken': ctx.broken}, found_input=False)
    ctx.extra['tie'] = {'oporder_cases': n_op, 'resolve_cases': len(exprs2), 'phaseperm_cases': len(exprs3),
                        'oddpos_gen_cases': len(exprs2g),
                        'oddpos_gen_disagreements': None if bad2g is None else len(bad2g),
                        'oddpos_gen_translator': 'tr/gen_oddpos.py -> Gen/OddposGen.v (Props/C04e.v)'}
    ctx.extra['branches'] = cov
    ctx.extra['oracle'] = stats
    ctx.coverage['rule'] = (
        'OpOrder: exhaustive over 6-7 labels of each kind (int, tuple, str) x dual; resolve: random label lists of the three kinds '
        '(sorted halves, unsorted, with conjugate pairs, with non-conjugate duplicates, empty) x left parity, compared with both models '
        'and with the function generated from the current source (fuel n^2+1 and n^2+7); '
        'PhasePerm: every permutation of <= 5 axes x every parity vector, plus perm=None; oracle: random networks of 2-4 tensors '
        '(chain, triangle, ring, star, chord, double bonds, with/without dangling legs) over Z2/U1/Z2Z2/U1U1, random bond orientation, '
        'charges, sparsity, labels of one kind per network (some dual), EVERY order of connected pairwise contractions x random '
        'operand order / axis listing / prior transposes / split contraction + trace / negative axes / mode; '
        'non-trivial = non-zero result and (>= 2 odd tensors or >= 3 tensors), distinct by full network; resolve cases with >= 2 labels')


# ------------------------------------------------------------------ replay
def replay(path):
    import symmray as sr
    from symmray.fermionic_local_operators import FermionicOperator as FO
    r = json.load(open(path))
    if r.get('oracle') == 'two_routes':
        a = run_route(sr, FO, r['network'], r['route_1'])
        b = run_route(sr, FO, r['network'], r['route_2'])
        print(json.dumps({'route_1': show_result(a), 'route_2': show_result(b)}, indent=1, default=str))
        same = same_result(a, b)
        print('routes agree' if same else 'ROUTES DISAGREE')
        return 0 if same else 1
    if r.get('oracle') == 'reference':
        a = run_route(sr, FO, r['network'], r['route'])
        ref = reference_value(r['network'])
        okk = agrees_with_reference(a, ref)
        print(json.dumps({'implementation': show_result(a), 'reference_oddpos': [[l, d] for l, d in ref['oddpos']],
                          'reference_values': {str(k): v for k, v in ref['values'].items()}}, indent=1, default=str))
        print('agrees with the graded reference' if okk else 'DIFFERS FROM THE GRADED REFERENCE')
        return 0 if okk else 1
    if r.get('oracle') == 'route_raises':
        try:
            run_route(sr, FO, r['network'], r.get('route') or r.get('route_2'))
        except Exception as e:
            print('raises %s: %s' % (type(e).__name__, e))
            return 1
        print('no exception')
        return 0
    print(json.dumps(r, indent=1))
    return 0
