"""C20 — element type and precision are preserved.

Correspondence: (1) the numpy/autoray result-type table of Model/Dtype.v part 1
against the installed numpy/autoray, kernel by kernel; (2) every modelled
operation against the implementation: the dtype tag of EVERY block of EVERY
result, with the structural plan (which block goes where) taken from the run.
Oracle (independent of the model): every block dtype equals the dtype dense
numpy gives for the same computation on the same dtype(s) (same dtype; real
counterpart for s / eigenvalues / norm / abs), imaginary parts survive fusing,
insert-fuse == concat-fuse."""
import itertools
import json
import warnings

import numpy as np

import common
from common import gz, gbool, glist, gopt

IMPORTS = 'From SV Require Import Model.Dtype.\n'
DTS = ['float32', 'float64', 'complex64', 'complex128']
TAG = {'float32': 'F32', 'float64': 'F64', 'complex64': 'C64', 'complex128': 'C128'}
REAL = {'float32': 'float32', 'float64': 'float64', 'complex64': 'float32', 'complex128': 'float64'}
CHARGES = {'Z2': [0, 1], 'Z4': [0, 1, 2, 3], 'U1': [-1, 0, 1],
           'Z2Z2': [(0, 0), (0, 1), (1, 0), (1, 1)], 'U1U1': [(0, 0), (0, 1), (1, 0), (-1, 0)]}
FAMILY_MIXED_CPLX = 'insert_fuse_mixed_dtype_first_block_real'
FAMILY_MIXED_PREC = 'insert_fuse_mixed_precision_first_block_single'


# ---------------------------------------------------------------- Gallina literals
def gtag(dt):
    name = getattr(dt, 'name', dt)
    return TAG.get(str(name), 'OTHER_%s' % name)      # an unknown dtype makes the case file fail to compile -> reported


def gsec(s):
    out = []
    for c in (s if isinstance(s, tuple) else (s,)):
        if isinstance(c, tuple):
            out += [gz(int(v)) for v in c]
        else:
            out.append(gz(int(c)))
    return glist(out)


def tags_of(obj):
    """ordered list of (sector, dtype name) of anything the library returns"""
    if hasattr(obj, 'blocks'):
        return [(k, v.dtype.name if hasattr(v, 'dtype') else type(v).__name__) for k, v in obj.blocks.items()]
    if isinstance(obj, (np.ndarray, np.generic)):
        return [((), obj.dtype.name)]
    return []          # a Python number is weak: it carries no dtype


def gtarr(tl):
    return glist(['(%s, %s)' % (gsec(k), gtag(d)) for k, d in tl])


def gsres(obj):
    if isinstance(obj, (np.ndarray, np.generic)):
        return '(SNp %s)' % gtag(obj.dtype)
    if isinstance(obj, bool):
        return '(SNp OTHER_bool)'
    if isinstance(obj, int):
        return '(SPy PyInt)'
    if isinstance(obj, float):
        return '(SPy PyFloat)'
    if isinstance(obj, complex):
        return '(SPy PyComplex)'
    return '(SNp OTHER_%s)' % type(obj).__name__


def gtree(t):
    if t[0] == 'leaf':
        return '(CLeaf %s)' % gsec(t[1])
    return '(CNode %s %s)' % (gtree(t[1][0]), glist([gtree(c) for c in t[1][1:]]))


def gnat(n):
    return '%d%%nat' % n


# ---------------------------------------------------------------- array generation / serialisation
def symname(x):
    return type(x.symmetry).__name__


def is_pair(sym):
    return sym in ('Z2Z2', 'U1U1')


def tup(c):
    return tuple(c) if isinstance(c, list) else c


_LABEL = itertools.count()


def gauss(rng, shape, dt):
    n = int(np.prod(shape)) if len(shape) else 1
    re = np.array([rng.choice([-3, -2, -1, 1, 2, 3]) for _ in range(n)], dtype='float64').reshape(shape)
    if 'complex' in dt:
        im = np.array([rng.choice([-3, -2, -1, 1, 2, 3]) for _ in range(n)], dtype='float64').reshape(shape)
        return (re + 1j * im).astype(dt)
    return re.astype(dt)


def rand_index(rng, sr, sym, dual=None, n=None, sizes=(1, 2)):
    full = len(CHARGES[sym])
    cs = rng.sample(CHARGES[sym], min(full, n or rng.choice([full, full, min(full, 3), 2])))
    return sr.BlockIndex({c: rng.choice(sizes) for c in sorted(cs)}, dual=rng.random() < 0.5 if dual is None else dual)


def pick_charge(rng, S, indices):
    sec = [rng.choice(list(ix.chargemap)) for ix in indices]
    return S.combine(*[S.sign(c, ix.dual) for c, ix in zip(sec, indices)])


def make(rng, sr, sym, ferm, indices, charge, dt, drop=0.4, keep_at_least=1):
    S = sr.get_symmetry(sym)
    cls = sr.FermionicArray if ferm else sr.AbelianArray
    kw = {}
    if ferm and S.parity(charge):
        kw['oddpos'] = 'a%06d' % next(_LABEL)
    x = cls.from_fill_fn(lambda shape: gauss(rng, shape, dt), indices, charge, symmetry=sym, **kw)
    keys = list(x.blocks)
    rng.shuffle(keys)
    for k in keys:
        if len(x.blocks) > keep_at_least and rng.random() < drop:
            del x.blocks[k]
    return x


def spec_of(x):
    if isinstance(x, (int, float, complex)) or x is None:
        return {'py': repr(x)}
    if not hasattr(x, 'indices'):       # BlockVector
        return {'vector': [[k, v.dtype.name, v.tolist() if 'complex' not in v.dtype.name else
                            [[z.real, z.imag] for z in v.ravel().tolist()]] for k, v in x.blocks.items()]}
    return {
        'fermionic': bool(getattr(x, 'fermionic', False)), 'symmetry': symname(x),
        'indices': [[[[c, d] for c, d in ix.chargemap.items()], bool(ix.dual)] for ix in x.indices],
        'has_subinfo': [ix.subinfo is not None for ix in x.indices],
        'charge': x.charge,
        'oddpos': [[str(o.label), bool(o.dual)] for o in getattr(x, 'oddpos', ())],
        'phases': [[list(k), v] for k, v in getattr(x, 'phases', {}).items()],
        'blocks': [[list(k), v.dtype.name, list(v.shape),
                    [[float(np.real(z)), float(np.imag(z))] for z in np.asarray(v).ravel().tolist()]]
                   for k, v in x.blocks.items()],
    }


def build(spec):
    import symmray as sr
    if 'py' in spec:
        return eval(spec['py'], {'__builtins__': {}}, {})
    if 'vector' in spec:
        bl = {}
        for k, dt, data in spec['vector']:
            a = np.array([complex(*z) for z in data], dtype=dt) if 'complex' in dt else np.array(data, dtype=dt)
            bl[tup(k)] = a
        return sr.BlockVector(bl)
    sym = spec['symmetry']
    idx = [sr.BlockIndex({tup(c): d for c, d in cm}, dual=dual) for cm, dual in spec['indices']]
    blocks = {}
    for k, dt, shape, data in spec['blocks']:
        a = np.array([complex(re, im) for re, im in data]).reshape(shape)
        blocks[tuple(tup(c) for c in k)] = (a if 'complex' in dt else a.real).astype(dt)
    if spec['fermionic']:
        x = sr.FermionicArray(idx, charge=tup(spec['charge']), blocks=blocks, symmetry=sym,
                              phases={tuple(tup(c) for c in k): v for k, v in spec['phases']},
                              oddpos=[sr.fermionic_local_operators.FermionicOperator(l, d) if hasattr(
                                  sr, 'fermionic_local_operators') and hasattr(sr.fermionic_local_operators, 'FermionicOperator')
                                  else sr.FermionicOperator(l, d) for l, d in spec['oddpos']])
    else:
        x = sr.AbelianArray(idx, charge=tup(spec['charge']), blocks=blocks, symmetry=sym)
    return x


# ---------------------------------------------------------------- structural plans (from the run, dtype-free)
class InternalChanged(Exception):
    """a library internal the MODEL tie relies on is missing or has another shape"""


def pub_fuse(x, groups, mode):
    """fuse through the public method of the base class (fermionic arrays: on the phase-synchronised data)"""
    from symmray import AbelianArray
    return AbelianArray.fuse(x, *[tuple(g) for g in groups], mode=mode)


def fuse_info(x, groups):
    try:
        from symmray.abelian_core import calc_fuse_block_info
        info = tuple(calc_fuse_block_info(x, tuple(tuple(g) for g in groups)))
    except Exception as e:      # noqa: BLE001
        raise InternalChanged('calc_fuse_block_info: %s: %s' % (type(e).__name__, e))
    if len(info) < 9:
        raise InternalChanged('calc_fuse_block_info returns %d values (9 expected)' % len(info))
    (num_groups, singlets, perm, position, ax_before, ax_after, new_axes, new_indices, blockmap) = info[:9]
    good = (isinstance(num_groups, int) and isinstance(position, int) and isinstance(blockmap, dict)
            and isinstance(new_indices, tuple) and all(hasattr(ix, 'chargemap') for ix in new_indices)
            and set(blockmap) == set(x.blocks)
            and all(isinstance(v, tuple) and len(v) == 3 for v in blockmap.values()))
    if not good:
        raise InternalChanged('calc_fuse_block_info: the first 9 returned values do not have the expected layout')
    return info[:9]


def fuse_plans(x, groups):
    (num_groups, singlets, perm, position, ax_before, ax_after, new_axes, new_indices, blockmap) = fuse_info(x, groups)
    insert_plan = [blockmap[s][1] for s in x.blocks]
    inv = {}
    order = []
    for s in x.blocks:
        _, ns, subs = blockmap[s]
        inv[(ns, subs)] = s
        if ns not in order:
            order.append(ns)
    miss = itertools.count()

    def rec(ns, g=0, subkey=()):
        # mirrors _recurse_concat: a single-axis group is a concatenation of ONE piece
        if g in singlets:
            subs = [(ns[position + g],)]
        else:
            subs = list(new_indices[position + g].subinfo.extents[ns[position + g]])
        kids = []
        for sub in subs:
            nk = (*subkey, sub)
            if g == num_groups - 1:
                kids.append(('leaf', inv[(ns, nk)]) if (ns, nk) in inv else ('leaf', (9999, next(miss))))
            else:
                kids.append(rec(ns, g + 1, nk))
        return ('node', kids)

    def concat_plan():
        return [(ns, rec(ns)) for ns in order]
    return insert_plan, concat_plan


def dense_tree(x):
    miss = itertools.count()

    def rec(partial=()):
        i = len(partial)
        if i == x.ndim:
            return ('leaf', partial)
        return ('node', [rec(partial + (c,)) for c in sorted(x.indices[i].charges)])
    return rec()


def bw_plan(a, b, left, axa, axb, right):
    aligned = {}
    for j, sb in enumerate(b.blocks):
        aligned.setdefault(tuple(sb[i] for i in axb), []).append((tuple(sb[i] for i in right), j))
    plan = {}
    for i, sa in enumerate(a.blocks):
        for sr_, j in aligned.get(tuple(sa[k] for k in axa), []):
            plan.setdefault(tuple(sa[k] for k in left) + sr_, []).append((i, j))
    return list(plan.items())


def gbw(plan):
    gp = lambda p: '(%s, %s)' % (gnat(p[0]), gnat(p[1]))
    return glist(['(%s, (%s, %s))' % (gsec(ns), gp(ps[0]), glist([gp(p) for p in ps[1:]])) for ns, ps in plan])


def unfuse_plan(x, axis):
    try:
        ext = x.indices[axis].subinfo.extents
        return [[tuple(s[:axis]) + tuple(sub) + tuple(s[axis + 1:]) for sub in ext[s[axis]]] for s in x.blocks]
    except Exception as e:      # noqa: BLE001
        raise InternalChanged('subinfo.extents: %s: %s' % (type(e).__name__, e))


def gunf(plan):
    return glist([glist([gsec(k) for k in ks]) for ks in plan])


# ---------------------------------------------------------------- recording
class Rec:
    def __init__(self, ctx):
        self.ctx = ctx
        self.exprs = []
        self.meta = []
        self.failures = []
        self.ops = {}
        self.zero_sites = {}
        self.internal_broken = {}

    def internal(self, where, e):
        """a model tie had to be skipped because a library internal is unusable"""
        k = '%s: %s' % (where, str(e)[:160])
        self.internal_broken[k] = self.internal_broken.get(k, 0) + 1

    def expr(self, op, e, info=None):
        self.exprs.append(e)
        self.meta.append((op, info))

    def site(self, name, dt):
        self.zero_sites[(name, dt)] = self.zero_sites.get((name, dt), 0) + 1

    def oracle(self, op, label, obj, expected, inputs, args=None, allow_py=False, extra=None):
        """every block (or the scalar) must have dtype `expected`"""
        self.ctx.count()
        self.ops[op] = self.ops.get(op, 0) + 1
        tl = tags_of(obj)
        bad = [(k, d) for k, d in tl if d != expected]
        if not tl and not allow_py and not hasattr(obj, 'blocks'):
            bad = [((), type(obj).__name__)]
        if bad or extra:
            self.failures.append({
                'oracle': 'block_dtype', 'op': op, 'result': label, 'expected_dtype': expected,
                'got': [[list(map(str, k)) if isinstance(k, tuple) else str(k), d] for k, d in tl],
                'detail': extra or 'block(s) %r do not have dtype %s' % (bad[:4], expected),
                'inputs': [spec_of(x) for x in inputs], 'args': args,
                'input_block_dtypes': [[d for _, d in tags_of(x)] for x in inputs],
            })
            return False
        return True


def classify(f):
    """known-finding family of an oracle failure, or None"""
    if f.get('oracle') != 'block_dtype' or not f['op'].startswith(('fuse_insert', 'mixed_')):
        return None
    if f.get('mode', 'insert') != 'insert':
        return None
    for dts in f.get('input_block_dtypes', []):
        if len(set(dts)) < 2:
            continue
        first = dts[0]
        cplx_later = any('complex' in d for d in dts[1:])
        if 'complex' not in first and cplx_later:
            return FAMILY_MIXED_CPLX
        if all(('complex' in d) == ('complex' in first) for d in dts) and first in ('float32', 'complex64') \
                and any(d in ('float64', 'complex128') for d in dts[1:]):
            return FAMILY_MIXED_PREC
    return None


def dense_dtype(fn, *dts):
    """dtype dense numpy gives for the same computation on 1-element arrays"""
    with warnings.catch_warnings():
        warnings.simplefilter('ignore')
        r = fn(*[np.ones((1, 1), dtype=d) for d in dts])
    return np.asarray(r).dtype.name


def imag_multiset(blocks):
    vals = np.concatenate([np.asarray(v).ravel() for v in blocks.values()]) if blocks else np.zeros(0)
    vals = vals[vals != 0]
    return sorted(np.abs(np.real(vals)).tolist()), sorted(np.abs(np.imag(vals)).tolist())


# ---------------------------------------------------------------- the operations
def run_fuse(R, x, groups, tagname='fuse'):
    """both strategies on the (phase-synchronised) block data; returns failures through R"""
    xs = x.phase_sync() if getattr(x, 'fermionic', False) else x
    tin = tags_of(xs)
    dts = sorted(set(d for _, d in tin))
    exp = dense_dtype(lambda *a: np.concatenate([q.ravel() for q in a]), *[d for _, d in tin]) if tin else None
    ins_plan = concat_plan = None
    try:
        ins_plan, concat_plan = fuse_plans(xs, groups)
    except InternalChanged as e:
        R.internal('fuse plan', e)
    except Exception as e:          # noqa: BLE001
        R.internal('fuse plan', '%s: %s' % (type(e).__name__, e))
    res = {}
    for mode in ('insert', 'concat'):
        with warnings.catch_warnings(record=True) as w:
            warnings.simplefilter('always')
            try:
                f = pub_fuse(xs, groups, mode)
            except Exception as e:          # noqa: BLE001
                R.ctx.count()
                R.failures.append({'oracle': 'block_dtype', 'op': 'fuse_%s_raises' % mode, 'mode': mode, 'result': 'exception',
                                   'expected_dtype': exp, 'got': [], 'detail': 'fuse(mode=%r) raised %s: %s' % (mode, type(e).__name__, str(e)[:200]),
                                   'inputs': [spec_of(x)], 'args': {'groups': [list(g) for g in groups], 'mode': mode},
                                   'input_block_dtypes': [[d for _, d in tin]]})
                continue
        res[mode] = f
        warn = [str(m.message) for m in w if 'discards the imaginary' in str(m.message)]
        try:
            if mode == 'insert' and ins_plan is not None:
                R.expr('fuse_insert', 'tarr_eqb (fst (fuse_insert %s %s)) %s' % (
                    glist([gsec(s) for s in ins_plan]), gtarr(tin), gtarr(tags_of(f))), (x, groups))
            elif mode == 'concat' and concat_plan is not None:
                cp = concat_plan()
                R.expr('fuse_concat', 'tarr_eqb (fst (fuse_concat %s %s)) %s' % (
                    glist(['(%s, %s)' % (gsec(ns), gtree(t)) for ns, t in cp]), gtarr(tin), gtarr(tags_of(f))), (x, groups))
        except Exception as e:          # noqa: BLE001
            R.internal('fuse plan (%s)' % mode, '%s: %s' % (type(e).__name__, e))
        extra = None
        if warn:
            extra = 'ComplexWarning raised: ' + warn[0]
        elif imag_multiset(f.blocks) != imag_multiset(xs.blocks):
            extra = 'the non-zero entries (|re|, |im| multisets) of the fused blocks differ from those of the input blocks'
        n_before = len(R.failures)
        R.oracle('%s_%s' % (tagname, mode) if tagname != 'fuse' else 'fuse_%s' % mode, 'fused', f, exp, [x],
                 {'groups': [list(g) for g in groups], 'mode': mode}, extra=extra)
        for fl in R.failures[n_before:]:
            fl['mode'] = mode
        nfused = sum(int(np.prod(v.shape)) for v in f.blocks.values())
        nin = sum(int(np.prod(v.shape)) for v in xs.blocks.values())
        if nfused > nin:
            for d in dts:
                R.site('fuse_' + mode, d)
    if 'insert' in res and 'concat' in res:
        a, b = res['insert'], res['concat']
        same = set(a.blocks) == set(b.blocks) and all(
            a.blocks[k].dtype == b.blocks[k].dtype and np.array_equal(a.blocks[k], b.blocks[k]) for k in a.blocks)
        R.ctx.count()
        if not same:
            R.failures.append({'oracle': 'block_dtype', 'op': 'fuse_insert_vs_concat', 'mode': 'insert', 'result': 'both',
                               'expected_dtype': exp, 'got': [[str(k), d] for k, d in tags_of(a)],
                               'detail': 'insert-fuse and concat-fuse disagree: %r vs %r' % (tags_of(a)[:3], tags_of(b)[:3]),
                               'inputs': [spec_of(x)], 'args': {'groups': [list(g) for g in groups]},
                               'input_block_dtypes': [[d for _, d in tin]]})
    return res.get('insert')


def unary_ops(R, rng, sr, x, dt):
    ferm = getattr(x, 'fermionic', False)
    tin = tags_of(x)
    gin = gtarr(tin)

    def m(op, u, y, exp):
        R.expr(op, 'tarr_eqb (map_blocks %s %s %s) %s' % (u, glist([gsec(k) for k, _ in tags_of(y)]), gin, gtarr(tags_of(y))), None)
        R.oracle(op, 'result', y, exp, [x])

    perm = list(range(x.ndim))
    rng.shuffle(perm)
    m('transpose', 'UKeep', x.transpose(tuple(perm)), dt)
    m('conj', 'UKeep', x.conj(), dt)
    m('dagger', 'UKeep', x.dagger(), dt)
    m('neg', 'UKeep', -x, dt)
    m('abs', 'UAbs', x.abs(), REAL[dt])
    with warnings.catch_warnings():
        warnings.simplefilter('ignore')
        m('sqrt', 'UKeep', x.sqrt(), dt)
    m('interface_abs', 'UAbs', sr.abs(x), REAL[dt])
    if x.ndim >= 1:
        e = x.expand_dims(rng.randrange(x.ndim + 1))
        m('expand_dims', 'UKeep', e, dt)
        R.expr('squeeze', 'tarr_eqb (map_blocks UKeep %s %s) %s' % (
            glist([gsec(k) for k, _ in tags_of(e.squeeze())]), gtarr(tags_of(e)), gtarr(tags_of(e.squeeze()))), None)
        R.oracle('squeeze', 'result', e.squeeze(), dt, [x])
    # scalars: Python numbers are weak, numpy scalars are not
    for name, u, f in (
        ('mul_pyint', '(UWeak PyInt)', lambda a: a * 2), ('mul_pyfloat', '(UWeak PyFloat)', lambda a: a * 2.5),
        ('mul_pycomplex', '(UWeak PyComplex)', lambda a: a * (1 + 2j)), ('div_pyint', '(UWeak PyInt)', lambda a: a / 2),
        ('div_pyfloat', '(UWeak PyFloat)', lambda a: a / 0.5), ('rmul_pyint', '(UWeak PyInt)', lambda a: 3 * a),
        ('rmul_pyfloat', '(UWeak PyFloat)', lambda a: -1.0 * a),
        ('mul_npf32', '(UStrong F32)', lambda a: a * np.float32(2)), ('mul_npf64', '(UStrong F64)', lambda a: a * np.float64(2)),
        ('mul_npc64', '(UStrong C64)', lambda a: a * np.complex64(2 + 1j)),
    ):
        m(name, u, f(x), dense_dtype(f, dt))
    # reductions
    s = x.sum()
    R.expr('sum', 'osres_eqb (reduce_all %s) (Some %s)' % (gin, gsres(s)), None)
    R.oracle('sum', 'scalar', s, dt, [x])
    xs = x.phase_sync() if ferm else x
    n = x.norm()
    R.expr('norm', 'osres_eqb (norm %s) (Some %s)' % (gin, gsres(n)), None)
    R.oracle('norm', 'scalar', n, REAL[dt], [x])
    if 'complex' not in dt:
        R.oracle('max', 'scalar', x.max(), dt, [x])
    if ferm:
        p = x.transpose(tuple(perm))
        if x.ndim >= 1:
            p = p.phase_flip(0).phase_global()
        p = p.phase_transpose() if x.ndim >= 2 else p
        if p.blocks:
            p = p.phase_sector(next(iter(p.blocks)))
        sel = [p.phases.get(k, 1) == -1 for k in p.blocks]
        q = p.phase_sync()
        R.expr('phase_sync', 'tarr_eqb (phase_sync %s %s) %s' % (glist([gbool(b) for b in sel]), gtarr(tags_of(p)), gtarr(tags_of(q))), None)
        R.oracle('phase_sync', 'result', q, dt, [p], extra=None)
        if any(sel):
            R.ctx.nontrivial(('phase_sync', dt, symname(x), x.ndim))


def structure_ops(R, rng, sr, x, dt):
    """fuse (both strategies), unfuse, reshape, to_dense, fill_missing_blocks on a sparse array"""
    ferm = getattr(x, 'fermionic', False)
    nd = x.ndim
    if nd >= 2:
        axes = list(range(nd))
        rng.shuffle(axes)
        if nd == 2:
            groups = [tuple(axes)]
        elif nd == 3:
            groups = [tuple(axes[:2])] if rng.random() < 0.5 else [tuple(axes[:2]), tuple(axes[2:])]
        elif rng.random() < 0.4:
            groups = [tuple(axes[:2])]                               # one group, two axes left alone
        else:
            groups = [tuple(axes[:2]), tuple(axes[2:])]              # two fused groups: missing (sub, sub) pairs -> zeros
        run_fuse(R, x, groups)
        # public entry points
        with warnings.catch_warnings():
            warnings.simplefilter('ignore')
            f = x.fuse(*groups) if ferm else x.fuse(*groups, mode=rng.choice(['insert', 'auto']))
        R.oracle('fuse_public', 'fused', f, dt, [x], {'groups': [list(g) for g in groups]})
        for ax in range(f.ndim):
            if f.indices[ax].subinfo is not None:
                fs = f.phase_sync() if ferm else f
                u = f.unfuse(ax)
                try:
                    R.expr('unfuse', 'tarr_eqb (unfuse %s %s) %s' % (gunf(unfuse_plan(fs, ax)), gtarr(tags_of(fs)), gtarr(tags_of(u))), None)
                except InternalChanged as e:
                    R.internal('unfuse plan', e)
                R.oracle('unfuse', 'result', u, dt, [f], {'axis': ax})
                break
        R.oracle('unfuse_all', 'result', f.unfuse_all(), dt, [f])
        # reshape: merge two adjacent axes and back
        try:
            sh = x.shape
            a = rng.randrange(nd - 1)
            r = x.reshape(sh[:a] + (sh[a] * sh[a + 1],) + sh[a + 2:])
            R.oracle('reshape_merge', 'result', r, dt, [x], {'axis': a})
            R.oracle('reshape_split', 'result', r.reshape(sh), dt, [r])
        except Exception:     # noqa: BLE001   (reshape legality is C07's business)
            pass
    # densification
    xs = x.phase_sync() if ferm else x
    with warnings.catch_warnings():
        warnings.simplefilter('ignore')
        dn = x.to_dense()
    R.expr('to_dense', 'dtype_eqb (fst (to_dense %s %s)) %s' % (gtree(dense_tree(xs)), gtarr(tags_of(xs)), gtag(dn.dtype)), None)
    nvalid = len(list(x.gen_valid_sectors()))
    empty = not x.blocks
    R.oracle('to_dense', 'dense', dn, 'float64' if empty else dt, [x])
    if nvalid > len(x.blocks) or dn.size > sum(v.size for v in x.blocks.values()):
        R.site('to_dense', dt)
    y = x.copy()
    valid = list(y.gen_valid_sectors())
    y.fill_missing_blocks()
    R.expr('fill_missing_blocks', 'tarr_eqb (fill_missing %s %s) %s' % (glist([gsec(s) for s in valid]), gtarr(tags_of(x)), gtarr(tags_of(y))), None)
    R.oracle('fill_missing_blocks', 'result', y, 'float64' if empty else dt, [x])
    if len(y.blocks) > len(x.blocks):
        R.site('fill_missing_blocks', dt)
    # constructors round trip
    if not ferm and nd >= 1 and not any(ix.subinfo for ix in x.indices):
        maps = []
        for ix in x.indices:
            mp, pos = {}, 0
            for c in sorted(ix.chargemap):
                for _ in range(ix.chargemap[c]):
                    mp[pos] = c
                    pos += 1
            maps.append(mp)
        S = symname(x)
        if S in ('Z2', 'U1', 'Z2Z2', 'U1U1'):
            z = sr.utils.from_dense(dn, S, maps, duals=x.duals, charge=x.charge)
            R.expr('from_dense', 'tarr_eqb (ctor_fill %s %s) %s' % (glist([gsec(k) for k in z.blocks]), gtag(dn.dtype), gtarr(tags_of(z))), None)
            R.oracle('from_dense', 'result', z, dt, [x])
        w = sr.AbelianArray.from_blocks(dict(x.blocks), x.duals, charge=x.charge, symmetry=S) if x.blocks else None
        if w is not None:
            R.expr('from_blocks', 'tarr_eqb (map_blocks UKeep %s %s) %s' % (glist([gsec(k) for k in w.blocks]), gtarr(tags_of(x)), gtarr(tags_of(w))), None)
            R.oracle('from_blocks', 'result', w, dt, [x])


def binary_ops(R, rng, sr, x, y, dt, dty):
    """x, y: same indices and charge, different sparsity"""
    gx, gy = gtarr(tags_of(x.phase_sync() if getattr(x, 'fermionic', False) else x)), \
        gtarr(tags_of(y.phase_sync() if getattr(y, 'fermionic', False) else y))
    exp = dense_dtype(lambda a, b: a + b, dt, dty)
    z = x + y
    R.expr('add', 'otarr_eqb (bin_outer %s %s) (Some %s)' % (gx, gy, gtarr(tags_of(z))), None)
    if dt == dty:
        R.oracle('add', 'result', z, exp, [x, y])
    z = x * y
    R.expr('mul', 'otarr_eqb (bin_inner %s %s) (Some %s)' % (gx, gy, gtarr(tags_of(z))), None)
    if dt == dty:
        R.oracle('mul', 'result', z, exp, [x, y])
    y2 = y.copy()
    for k in list(y2.blocks):
        if k not in x.blocks:
            del y2.blocks[k]
    for k in x.blocks:
        if k not in y2.blocks:
            y2.blocks[k] = gauss(rng, x.blocks[k].shape, dty)
    z = x - y2
    R.expr('sub', 'otarr_eqb (bin_strict %s %s) (Some %s)' % (
        gx, gtarr(tags_of(y2.phase_sync() if getattr(y2, 'fermionic', False) else y2)), gtarr(tags_of(z))), None)
    R.oracle('sub', 'result', z, exp, [x, y2])
    if set(x.blocks) != set(y.blocks):
        R.ctx.nontrivial(('binary', dt, dty, symname(x), x.ndim, len(x.blocks), len(y.blocks)))


def contraction_ops(R, rng, sr, a, b, ncon, dt):
    """a's last ncon axes against b's first ncon; all modes"""
    ferm = getattr(a, 'fermionic', False)
    axa = tuple(range(a.ndim - ncon, a.ndim))
    axb = tuple(range(ncon))
    perm = list(range(ncon))
    rng.shuffle(perm)
    axes = (tuple(axa[i] for i in perm), tuple(axb[i] for i in perm))
    for mode in ('fused', 'blockwise', 'auto'):
        with warnings.catch_warnings():
            warnings.simplefilter('ignore')
            c = sr.tensordot(a, b, axes, mode=mode, preserve_array=True)
        R.oracle('tensordot_' + mode, 'result', c, dt, [a, b], {'axes': [list(axes[0]), list(axes[1])], 'mode': mode})
    with warnings.catch_warnings():
        warnings.simplefilter('ignore')
        s = sr.tensordot(a, b, axes)
    if not hasattr(s, 'blocks'):
        R.oracle('tensordot_scalar', 'scalar', s, dt, [a, b], allow_py=True)
    if ferm:
        return
    try:
        contraction_model(R, a, b, axes, ncon, dt)
    except InternalChanged as e:
        R.internal('contraction plan', e)
    except Exception as e:          # noqa: BLE001
        R.internal('contraction plan', '%s: %s' % (type(e).__name__, e))


def contraction_model(R, a, b, axes, ncon, dt):
    """model correspondence on the abelian core (uses library internals: every failure here is a broken tie, not a crash)"""
    import symmray as sr
    from symmray import AbelianArray
    try:
        from symmray.abelian_core import _tensordot_blockwise, drop_misaligned_sectors
    except Exception as e:      # noqa: BLE001
        raise InternalChanged('import of _tensordot_blockwise / drop_misaligned_sectors: %s' % e)
    left = tuple(i for i in range(a.ndim) if i not in axes[0])
    right = tuple(i for i in range(b.ndim) if i not in axes[1])
    with warnings.catch_warnings():
        warnings.simplefilter('ignore')
        cb = sr.tensordot(a, b, axes, mode='blockwise', preserve_array=True)
        cf = sr.tensordot(a, b, axes, mode='fused', preserve_array=True)
    R.expr('tensordot_blockwise', 'otarr_eqb (tdot_blockwise %s %s %s) (Some %s)' % (
        gbw(bw_plan(a, b, left, axes[0], axes[1], right)), gtarr(tags_of(a)), gtarr(tags_of(b)), gtarr(tags_of(cb))), None)
    a2, b2 = drop_misaligned_sectors(a, b, axes[0], axes[1])
    ka = [k in a2.blocks for k in a.blocks]
    kb = [k in b2.blocks for k in b.blocks]
    if a2.blocks and b2.blocks:
        ga = [g for g in (left, axes[0]) if g]
        gb_ = [g for g in (axes[1], right) if g]
        pa = fuse_plans(a2, ga)[0] if ga else None
        pb = fuse_plans(b2, gb_)[0] if gb_ else None
        with warnings.catch_warnings():
            warnings.simplefilter('ignore')
            af = AbelianArray.fuse(a2, left, axes[0], expand_empty=False)
            bf = AbelianArray.fuse(b2, axes[1], right, expand_empty=False)
        l2, a2x = {(False, False): ((), ()), (False, True): ((), (0,)), (True, False): ((0,), ()), (True, True): ((0,), (1,))}[bool(left), bool(axes[0])]
        b2x, r2 = {(False, False): ((), ()), (False, True): ((), (0,)), (True, False): ((0,), ()), (True, True): ((0,), (1,))}[bool(axes[1]), bool(right)]
        pc = bw_plan(af, bf, l2, a2x, b2x, r2)
        cfm = _tensordot_blockwise(af, bf, l2, a2x, b2x, r2)
        unf = []
        todo = ([cfm.ndim - 1] if len(right) > 1 else []) + ([0] if len(left) > 1 else [])
        for ax in todo:      # only the legs the routine fused itself
            if cfm.indices[ax].subinfo is not None:
                unf.append(unfuse_plan(cfm, ax))
                AbelianArray.unfuse(cfm, ax, inplace=True)
        gl = lambda p: gopt(None if p is None else glist([gsec(s) for s in p]))
        R.expr('tensordot_fused', 'otarr_eqb (option_map fst (tdot_fused %s %s %s %s %s %s %s %s)) (Some %s)' % (
            glist([gbool(v) for v in ka]), glist([gbool(v) for v in kb]), gl(pa), gl(pb), gbw(pc),
            glist([gunf(u) for u in unf]), gtarr(tags_of(a)), gtarr(tags_of(b)), gtarr(tags_of(cf))), None)
        if not all(ka) and not all(kb):
            R.ctx.nontrivial(('fused_drop_both', dt, symname(a), a.ndim, b.ndim, ncon))
        nz = sum(v.size for v in af.blocks.values()) > sum(v.size for v in a2.blocks.values()) or \
            sum(v.size for v in bf.blocks.values()) > sum(v.size for v in b2.blocks.values())
        if nz:
            R.site('fused_contraction', dt)


def matrix_ops(R, rng, sr, m, v, dt):
    """m: block-diagonal square matrix (charge 0), v: BlockVector on the column charges"""
    ferm = getattr(m, 'fermionic', False)
    ms = m.phase_sync() if ferm else m
    tin = tags_of(ms)
    gin = gtarr(tin)
    keys = list(ms.blocks)
    gk = lambda f: glist([gsec(f(k)) for k in keys])
    q, r = sr.linalg.qr(m)
    R.expr('qr', 'tarr_eqb (qr_q %s) %s && tarr_eqb (qr_r %s %s) %s' % (gin, gtarr(tags_of(q)), gk(lambda k: (k[1], k[1])), gin, gtarr(tags_of(r))), None)
    R.oracle('qr', 'q', q, dt, [m]); R.oracle('qr', 'r', r, dt, [m])
    q2, r2 = sr.linalg.qr(m, stabilized=True)
    R.oracle('qr_stabilized', 'q', q2, dt, [m]); R.oracle('qr_stabilized', 'r', r2, dt, [m])
    u, s, vh = sr.linalg.svd(m)
    R.expr('svd', 'tarr_eqb (svd_u %s) %s && tarr_eqb (svd_s %s %s) %s && tarr_eqb (svd_v %s %s) %s' % (
        gin, gtarr(tags_of(u)), gk(lambda k: (k[1],)), gin, gtarr(tags_of(s)), gk(lambda k: (k[1], k[1])), gin, gtarr(tags_of(vh))), None)
    R.oracle('svd', 'u', u, dt, [m]); R.oracle('svd', 's', s, REAL[dt], [m]); R.oracle('svd', 'vh', vh, dt, [m])
    h = m + m.dagger() if not ferm else m
    try:
        w, ev = sr.linalg.eigh(h)
        hs = h.phase_sync() if ferm else h
        R.expr('eigh', 'tarr_eqb (eigh_w %s %s) %s && tarr_eqb (eigh_v %s) %s' % (
            glist([gsec((k[1],)) for k in hs.blocks]), gtarr(tags_of(hs)), gtarr(tags_of(w)), gtarr(tags_of(hs)), gtarr(tags_of(ev))), None)
        R.oracle('eigh', 'eigenvalues', w, REAL[dt], [h]); R.oracle('eigh', 'eigenvectors', ev, dt, [h])
    except ValueError:
        pass
    for absorb, gab in ((None, 'AbsNone'), (-1, 'AbsLeft'), (0, 'AbsBoth'), (1, 'AbsRight')):
        mb = rng.choice([-1, max(1, m.shape[1] - 1)])
        U, S_, V = sr.linalg.svd_truncated(m, max_bond=mb, absorb=absorb, cutoff=rng.choice([-1.0, 1e-3]))
        keep = [k in U.blocks for k in keys]
        R.expr('svd_truncated', 'let r := svd_trunc %s %s %s %s %s in tarr_eqb (fst (fst r)) %s && tarr_eqb (snd (fst r)) %s && tarr_eqb (snd r) %s' % (
            gab, glist([gbool(b) for b in keep]), gk(lambda k: (k[1],)), gk(lambda k: (k[1], k[1])), gin,
            gtarr(tags_of(U)), gtarr(tags_of(S_) if S_ is not None else []), gtarr(tags_of(V))), None)
        args = {'absorb': absorb, 'max_bond': mb}
        R.oracle('svd_truncated', 'U', U, dt, [m], args); R.oracle('svd_truncated', 'VH', V, dt, [m], args)
        if S_ is not None:
            R.oracle('svd_truncated', 's', S_, REAL[dt], [m], args)
    # multiply_diagonal, trace, einsum, matmul, solve
    md = m.multiply_diagonal(v, 1)
    mds = md.phase_sync() if ferm else md
    R.expr('multiply_diagonal', 'tarr_eqb (mul_diag %s %s %s) %s' % (gk(lambda k: (k[1],)), gin, gtarr(tags_of(v)), gtarr(tags_of(mds))), None)
    R.oracle('multiply_diagonal', 'result', md, dt, [m, v])
    R.oracle('multiply_diagonal_s', 'result', m.multiply_diagonal(s, 1), dt, [m, s])
    try:
        t = m.trace()
        if not ferm:
            R.expr('trace', 'sres_eqb (trace %s %s) %s' % (glist([gbool(k[0] == k[1]) for k in keys]), gin, gsres(t)), None)
        R.oracle('trace', 'scalar', t, dt, [m], allow_py=True)
    except ValueError:
        pass
    if not ferm:
        e = m.einsum('ab->ba')
        R.expr('einsum', 'tarr_eqb (einsum %s %s) %s' % (glist([gopt(gsec((k[1], k[0]))) for k in keys]), gin, gtarr(tags_of(e))), None)
        R.oracle('einsum_perm', 'result', e, dt, [m])
        R.oracle('einsum_trace', 'scalar', m.einsum('aa->'), dt, [m], allow_py=True)
    mm = m @ m
    R.oracle('matmul', 'result', mm, dt, [m])
    xsol = None
    if not ferm:
        b = sr.AbelianArray(indices=(m.indices[0],), charge=m.symmetry.combine(), symmetry=symname(m),
                            blocks={(k[0],): gauss(rng, (m.blocks[k].shape[0],), dt) for k in keys[:max(1, len(keys) - 1)]})
        mw = m.copy()
        for k in keys:
            mw.blocks[k] = mw.blocks[k] + (5 * np.eye(mw.blocks[k].shape[0])).astype(dt)
        try:
            xsol = sr.linalg.solve(mw, b)
        except np.linalg.LinAlgError:
            xsol = None      # the shifted random matrix happens to be singular: no solution whose element type could be judged
    if not ferm and xsol is not None:
        R.expr('solve', 'otarr_eqb (solve %s %s %s) (Some %s)' % (
            glist([gopt('(%s, %s)' % (gsec((k[0],)), gsec((k[1],))) if (k[0],) in b.blocks else None) for k in keys]),
            gin, gtarr(tags_of(b)), gtarr(tags_of(xsol))), None)
        R.oracle('solve', 'result', xsol, dt, [mw, b])
        if 'complex' not in dt:
            # real matrix, complex right-hand side: the solution is complex and solves the system
            cdt = 'complex64' if dt == 'float32' else 'complex128'
            bc = b.copy()
            bc.apply_to_arrays(lambda blk: (blk * (1 + 2j)).astype(cdt))
            try:
                xc = sr.linalg.solve(mw, bc)
                extra = None
                for kk, blk in xc.blocks.items():
                    rows = [s2 for s2 in mw.blocks if s2[1] == kk[0]]
                    if rows and (rows[0][0],) in bc.blocks:
                        if np.linalg.cond(np.asarray(mw.blocks[rows[0]], dtype='complex128')) > 1e6:
                            continue      # the shifted random block happens to be (nearly) singular: its "solution" carries no information
                        res = np.asarray(mw.blocks[rows[0]]) @ np.asarray(blk) - np.asarray(bc.blocks[(rows[0][0],)])
                        if np.max(np.abs(res)) > (1e-3 if dt == 'float32' else 1e-9) * (1 + np.max(np.abs(np.asarray(bc.blocks[(rows[0][0],)])))):
                            extra = 'a @ x differs from the complex right-hand side by %g in sector %r' % (float(np.max(np.abs(res))), kk)
                R.oracle('solve_real_matrix_complex_rhs', 'result', xc, cdt, [mw, bc], extra=extra)
            except np.linalg.LinAlgError:
                pass
    # BlockVector arithmetic with weak scalars
    for name, f in (('vec_add_py', lambda z: z + 1.5), ('vec_rsub_py', lambda z: 2 - z), ('vec_pow_py', lambda z: abs_vec(z) ** 0.5),
                    ('vec_div_vec', lambda z: z / (z + 10)), ('vec_rdiv_py', lambda z: 1.0 / (z + 10))):
        R.oracle(name, 'result', f(s), REAL[dt], [s])


def abs_vec(z):
    return z.abs()


def gen_densify(x):
    import gen
    return gen.densify(x)


def mixed_chains(R, rng, sr, x, y, dt):
    """public-op chains that produce arrays whose blocks have different dtypes, then fuse them"""
    if x.ndim < 2:
        return
    groups = [tuple(range(x.ndim))]
    if 'complex' in dt:
        with warnings.catch_warnings():
            warnings.simplefilter('ignore')
            z = y.abs() + x
        dts = [d for _, d in tags_of(z)]
        if len(set(dts)) > 1:
            R.ctx.nontrivial(('mixed_abs_add', dt, symname(x), tuple(dts)))
            run_fuse(R, z, groups, tagname='mixed_abs_add_fuse')
    else:
        cd = 'complex64' if dt == 'float32' else 'complex128'
        yc = y.copy()
        yc.apply_to_arrays(lambda b: (b * (1 + 2j)).astype(cd))
        with warnings.catch_warnings():
            warnings.simplefilter('ignore')
            z = x + yc
        dts = [d for _, d in tags_of(z)]
        if len(set(dts)) > 1:
            R.ctx.nontrivial(('mixed_real_plus_complex', dt, symname(x), tuple(dts)))
            run_fuse(R, z, groups, tagname='mixed_real_plus_complex_fuse')
        # real + complex with DIFFERENT stored sectors: every block of the sum has the element type numpy gives for the
        # operands present in that sector, and exactly their sum (blocks of one operand only are kept as they are)
        ks = list(x.blocks)
        if len(ks) >= 2 and not getattr(x, 'fermionic', False):
            x2 = x.copy()
            for kk in rng.sample(ks, rng.randint(1, len(ks) - 1)):
                del x2.blocks[kk]
            for order, (p, q) in (('real+complex', (x2, yc)), ('complex+real', (yc, x2))):
                with warnings.catch_warnings():
                    warnings.simplefilter('ignore')
                    z2 = p + q
                R.ctx.count()
                bad = []
                for kk in set(p.blocks) | set(q.blocks):
                    parts = [o.blocks[kk] for o in (p, q) if kk in o.blocks]
                    want = parts[0] + parts[1] if len(parts) == 2 else parts[0]
                    got = z2.blocks.get(kk)
                    if got is None or np.asarray(got).dtype != np.asarray(want).dtype or not np.array_equal(np.asarray(got), np.asarray(want)):
                        bad.append((kk, None if got is None else str(np.asarray(got).dtype), str(np.asarray(want).dtype)))
                # ... and its dense form holds every value (element type wide enough for all blocks)
                if not bad:
                    try:
                        dz = np.asarray(z2.to_dense())
                        wz_ = gen_densify(z2)
                        if dz.shape != wz_.shape or not np.array_equal(dz.astype('complex128'), wz_):
                            bad.append(('to_dense', str(dz.dtype), cd))
                    except Exception as e:
                        bad.append(('to_dense raises %s' % type(e).__name__, None, cd))
                if bad:
                    R.failures.append({'oracle': 'block_dtype', 'op': 'add_' + order + '_other_sectors', 'result': 'sum', 'expected_dtype': cd,
                                       'got': [[str(k), d] for k, d in tags_of(z2)],
                                       'detail': 'blocks (sector, got dtype, expected dtype) %r differ from the sum of the operands present there' % (bad[:4],),
                                       'inputs': [spec_of(p), spec_of(q)], 'args': None,
                                       'input_block_dtypes': [[d for _, d in tags_of(p)], [d for _, d in tags_of(q)]]})
        if dt == 'float32':
            yd = y.copy()
            yd.apply_to_arrays(lambda b: b.astype('float64') + 2.0 ** -30)
            z = x + yd
            dts = [d for _, d in tags_of(z)]
            if len(set(dts)) > 1:
                R.ctx.nontrivial(('mixed_single_plus_double', dt, symname(x), tuple(dts)))
                zs = z.phase_sync() if getattr(z, 'fermionic', False) else z
                f = pub_fuse(zs, groups, 'insert')
                g = pub_fuse(zs, groups, 'concat')
                lost = any(f.blocks[k].dtype != g.blocks[k].dtype or not np.array_equal(f.blocks[k], g.blocks[k]) for k in f.blocks)
                R.ctx.count()
                if lost:
                    R.failures.append({'oracle': 'block_dtype', 'op': 'mixed_single_plus_double_fuse_insert', 'mode': 'insert',
                                       'result': 'fused', 'expected_dtype': 'float64', 'got': [[str(k), d] for k, d in tags_of(f)],
                                       'detail': 'insert-fuse rounds float64 blocks to float32 (first block is float32); concat-fuse keeps float64',
                                       'inputs': [spec_of(z)], 'args': {'groups': [list(g_) for g_ in groups]},
                                       'input_block_dtypes': [dts]})


# ---------------------------------------------------------------- same structure, different dtype, warm cache
WARM_SEQ = ['float64', 'complex128', 'complex64', 'float32', 'float64']
TOL = {'float64': 1e-12, 'complex128': 1e-12, 'float32': 1e-5, 'complex64': 1e-5}


def recast(x, dt):
    """identically structured array (same indices, same stored sectors in the same order, same signs / labels)
    of dtype dt.  Gaussian-integer data; the double-precision versions carry a 2**-30 offset that float32 cannot hold."""
    y = x.copy()

    def conv(b):
        z = np.asarray(b).astype('complex128')
        if not np.iscomplexobj(b):
            z = z + 1j * np.roll(z.real.ravel(), 1).reshape(z.shape)
        z = np.round(z.real) + 1j * np.round(z.imag)
        if dt in ('float64', 'complex128'):
            z = z + (2.0 ** -30) * (1 + 1j)
        return (z if 'complex' in dt else z.real).astype(dt)
    y.apply_to_arrays(conv)
    return y


def warm_checks(sr, xm, bm, groups, axes, seq=WARM_SEQ):
    """run the same fuse (both strategies) and the same fused contraction on identically structured arrays of
    the dtypes in `seq`, one after the other in this process (so the fuse-info cache is warm from the previous
    dtype).  Public API only.  Returns (number of checks, list of failure dicts without the inputs)."""
    fails, n = [], 0
    try:        # start cold, like the replay process does (best effort: the oracle does not depend on it)
        from symmray import abelian_core as _ac
        _ac._fuseinfos.clear()
    except Exception:      # noqa: BLE001
        pass
    for step, dt in enumerate(seq):
        x = recast(xm, dt)
        xs = x.phase_sync() if getattr(x, 'fermionic', False) else x
        res = {}

        def fail(op, mode, detail, got):
            fails.append({'op': op, 'mode': mode, 'expected_dtype': dt, 'step': step, 'sequence': list(seq[:step + 1]),
                          'detail': '%s of a %s array directly after the same operation on identically structured %s arrays: %s'
                                    % (op, dt, ' -> '.join(seq[:step]) or '(nothing)', detail), 'got': got})
        for mode in ('insert', 'concat'):
            n += 1
            with warnings.catch_warnings(record=True) as w:
                warnings.simplefilter('always')
                try:
                    f = pub_fuse(xs, groups, mode)
                except Exception as e:      # noqa: BLE001
                    fail('warm_cache_fuse', mode, 'raised %s: %s' % (type(e).__name__, str(e)[:160]), [])
                    continue
            res[mode] = f
            got = [[str(k), d] for k, d in tags_of(f)]
            bad = sorted(set(d for _, d in tags_of(f) if d != dt))
            if bad:
                fail('warm_cache_fuse', mode, 'blocks have dtype %s' % bad, got)
            elif any('discards the imaginary' in str(m.message) for m in w):
                fail('warm_cache_fuse', mode, 'ComplexWarning: imaginary part discarded', got)
            elif imag_multiset(f.blocks) != imag_multiset(xs.blocks):
                fail('warm_cache_fuse', mode, 'the |re| / |im| multisets of the non-zero entries changed (imaginary part or precision lost)', got)
        if len(res) == 2:
            n += 1
            a, b = res['insert'], res['concat']
            if not (set(a.blocks) == set(b.blocks) and all(a.blocks[k].dtype == b.blocks[k].dtype and
                                                            np.array_equal(a.blocks[k], b.blocks[k]) for k in a.blocks)):
                fail('warm_cache_fuse_insert_vs_concat', 'insert', 'insert-fuse and concat-fuse disagree', [[str(k), d] for k, d in tags_of(a)])
        if bm is not None:
            n += 1
            y = recast(bm, dt)
            with warnings.catch_warnings(record=True) as w:
                warnings.simplefilter('always')
                try:
                    cf = sr.tensordot(x, y, axes, mode='fused', preserve_array=True)
                    cb = sr.tensordot(x, y, axes, mode='blockwise', preserve_array=True)
                except Exception as e:      # noqa: BLE001
                    fail('warm_cache_tensordot_fused', 'fused', 'raised %s: %s' % (type(e).__name__, str(e)[:160]), [])
                    continue
            cfs = cf.phase_sync() if getattr(cf, 'fermionic', False) else cf
            cbs = cb.phase_sync() if getattr(cb, 'fermionic', False) else cb
            got = [[str(k), d] for k, d in tags_of(cfs)]
            bad = sorted(set(d for _, d in tags_of(cfs) if d != dt))
            if bad:
                fail('warm_cache_tensordot_fused', 'fused', 'blocks have dtype %s' % bad, got)
            elif any('discards the imaginary' in str(m.message) for m in w):
                fail('warm_cache_tensordot_fused', 'fused', 'ComplexWarning: imaginary part discarded', got)
            else:
                zero = lambda v: not np.any(v)
                keys = set(cfs.blocks) | set(cbs.blocks)
                scale = max([1.0] + [float(np.max(np.abs(v))) for v in cbs.blocks.values() if v.size])
                for k in keys:
                    u, v = cfs.blocks.get(k), cbs.blocks.get(k)
                    ok_ = (zero(v) if u is None else zero(u) if v is None else
                           u.shape == v.shape and bool(np.all(np.abs(u - v) <= TOL[dt] * scale)))
                    if not ok_:
                        fail('warm_cache_tensordot_fused', 'fused', 'block %r differs from the blockwise contraction beyond %g (imaginary part or precision lost)' % (k, TOL[dt]), got)
                        break
    return n, fails


def warm_stream(R, sr, xm, bm, groups, axes):
    own = [d for _, d in tags_of(xm)][:1]      # the regular stream just ran on this dtype: keeps every replay self-contained
    n, fails = warm_checks(sr, xm, bm, groups, axes, own + WARM_SEQ)
    R.ctx.count(n)
    R.ops['warm_cache'] = R.ops.get('warm_cache', 0) + n
    first = {}
    for f in fails:
        first.setdefault(f['op'], f)
    for f in first.values():
        R.failures.append({'oracle': 'block_dtype', 'result': 'fused', **f,
                           'inputs': [spec_of(xm)] + ([spec_of(bm)] if bm is not None else []),
                           'args': {'groups': [list(g) for g in groups], 'axes': [list(axes[0]), list(axes[1])] if axes else None,
                                    'sequence': f['sequence'], 'mode': f['mode'], 'warm': True},
                           'input_block_dtypes': [[f['expected_dtype']]]})


# ---------------------------------------------------------------- kernel table tie
def table_exprs():
    import autoray as ar
    ex = []
    one = lambda d: np.ones((2, 2), dtype=d)
    for a in DTS:
        A = gtag(a)
        x = one(a)
        for b in DTS:
            B = gtag(b)
            y = one(b)
            for nm, f in (('add', lambda p, q: p + q), ('mul', lambda p, q: p * q), ('div', lambda p, q: p / q),
                          ('sub', lambda p, q: p - q), ('tensordot', lambda p, q: np.tensordot(p, q, 1)),
                          ('concat', lambda p, q: np.concatenate((p, q), axis=0)),
                          ('solve', lambda p, q: np.linalg.solve(p + 3 * np.eye(2, dtype=p.dtype), q)),
                          ('npscalar', lambda p, q: p * q.dtype.type(2)), ('stack', lambda p, q: np.stack((p.sum(), q.sum())))):
                ex.append(('promote/' + nm, 'dtype_eqb (promote %s %s) %s' % (A, B, gtag(f(x, y).dtype))))
            with warnings.catch_warnings():
                warnings.simplefilter('ignore')
                t = np.zeros((2, 2), dtype=a)
                t[:1, :] = y[:1, :]
            ex.append(('setitem', 'dtype_eqb (k_setitem %s %s) %s' % (A, B, gtag(t.dtype))))
            with warnings.catch_warnings():
                warnings.simplefilter('ignore')
                ex.append(('astype', 'dtype_eqb (k_astype %s %s) %s' % (A, B, gtag(y.astype(a).dtype))))
            ex.append(('concat3', 'dtype_eqb (k_concat %s [%s; %s]) %s' % (A, B, A, gtag(np.concatenate((x, y, x)).dtype))))
        for s, S in ((2, 'PyInt'), (2.5, 'PyFloat'), (1 + 2j, 'PyComplex')):
            for nm, f in (('mul', lambda p: p * s), ('rmul', lambda p: s * p), ('div', lambda p: p / s), ('add', lambda p: p + s),
                          ('rsub', lambda p: s - p), ('pow', lambda p: p ** s)):
                ex.append(('weak/' + nm, 'dtype_eqb (weak %s %s) %s' % (A, S, gtag(f(x).dtype))))
        ex.append(('zeros', 'dtype_eqb (k_zeros (Some %s)) %s' % (A, gtag(np.zeros((1,), dtype=x.dtype).dtype))))
        ex.append(('zeros_like', 'dtype_eqb (k_zeros_like (LikeArr %s)) %s' % (A, gtag(ar.do('zeros', (2,), like=x).dtype))))
        for nm, f in (('transpose', lambda p: np.transpose(p, (1, 0))), ('reshape', lambda p: np.reshape(p, (4,))),
                      ('conj', np.conj), ('neg', lambda p: -p), ('sqrt', np.sqrt), ('getitem', lambda p: p[:, :1]),
                      ('newaxis', lambda p: p[None]), ('trace', np.trace), ('einsum', lambda p: np.einsum('aa->', p)),
                      ('sum', np.sum), ('max', lambda p: np.max(np.abs(p)) if np.iscomplexobj(p) and False else np.sum(p))):
            ex.append(('keep/' + nm, 'dtype_eqb (k_keep %s) %s' % (A, gtag(np.asarray(f(x)).dtype))))
        ex.append(('abs', 'dtype_eqb (k_abs %s) %s' % (A, gtag(np.abs(x).dtype))))
        ex.append(('abs2', 'dtype_eqb (weak (k_abs %s) PyInt) %s' % (A, gtag((np.abs(x) ** 2).dtype))))
        h = x + 2 * np.eye(2, dtype=a)
        u, s_, v = np.linalg.svd(h, full_matrices=False)
        ex.append(('svd', 'let r := k_svd %s in dtype_eqb (fst (fst r)) %s && dtype_eqb (snd (fst r)) %s && dtype_eqb (snd r) %s'
                   % (A, gtag(u.dtype), gtag(s_.dtype), gtag(v.dtype))))
        w, ev = np.linalg.eigh(h)
        ex.append(('eigh', 'let r := k_eigh %s in dtype_eqb (fst r) %s && dtype_eqb (snd r) %s' % (A, gtag(w.dtype), gtag(ev.dtype))))
        q, r = np.linalg.qr(h)
        ex.append(('qr', 'let r := k_qr %s in dtype_eqb (fst r) %s && dtype_eqb (snd r) %s' % (A, gtag(q.dtype), gtag(r.dtype))))
        ex.append(('sadd', 'sres_eqb (sadd (SPy PyInt) %s) %s' % (A, gsres(0 + np.trace(x)))))
    ex.append(('zeros_default', 'dtype_eqb (k_zeros None) %s' % gtag(np.zeros((1,)).dtype)))
    ex.append(('zeros_like_py', 'dtype_eqb (k_zeros_like LikePy) %s' % gtag(ar.do('zeros', (2,), like=0.0).dtype)))
    return ex


# ---------------------------------------------------------------- driver
def run(ctx):
    import symmray as sr
    ok = common.standard_proof_phase(ctx)
    rng = ctx.rng
    R = Rec(ctx)
    tie_broken = []

    tex = table_exprs()
    ctx.count(len(tex))
    bad = common.run_cases(ctx, 'table', IMPORTS, '', [e for _, e in tex])
    if bad is None:
        tie_broken.append('cases.v (numpy result-type table) did not evaluate')
    elif bad:
        tie_broken += ['numpy kernel %s disagrees with Model/Dtype.v: %s' % tex[i] for i in bad[:10]]

    syms = ['Z2', 'U1', 'Z2Z2', 'U1U1', 'Z4']
    reps = 10 if ctx.thorough else 2
    for rep in range(reps):
        for dt in DTS:
            for ferm in (False, True):
                for sym in syms:
                    S = sr.get_symmetry(sym)
                    for nd in ((2, 3, 4, 4) if ctx.thorough else (rng.choice([2, 3]), 4)):
                        idx = [rand_index(rng, sr, sym) for _ in range(nd)]
                        ch = pick_charge(rng, S, idx)
                        x = make(rng, sr, sym, ferm, idx, ch, dt)
                        y = make(rng, sr, sym, ferm, idx, ch, dt)
                        ctx.nontrivial(('array', dt, ferm, sym, nd, len(x.blocks), len(list(x.gen_valid_sectors()))))
                        full = x.__class__.from_fill_fn(lambda sh: gauss(rng, sh, dt), idx, ch, symmetry=sym,
                                                        **({'oddpos': 'c'} if ferm and S.parity(ch) else {}))
                        R.expr('from_fill_fn', 'tarr_eqb (ctor_fill %s %s) %s' % (glist([gsec(k) for k in full.blocks]), gtag(dt), gtarr(tags_of(full))), None)
                        R.oracle('from_fill_fn', 'result', full, dt, [])
                        rnd = x.__class__.random(idx, ch, seed=rng.randrange(10 ** 6), dtype=dt, symmetry=sym,
                                                 dist=rng.choice(['normal', 'uniform']),
                                                 **({'oddpos': 'c'} if ferm and S.parity(ch) else {}))
                        R.expr('random', 'tarr_eqb (ctor_random %s %s) %s' % (glist([gsec(k) for k in rnd.blocks]), gtag(dt), gtarr(tags_of(rnd))), None)
                        R.oracle('random', 'result', rnd, dt, [], {'dtype': dt, 'symmetry': sym, 'fermionic': ferm, 'charge': ch,
                                                             'indices': [[list(map(list, ix.chargemap.items())), ix.dual] for ix in idx]})
                        unary_ops(R, rng, sr, x, dt)
                        structure_ops(R, rng, sr, x, dt)
                        binary_ops(R, rng, sr, x, y, dt, dt)
                        mixed_chains(R, rng, sr, x, y, dt)
                        # contraction partner: shares the last ncon indices of x (conjugated), own free legs
                        ncon = 2 if nd == 4 and rng.random() < 0.7 else rng.choice([0, nd] + list(range(1, nd)) * 3)
                        bidx = [ix.conj() for ix in idx[nd - ncon:]] + [rand_index(rng, sr, sym) for _ in range(rng.randrange(0, 3))]
                        b = make(rng, sr, sym, ferm, bidx, pick_charge(rng, S, bidx), dt, drop=0.5)
                        if ferm and S.parity(b.charge) and S.parity(x.charge):
                            pass
                        contraction_ops(R, rng, sr, x, b, ncon, dt)
                        if dt == 'complex128' and nd >= 3:
                            axs = list(range(nd))
                            rng.shuffle(axs)
                            wg = [tuple(axs[:2]), tuple(axs[2:])] if nd == 4 else [tuple(axs[:2])]
                            wa = (tuple(range(nd - ncon, nd)), tuple(range(ncon)))
                            warm_stream(R, sr, x, b if ncon else None, wg, wa)
                            ctx.nontrivial(('warm_cache', ferm, sym, nd, ncon, len(x.blocks)))
                    if sym == 'Z2':
                        # forced zero blocks inside both fused operands of the fused contraction path
                        i2 = [sr.BlockIndex({0: rng.choice([1, 2]), 1: rng.choice([1, 2])}, dual=d) for d in (False, False, True, True)]
                        fa = make(rng, sr, sym, ferm, i2, 0, dt, drop=0.0)
                        for k in ((1, 1, 0, 0), (0, 1, 0, 1)):
                            fa.blocks.pop(k, None)
                        fb = make(rng, sr, sym, ferm, [ix.conj() for ix in i2[2:]] + i2[:2], 0, dt, drop=0.0)
                        for k in ((0, 0, 1, 1), (1, 0, 1, 0)):
                            fb.blocks.pop(k, None)
                        contraction_ops(R, rng, sr, fa, fb, 2, dt)
                        if dt == 'complex128':
                            warm_stream(R, sr, fa, fb, [(0, 1), (2, 3)], ((2, 3), (0, 1)))
                        ctx.nontrivial(('forced_fused', dt, ferm))
                    # matrices
                    ix = rand_index(rng, sr, sym, dual=False, n=3, sizes=(1, 2, 3))
                    m = make(rng, sr, sym, ferm, [ix, ix.conj()], S.combine(), dt, drop=0.25)
                    vkeys = [k[1] for k in m.blocks][: max(1, len(m.blocks) - rng.randrange(0, 2))]
                    v = sr.BlockVector({c: gauss(rng, (ix.chargemap[c],), dt) for c in vkeys})
                    matrix_ops(R, rng, sr, m, v, dt)
        # charge labels that are numpy integers (what symmray.utils.rand_index produces for small Z2Z2 indices): the element
        # type of eigenvalues / eigenvectors of a fermionic Hermitian matrix whose second leg is not dual
        for dt in ('float32', 'float64', 'complex64', 'complex128'):
            try:
                cmz = {(np.int64(0), np.int64(0)): 2, (np.int64(0), np.int64(1)): 1, (np.int64(1), np.int64(0)): 2, (np.int64(1), np.int64(1)): 1}
                ixz = sr.BlockIndex(cmz, dual=True)
                hz = sr.FermionicArray.from_fill_fn(lambda shape: gauss(rng, shape, dt), [ixz, ixz.conj()], (0, 0), symmetry='Z2Z2')
                for kk in list(hz.blocks):
                    hz.blocks[kk] = (hz.blocks[kk] + np.conj(hz.blocks[kk]).T).astype(dt)
                wz, evz = sr.linalg.eigh(hz)
                R.oracle('eigh_numpy_int_charges', 'eigenvalues', wz, REAL[dt], [hz]); R.oracle('eigh_numpy_int_charges', 'eigenvectors', evz, dt, [hz])
                ctx.nontrivial(('eigh_numpy_int_charges', dt))
            except (ValueError, KeyError) as e:
                ctx.note('eigh with numpy-integer charge labels: %s: %s' % (type(e).__name__, e))
        # an array without stored blocks: the example "array" is the Python float 0.0 (logged, not a violation)
        ix = sr.BlockIndex({0: 2, 1: 1}, dual=False)
        e = sr.AbelianArray([ix, ix.conj()], charge=0, blocks={}, symmetry='Z2')
        structure_ops(R, rng, sr, e, 'float64')

    ctx.sample({'dtype': 'complex64', 'op': 'fuse insert/concat + to_dense + fill_missing_blocks + tensordot fused',
                'array': 'rank 2-4, 2-3 charges per index, ~40% of the valid sectors removed'})
    bad = common.run_cases(ctx, 'ops', IMPORTS, '', R.exprs)
    model_bad = []
    if bad is None:
        tie_broken.append('cases.v (operation model vs implementation) did not evaluate')
    elif bad:
        for i in bad[:12]:
            model_bad.append(R.meta[i][0])
        tie_broken.append('Model/Dtype.v disagrees with the implementation on %d cases; ops: %s' % (len(bad), sorted(set(R.meta[i][0] for i in bad))))

    # findings / violations
    known = {f.get('family'): f for f in common.load_known_findings().get('findings', []) if f.get('property') == 'C20'}
    seen_known, reported = set(), 0
    # report distinct operations first, and among them those whose replay carries its own cache history
    rank, per_op = {}, {}
    for i, f in enumerate(R.failures):
        per_op[f['op']] = per_op.get(f['op'], 0) + 1
        rank[i] = (per_op[f['op']], 0 if (f.get('args') or {}).get('warm') else 1, i)
    for i in sorted(rank, key=rank.get):
        f = R.failures[i]
        fam = classify(f)
        if fam and fam in known:
            if fam not in seen_known:
                seen_known.add(fam)
                ctx.known.append('KNOWN-FINDING: property=C20 %s %s [%s on %s data: %s]' % (
                    known[fam].get('id', '?'), known[fam].get('what', fam), f['op'], '/'.join(sorted(set(f['input_block_dtypes'][0]))), f['detail'][:120]))
            ctx.extra.setdefault('known_finding_observations', {}).setdefault(fam, 0)
            ctx.extra['known_finding_observations'][fam] += 1
            continue
        if reported < 5:
            reported += 1
            ctx.violation('%s: %s' % (f['op'], f['detail'][:200]), {**f, 'family': fam})
    for k, cnt in sorted(R.internal_broken.items()):
        tie_broken.append('library internal unusable, model correspondence skipped for %d cases (oracle still ran through the public API): %s' % (cnt, k))
    ctx.broken += tie_broken
    if (not ok or tie_broken) and not reported:
        ctx.violation('proof obligation or tie of C20 no longer checks', {'broken': ctx.broken}, found_input=False)

    need = [(s, d) for s in ('fuse_insert', 'fuse_concat', 'to_dense', 'fill_missing_blocks', 'fused_contraction') for d in DTS]
    gap = [list(k) for k in need if not R.zero_sites.get(k)]
    ctx.extra['zero_block_sites_exercised'] = {'%s/%s' % k: v for k, v in sorted(R.zero_sites.items())}
    if gap:
        ctx.extra['generator_gap'] = gap
    ctx.extra['oracle_checks_per_op'] = dict(sorted(R.ops.items()))
    fo = {}
    for f in R.failures:
        fo[f['op']] = fo.get(f['op'], 0) + 1
    ctx.extra['oracle_failures_per_op'] = dict(sorted(fo.items()))
    ctx.extra['tie'] = {'kernel_table_cases': len(tex), 'operation_model_cases': len(R.exprs)}
    ctx.note('an array with NO stored blocks reports dtype float64 and to_dense / fill_missing_blocks give float64 '
             '(get_any_array() falls back to the Python float 0.0): no data, nothing to preserve — side condition of the theorem, not a violation')
    ctx.note('numpy promotion rules (Model/Dtype.v part 1) are modelled and compared with the installed numpy/autoray on every run, not verified')
    ctx.coverage['rule'] = ('4 dtypes x {abelian, fermionic} x {Z2,U1,Z2Z2,U1U1,Z4}; rank 2-4 arrays with ~40% of the valid sectors removed; '
                            'every public operation; the dtype of every block of every result is compared with the Coq model (cases.v) and '
                            'with dense numpy on the same dtype (oracle). non-trivial = a distinct (dtype, class, symmetry, rank, sparsity) array, '
                            'a binary op with different sparsity, a fused contraction dropping blocks on both sides, a phase_sync with pending signs, '
                            'or a mixed-dtype chain; zero_block_sites_exercised counts real zero-block creations per site and dtype')


def replay(path):
    r = json.load(open(path))
    print(json.dumps({k: v for k, v in r.items() if k != 'inputs'}, indent=1)[:3000])
    if r.get('oracle') != 'block_dtype' or not r.get('inputs'):
        return 0
    xs = [build(s) for s in r['inputs']]
    op = r['op']
    x = xs[0]
    args = r.get('args') or {}
    out = None
    with warnings.catch_warnings(record=True) as w:
        warnings.simplefilter('always')
        if args.get('warm'):
            import symmray as sr
            axes = tuple(tuple(a) for a in args['axes']) if args.get('axes') else None
            n, fails = warm_checks(sr, x, xs[1] if len(xs) > 1 else None, [tuple(g) for g in args['groups']], axes, args['sequence'])
            for f in fails:
                print('FAIL:', f['detail'], f['got'][:4])
            print('%d checks along the dtype sequence %s, %d failed' % (n, args['sequence'], len(fails)))
            return 1 if fails else 0
        if 'fuse' in op and 'groups' in args and op != 'fuse_public':
            xs_ = x.phase_sync() if getattr(x, 'fermionic', False) else x
            out = pub_fuse(xs_, args['groups'], args.get('mode', r.get('mode', 'insert')))
        elif op == 'fuse_public':
            out = x.fuse(*[tuple(g) for g in args['groups']])
        elif op == 'to_dense':
            out = x.to_dense()
        elif op == 'fill_missing_blocks':
            x.fill_missing_blocks(); out = x
        elif op.startswith('tensordot'):
            import symmray as sr
            out = sr.tensordot(x, xs[1], (tuple(args['axes'][0]), tuple(args['axes'][1])), mode=args.get('mode', 'auto'), preserve_array=True)
        elif op == 'phase_sync':
            out = x.phase_sync()
        elif op == 'svd_truncated':
            import symmray as sr
            U, s, V = sr.linalg.svd_truncated(x, max_bond=args['max_bond'], absorb=args['absorb'])
            out = {'U': U, 's': s, 'VH': V}[r['result']]
    for m in w:
        print('warning:', m.message)
    if out is None:
        print('replay of op %s: inputs rebuilt; re-run the op by hand' % op)
        return 0
    got = tags_of(out)
    print('block dtypes now:', got, ' expected:', r['expected_dtype'])
    return 1 if any(d != r['expected_dtype'] for _, d in got) or any('imaginary' in str(m.message) for m in w) else 0
