"""C15 — results do not depend on call history, caches or threads."""
import hashlib
import itertools
import json
import os
import re
import subprocess
import sys
import threading
import time
from collections import OrderedDict

import common
from common import gz, gbool, glist
import refsym

IMPORTS = ('From Coq Require Import String.\n'
           'From SV Require Import Model.Cache Gen.CacheKey Gen.ModeCtx.\n')   # no Proofs: the tie survives a broken proof
MODES = {'auto': 1, 'fused': 2, 'blockwise': 3}
DEFAULT_MAXSIZE, DEFAULT_MAXSECTORS = 8192, 512
F9_KEY = 'fuse-cache-eviction-race'


def tup(c):
    return tuple(c) if isinstance(c, list) else c


# ---------------------------------------------------------------- arrays from JSON-able specs
def build(spec, shared=None):
    """spec -> AbelianArray.  `shared`: already built members (for 'from' specs:
    an array derived through the library from a possibly warmed-up sibling)."""
    import numpy as np
    from symmray import AbelianArray, BlockIndex
    if 'from' in spec:
        x = shared(spec['from'])
    else:
        ixs = [BlockIndex({tup(c): d for c, d in ix['chargemap']}, dual=ix['dual']) for ix in spec['indices']]
        blocks = {}
        for k, s in enumerate(spec['sectors']):
            s = tuple(tup(c) for c in s)
            shape = tuple(ixs[a].size_of(c) for a, c in enumerate(s))
            if 'data' in spec:
                arr = np.array(spec['data'][k], dtype=float).reshape(shape)
            else:
                n = int(np.prod(shape)) if shape else 1
                arr = (np.arange(n, dtype=float) % 5 + 1 + 7 * (k % 3)).reshape(shape)
            blocks[s] = arr
        x = AbelianArray(indices=ixs, charge=tup(spec['charge']), blocks=blocks, symmetry=spec['symmetry'])
    for step in spec.get('derive', []):
        x = run_op(x, step)
    return x


def run_op(x, op):
    import symmray as sr
    k = op[0]
    if k == 'fuse':
        return x.fuse(*[tuple(g) for g in op[1]])
    if k == 'fuse_unfuse':
        return x.fuse(*[tuple(g) for g in op[1]]).unfuse_all()
    if k == 'conj':
        return x.conj()
    if k == 'transpose':
        return x.transpose(tuple(op[1]))
    if k == 'unfuse_all':
        return x.unfuse_all()
    if k == 'tdot':
        return sr.tensordot(x, x.conj(), axes=(tuple(op[1]), tuple(op[2])), mode='fused')
    if k == 'reshape_merge':
        a = op[1]
        sh = x.shape
        new = sh[:a] + (sh[a] * sh[a + 1],) + sh[a + 2:]
        y = x.reshape(new)
        return [y, y.reshape(sh)]
    if k == 'copy_dual':      # BlockIndex.copy_with(dual=...) on one index, through the public copy_with
        ixs = list(x.indices)
        ixs[op[1]] = ixs[op[1]].copy_with(dual=not ixs[op[1]].dual)
        return x.copy_with(indices=tuple(ixs))
    raise ValueError('unknown op %r' % (op,))


def snap_index(ix):
    si = ix.subinfo
    return {'cm': [[c, d] for c, d in ix.chargemap.items()], 'dual': bool(ix.dual),
            'sub': None if si is None else {
                'indices': [snap_index(j) for j in si.indices],
                'extents': [[c, [[list(s), d] for s, d in e.items()]] for c, e in si.extents.items()]}}


def snap(x):
    if isinstance(x, list):
        return [snap(y) for y in x]
    if not hasattr(x, 'blocks'):
        return {'scalar': complex(x).real, 'imag': complex(x).imag}
    return {'indices': [snap_index(ix) for ix in x.indices], 'charge': x.charge,
            'blocks': sorted([[list(s), list(b.shape), b.tolist()] for s, b in x.blocks.items()],
                             key=lambda t: json.dumps(t[0]))}


def snapj(x):
    return json.dumps(snap(x), sort_keys=True, default=str)


def attempt(fn):
    try:
        return snapj(fn())
    except Exception as e:   # the same call must raise the same way under every history
        return 'raise:' + type(e).__name__


# ---------------------------------------------------------------- cache control (module globals, no hooks)
def lru_objects():
    import symmray
    out = []
    for m in list(sys.modules.values()):
        if m is not None and getattr(m, '__name__', '').startswith('symmray'):
            for v in list(vars(m).values()):
                if hasattr(v, 'cache_clear') and hasattr(v, 'cache_info') and v not in out:
                    out.append(v)
    return out


def configure(ac, maxsize, maxsectors, clear=True):
    ac._fuseinfo_cache_maxsize = maxsize
    ac._fuseinfo_cache_maxsectors = maxsectors
    if clear:
        if type(ac._fuseinfos) is not OrderedDict:
            ac._fuseinfos = OrderedDict()
        ac._fuseinfos.clear()
        for f in lru_objects():
            f.cache_clear()


def restore(ac):
    ac._fuseinfos = OrderedDict()
    ac._fuseinfo_cache_maxsize = DEFAULT_MAXSIZE
    ac._fuseinfo_cache_maxsectors = DEFAULT_MAXSECTORS
    ac._DEFAULT_TENSORDOT_MODE = 'auto'


# ---------------------------------------------------------------- families of near-identical arrays
def mkspec(sym, tables, duals, charge, sectors=None, **kw):
    if sectors is None:
        sectors = refsym.valid_sectors(sym, [sorted(c for c, _ in t) for t in tables], duals, charge)
    return dict(symmetry=sym, indices=[{'chargemap': [list(p) for p in t], 'dual': bool(d)} for t, d in zip(tables, duals)],
                charge=charge, sectors=[list(s) for s in sectors], **kw)


def families(rng):
    """[(name, members, ops)] — members differ from members[0] in exactly one attribute"""
    fams = []
    sz = lambda: rng.randint(1, 3)
    # --- Z2, rank 3 or 4: dualness / block size / missing sector / derived (conj, copy_with) after warm-up
    for nd in (3, 4):
        tables = [[(0, sz()), (1, sz())] for _ in range(nd)]
        duals = [rng.random() < 0.5 for _ in range(nd)]
        q = rng.randint(0, 1)
        base = mkspec('Z2', tables, duals, q)
        k = rng.randrange(nd)
        d1 = list(duals); d1[k] = not d1[k]
        t2 = [list(t) for t in tables]; k2 = rng.randrange(nd); c2 = rng.randint(0, 1)
        t2[k2] = [(c, d + 1 if c == c2 else d) for c, d in t2[k2]]
        sec = list(base['sectors']); drop = rng.randrange(len(sec))
        members = [base,
                   mkspec('Z2', tables, d1, q),                                        # one dualness
                   mkspec('Z2', t2, duals, q),                                         # one block size
                   dict(base, sectors=sec[:drop] + sec[drop + 1:]),                   # one missing sector
                   {'from': 0, 'derive': [['copy_dual', k]]},                          # copy_with after warm-up
                   {'from': 0, 'derive': [['conj'], ['conj'], ['copy_dual', (k + 1) % nd]]}]
        ops = [['fuse', [[0, 1]]], ['fuse', [[1, 2]]], ['fuse', [[2, 0]]], ['fuse_unfuse', [[0, 1]]],
               ['tdot', [0, 1], [0, 1]], ['tdot', [nd - 1], [nd - 1]], ['reshape_merge', 0]]
        if nd == 4:
            ops += [['fuse', [[0, 1], [2, 3]]], ['fuse', [[0, 2], [3, 1]]], ['fuse', [[1, 2, 3]]], ['reshape_merge', 2]]
        fams.append(('Z2 rank %d: dualness / size / sector / copy_with' % nd, members, ops))
    # --- U1, rank 3: one charge label, one dualness, one size
    cs = [[-1, 0, 1], [0, 1], [-1, 0, 1, 2]]
    tables = [[(c, sz()) for c in row] for row in cs]
    duals = [False, True, rng.random() < 0.5]
    base = mkspec('U1', tables, duals, 0)
    t1 = [list(t) for t in tables]; t1[0] = [(2 if c == 1 else c, d) for c, d in t1[0]]
    d2 = list(duals); d2[2] = not d2[2]
    t3 = [list(t) for t in tables]; t3[1] = [(c, d + 1 if c == 0 else d) for c, d in t3[1]]
    members = [base, mkspec('U1', t1, duals, 0), mkspec('U1', tables, d2, 0), mkspec('U1', t3, duals, 0),
               mkspec('U1', tables, duals, 1), {'from': 0, 'derive': [['conj']]}]
    fams.append(('U1 rank 3: label / dualness / size / charge', members,
                 [['fuse', [[0, 1]]], ['fuse', [[1, 2]]], ['fuse', [[2, 1]]], ['fuse', [[0, 1, 2]]],
                  ['tdot', [0, 1], [0, 1]], ['reshape_merge', 1], ['fuse_unfuse', [[0, 2]]]]))
    # --- U1, rank 3: the labels -1 and -2 (equal under Python's builtin hash) in otherwise identical arrays
    tb = [[(-1, sz()), (0, sz())], [(0, sz()), (1, sz())], [(0, sz()), (1, sz())]]
    tb2 = [[(-2 if c == -1 else c, d) for c, d in tb[0]], tb[1], tb[2]]
    dl = [False, False, False]
    members = [mkspec('U1', tb, dl, 0, sectors=[(-1, 0, 1), (-1, 1, 0)]), mkspec('U1', tb2, dl, -1, sectors=[(-2, 0, 1), (-2, 1, 0)])]
    fams.append(('U1 rank 3: charge labels -1 / -2', members,
                 [['fuse', [[0, 1]]], ['fuse', [[0, 1, 2]]], ['fuse', [[2, 0]]], ['fuse_unfuse', [[0, 1]]], ['tdot', [0, 1], [0, 1]]]))
    # --- Z2Z2 rank 3
    cz = [(0, 0), (0, 1), (1, 0), (1, 1)]
    tables = [[(c, sz()) for c in rng.sample(cz, 3)] for _ in range(3)]
    duals = [rng.random() < 0.5 for _ in range(3)]
    base = mkspec('Z2Z2', tables, duals, (0, 0))
    d1 = list(duals); d1[1] = not d1[1]
    t2 = [list(t) for t in tables]; t2[2] = [(c, d + 1) if i == 0 else (c, d) for i, (c, d) in enumerate(t2[2])]
    members = [base, mkspec('Z2Z2', tables, d1, (0, 0)), mkspec('Z2Z2', t2, duals, (0, 0))]
    if base['sectors']:
        members.append(dict(base, sectors=base['sectors'][1:]))
    fams.append(('Z2Z2 rank 3: dualness / size / sector', members,
                 [['fuse', [[0, 1]]], ['fuse', [[1, 2]]], ['tdot', [0], [0]], ['reshape_merge', 0]]))
    # --- same tables, same ordered sectors, different symmetry (Z2 vs U1)
    tb = [[(0, sz()), (1, sz())] for _ in range(3)]
    sec = [(0, 0, 0), (0, 1, 1), (1, 0, 1)]
    members = [mkspec('Z2', tb, [False, False, True], 0, sectors=sec), mkspec('U1', tb, [False, False, True], 0, sectors=sec)]
    fams.append(('same indices and sectors, Z2 vs U1', members,
                 [['fuse', [[1, 2]]], ['fuse', [[0, 2]]], ['fuse', [[0, 1, 2]]], ['fuse_unfuse', [[2, 1]]]]))
    # --- with / without sub-index structure, and equal extents with different sub-indices
    tb = [[(0, sz()), (1, sz())] for _ in range(3)]
    x0 = mkspec('Z2', tb, [False, False, True], 0)
    x1 = mkspec('Z2', tb, [False, True, True], 0)       # fuse((0,1)): equal chargemap, dual, extents; sub-index dual differs
    fused0 = dict(x0, derive=[['fuse', [[0, 1]]]])
    fused1 = dict(x1, derive=[['fuse', [[0, 1]]]])
    y = build(fused0)                                    # only to read off the flat twin's tables and data
    flat = dict(symmetry='Z2', indices=[{'chargemap': [[c, d] for c, d in ix.chargemap.items()], 'dual': bool(ix.dual)}
                                        for ix in y.indices],
                charge=y.charge, sectors=[list(s) for s in y.blocks], data=[b.tolist() for b in y.blocks.values()])
    fams.append(('sub-index structure: fused / flat twin / other sub-indices', [fused0, flat, fused1],
                 [['fuse', [[0, 1]]], ['fuse', [[1, 0]]], ['tdot', [0], [0]], ['unfuse_all'], ['fuse_unfuse', [[0, 1]]]]))
    # --- pre-fused legs with identical fused tables and sub-indices but different EXTENTS (complementary stored sectors)
    tb = [[(0, 2), (1, 2)], [(0, 2), (1, 2)], [(0, 1), (1, 1)], [(0, 1), (1, 1)]]
    dl = [False, False, False, False]
    sx = [(0, 0, 0, 0), (0, 0, 1, 1), (0, 1, 0, 1), (0, 1, 1, 0)]
    sy = [(1, 1, 0, 0), (1, 1, 1, 1), (1, 0, 0, 1), (1, 0, 1, 0)]
    fx = dict(mkspec('Z2', tb, dl, 0, sectors=sx), derive=[['fuse', [[0, 1]]]])
    fy = dict(mkspec('Z2', tb, dl, 0, sectors=sy), derive=[['fuse', [[0, 1]]]])
    fams.append(('pre-fused leg: same fused table and sub-indices, complementary extents', [fx, fy],
                 [['fuse_unfuse', [[1, 2]]], ['fuse', [[1, 2]]], ['fuse_unfuse', [[2, 1]]], ['unfuse_all'], ['tdot', [1, 2], [1, 2]]]))
    return fams


def reference(ac, members, ops):
    """every (member, op) answer with the cache disabled, on freshly built, unshared arrays"""
    ref = {}
    for i in range(len(members)):
        for j, op in enumerate(ops):
            configure(ac, 0, DEFAULT_MAXSECTORS)
            objs = {}

            def get(k):
                if k not in objs:
                    objs[k] = build(members[k], get)
                return objs[k]
            ref[i, j] = attempt(lambda: run_op(get(i), op))
    return ref


def run_history(ac, members, ops, seq, maxsize, maxsectors):
    """one history from a cold cache on shared arrays; returns the answers in order"""
    configure(ac, maxsize, maxsectors)
    objs = {}

    def get(k):
        if k not in objs:
            objs[k] = build(members[k], get)
        return objs[k]
    return [attempt(lambda: run_op(get(i), ops[j])) for i, j in seq]


def history_search(ctx, ac, rng, budget, rounds=1):
    """oracle: the same call under different histories and cache settings"""
    found = []
    stats = {'histories': 0, 'calls': 0, 'hits': 0, 'misses': 0, 'bypass': 0}
    for name, members, ops in [f for _ in range(rounds) for f in families(rng)]:
        ref = reference(ac, members, ops)
        n = len(members)
        seqs = []
        perms = list(itertools.permutations(range(n))) if n <= 4 else [tuple(rng.sample(range(n), n)) for _ in range(30)]
        for j in range(len(ops)):
            for p in (perms if len(perms) <= 24 else rng.sample(perms, 24)):
                seqs.append([(i, j) for i in p])
        # same array, all pairs of different requests (e.g. two groupings), both orders
        for i in range(n):
            for j1, j2 in itertools.permutations(range(len(ops)), 2):
                seqs.append([(i, j1), (i, j2), (i, j1)])
        for _ in range(budget):
            seqs.append([(rng.randrange(n), rng.randrange(len(ops))) for _ in range(rng.randint(4, 10))])
        for seq in seqs:
            settings = [(1, DEFAULT_MAXSECTORS), (2, DEFAULT_MAXSECTORS), (DEFAULT_MAXSIZE, DEFAULT_MAXSECTORS)]
            if rng.random() < 0.2:
                settings.append((rng.choice([1, 2, 3, -1, DEFAULT_MAXSIZE]), rng.choice([1, 2, 3])))
            for ms, mx in settings:
                h0, m0, b0 = ac._fi_hit, ac._fi_missed, ac._fi_missed_too_long
                got = run_history(ac, members, ops, seq, ms, mx)
                stats['histories'] += 1
                stats['calls'] += len(seq)
                stats['hits'] += ac._fi_hit - h0
                stats['misses'] += ac._fi_missed - m0
                stats['bypass'] += ac._fi_missed_too_long - b0
                ctx.count(len(seq))
                if len(set(seq)) > 1:
                    ctx.nontrivial((name, str(seq), ms, mx))
                for pos, ((i, j), g) in enumerate(zip(seq, got)):
                    if g != ref[i, j]:
                        if len(found) < 40:
                            found.append({'oracle': 'history', 'family': name, 'members': members, 'ops': ops,
                                          'sequence': [list(s) for s in seq[:pos + 1]], 'maxsize': ms, 'maxsectors': mx,
                                          'position': pos, 'expected_cache_disabled': json.loads(ref[i, j]) if ref[i, j][0] in '[{' else ref[i, j],
                                          'actual': json.loads(g) if g[0] in '[{' else g})
                        break
        ctx.sample({'family': name, 'members': len(members), 'ops': ops[:3], 'histories': len(seqs)}, cap=5)
    restore(ac)
    # shortest first: the replay should be as small as possible
    found.sort(key=lambda f: (len(f['sequence']), len(json.dumps(f['members']))))
    return found, stats


def shrink_history(ac, f):
    """drop calls from the front / middle of a failing history while it still fails"""
    seq = [tuple(s) for s in f['sequence']]
    members, ops = f['members'], f['ops']
    ref = reference(ac, members, ops)

    def fails(s):
        got = run_history(ac, members, ops, s, f['maxsize'], f['maxsectors'])
        return got[-1] != ref[s[-1]]
    changed = True
    while changed and len(seq) > 1:
        changed = False
        for k in range(len(seq) - 1):
            t = seq[:k] + seq[k + 1:]
            if fails(t):
                seq, changed = t, True
                break
    got = run_history(ac, members, ops, seq, f['maxsize'], f['maxsectors'])
    g, r = got[-1], ref[seq[-1]]
    restore(ac)
    return dict(f, sequence=[list(s) for s in seq], position=len(seq) - 1,
                expected_cache_disabled=json.loads(r) if r[0] in '[{' else r, actual=json.loads(g) if g[0] in '[{' else g)


# ---------------------------------------------------------------- LRU correspondence with Model.Cache.runk
class RecDict(OrderedDict):
    """records the key of every lookup (the dict operations themselves are unchanged)"""
    log = None

    def __getitem__(self, k):
        RecDict.log.append(k)
        return OrderedDict.__getitem__(self, k)


LRU_PREAMBLE = '''
Definition idf (a : Z) : Z := a.
Definition byp (a : Z) : bool := a <? 0.
Fixpoint orders (ms : Z) (d : @cache Z Z) (h : list (Z * Z)) : list (list Z) :=
  match h with
  | [] => []
  | (k, a) :: h' => let d1 := fst (stepk Z.eqb fuse_cache_policy idf byp ms d k a) in keys d1 :: orders ms d1 h'
  end.
Definition chk (ms : Z) (h : list (Z * Z)) (ev : list event) (ords : list (list Z)) : bool :=
  list_eqb event_eqb (tracek Z.eqb fuse_cache_policy idf byp ms [] h) ev &&
  list_eqb (list_eqb Z.eqb) (orders ms [] h) ords &&
  list_eqb Z.eqb (snd (runk Z.eqb fuse_cache_policy idf byp ms [] h)) (map snd h).
Definition oz_eqb (a b : option Z) : bool :=
  match a, b with Some x, Some y => Z.eqb x y | None, None => true | _, _ => false end.
Definition ov_eqb (a b : option val) : bool :=
  match a, b with Some x, Some y => val_eqb x y | None, None => true | _, _ => false end.
Definition thr (tol : bool) (ms : Z) (d : @cache Z Z) (calls : list (list (Z * Z))) (sched : list nat)
               (ks : list Z) (res : list (list (option Z))) : bool :=
  let r := run_sched Z.eqb tol fuse_cache_policy idf (fun _ => false) ms d (map spawn calls) sched in
  list_eqb Z.eqb (keys (fst r)) ks &&
  list_eqb (list_eqb oz_eqb) (map (fun t => map snd (results t)) (snd r)) res && all_done (snd r).
Definition mode_of (g : env) : option val := lookup String.eqb mode_global g.
Definition setbody (m : option val) (raises : bool) : env -> env * bool :=
  fun g => (match m with Some v => fst (call_with set_default_tensordot_mode_def [v] no_body g) | None => g end, raises).
Definition modechk (start : Z) (ms : list val) (m : option val) (raises : bool) (final : val) (raised : bool) : bool :=
  let r := nested default_tensordot_mode_def ms (setbody m raises) [(mode_global, VMode start)] in
  ov_eqb (mode_of (fst r)) (Some final) && Bool.eqb (snd r) raised.
'''


def lru_cases(ctx, ac, rng, n):
    """abstract trace of the real cache (keys by first appearance, hit/miss/bypass from
    the module counters, key order after every call) against the model"""
    fams = families(rng)
    exprs, meta = [], []
    branches = {'hit': 0, 'miss': 0, 'bypass_oversize': 0, 'bypass_disabled': 0, 'eviction': 0}
    for t in range(n):
        name, members, ops = fams[t % len(fams)]
        fuse_ops = [op for op in ops if op[0] == 'fuse']
        ms = rng.choice([0, 1, 1, 2, 2, 3, -1, DEFAULT_MAXSIZE])
        mx = rng.choice([DEFAULT_MAXSECTORS, DEFAULT_MAXSECTORS, 2, 3])
        configure(ac, ms, mx)
        d = RecDict()
        RecDict.log = []
        ac._fuseinfos = d
        objs = {}

        def get(k):
            if k not in objs:
                objs[k] = build(members[k], get)
            return objs[k]
        for k in range(len(members)):     # derived members fuse while being built: keep that out of the trace
            get(k)
        OrderedDict.clear(d)
        ids, hist, evs, ords = {}, [], [], []
        for _ in range(rng.randint(4, 12)):
            i, op = rng.randrange(len(members)), rng.choice(fuse_ops)
            x = get(i)
            groups = tuple(tuple(g) for g in op[1])
            RecDict.log = []
            h0, m0 = ac._fi_hit, ac._fi_missed
            before = OrderedDict.__len__(d)
            try:
                ac.cached_fuse_block_info(x, groups)
            except Exception:
                continue
            if ac._fi_hit > h0:
                ev = 'EvHit'; branches['hit'] += 1
            elif ac._fi_missed > m0:
                ev = 'EvMiss'; branches['miss'] += 1
                if OrderedDict.__len__(d) <= before:
                    branches['eviction'] += 1
            else:
                ev = 'EvBypass'
                branches['bypass_disabled' if ms == 0 else 'bypass_oversize'] += 1
            if RecDict.log:
                kid = ids.setdefault(RecDict.log[0], len(ids) + 1)
                hist.append((kid, kid))
            else:
                hist.append((0, -1))
            evs.append(ev)
            ords.append([ids.setdefault(k, len(ids) + 1) for k in OrderedDict.keys(d)])
        exprs.append('chk %s %s %s %s' % (gz(ms), glist(['(%s, %s)' % (gz(k), gz(a)) for k, a in hist]), glist(evs),
                                         glist([glist([gz(k) for k in o]) for o in ords])))
        meta.append({'family': name, 'maxsize': ms, 'maxsectors': mx, 'history': hist, 'events': evs, 'orders': ords})
        ctx.count(len(hist))
        if len(set(evs)) > 1:
            ctx.nontrivial(('lru', str(hist), ms, mx))
    restore(ac)
    return exprs, meta, branches


# ---------------------------------------------------------------- the context manager
def run_mode(ac, start, ms, inner, raises):
    ac._DEFAULT_TENSORDOT_MODE = start
    seen = []

    def go(k):
        if k == len(ms):
            seen.append(ac.get_default_tensordot_mode())
            if inner != 'noset':
                ac.set_default_tensordot_mode(inner)
            if raises:
                raise ZeroDivisionError('body raises')
            return
        with ac.default_tensordot_mode(ms[k]):
            go(k + 1)
    try:
        go(0)
        r = False
    except ZeroDivisionError:
        r = True
    return seen[0], ac.get_default_tensordot_mode(), r


def gval(m):
    return 'VNone' if m is None else '(VMode %s)' % gz(MODES[m])


def mode_cases(ctx, ac, rng, n):
    names = list(MODES)
    exprs, meta, bad = [], [], []
    scen = []
    for depth in range(0, 4):
        for raises in (False, True):
            for inner in ('noset', None) + tuple(names):
                scen.append((depth, raises, inner))
    cov = {'exception_inside': 0, 'nested': 0}
    for depth, raises, inner in scen * max(1, n // len(scen)):
        start = rng.choice(names)
        ms = [rng.choice(names) for _ in range(depth)]
        seen, final, raised = run_mode(ac, start, ms, inner, raises)
        ctx.count()
        ctx.nontrivial(('mode', start, tuple(ms), str(inner), raises))
        cov['exception_inside'] += raises and depth > 0
        cov['nested'] += depth > 1
        # oracle, independent of the model: undone on exit, even after an error; the error propagates
        want_final = start if depth > 0 else (start if inner in ('noset', None) else inner)
        want_seen = ms[-1] if depth > 0 else start
        if final != want_final or seen != want_seen or raised != raises:
            bad.append({'oracle': 'mode', 'start': start, 'modes': ms, 'inner_set': inner, 'body_raises': raises,
                        'mode_seen_inside': seen, 'expected_seen': want_seen, 'mode_after': final,
                        'expected_after': want_final, 'raised': raised})
        minner = 'None' if inner == 'noset' else '(Some %s)' % gval(inner)
        exprs.append('modechk %s %s %s %s %s %s' % (gz(MODES[start]), glist([gval(m) for m in ms]), minner, gbool(raises),
                                                    gval(final) if final in MODES else 'VNone', gbool(raised)))
        meta.append({'start': start, 'modes': ms, 'inner_set': inner, 'body_raises': raises, 'mode_after': final})
    ac._DEFAULT_TENSORDOT_MODE = 'auto'
    return exprs, meta, bad, cov


# ---------------------------------------------------------------- imposed thread schedules
class Gate:
    def __init__(self, n):
        self.tid = {}
        self.ready = [threading.Event() for _ in range(n)]
        self.go = [threading.Semaphore(0) for _ in range(n)]
        self.done = [threading.Semaphore(0) for _ in range(n)]
        self.finished = [threading.Event() for _ in range(n)]
        self.log = []
        self.free = False

    def enter(self, op, key=None):
        i = self.tid.get(threading.get_ident())
        if i is None or self.free:
            return None
        self.ready[i].set()
        self.go[i].acquire()
        self.ready[i].clear()
        if self.free:
            return None
        self.log.append((i, op))
        return i

    def leave(self, i):
        if i is not None:
            self.done[i].release()


class SchedDict(OrderedDict):
    """An OrderedDict whose every operation first waits for the scheduler's
    permission.  The operations themselves are the unchanged, atomic C methods,
    so every imposed order is a legal GIL interleaving."""
    gate = None

    def __getitem__(self, k):
        i = SchedDict.gate.enter('get')
        try:
            return OrderedDict.__getitem__(self, k)
        finally:
            SchedDict.gate.leave(i)

    def __setitem__(self, k, v):
        i = SchedDict.gate.enter('set')
        try:
            return OrderedDict.__setitem__(self, k, v)
        finally:
            SchedDict.gate.leave(i)

    def __len__(self):
        i = SchedDict.gate.enter('len')
        try:
            return OrderedDict.__len__(self)
        finally:
            SchedDict.gate.leave(i)

    def popitem(self, last=True):
        i = SchedDict.gate.enter('pop')
        try:
            return OrderedDict.popitem(self, last=last)
        finally:
            SchedDict.gate.leave(i)

    def move_to_end(self, k, last=True):
        i = SchedDict.gate.enter('move')
        try:
            return OrderedDict.move_to_end(self, k, last=last)
        finally:
            SchedDict.gate.leave(i)


def run_schedule(jobs, schedule, timeout=4.0):
    """jobs[i] = list of thunks of thread i; schedule = thread id per atomic dict step
    (entries naming a finished thread are skipped, as in the model)."""
    n = len(jobs)
    g = Gate(n)
    SchedDict.gate = g
    results = [[] for _ in range(n)]

    def worker(i):
        g.tid[threading.get_ident()] = i
        for job in jobs[i]:
            try:
                results[i].append(('ok', job()))
            except BaseException as e:
                results[i].append(('raise', '%s: %s' % (type(e).__name__, e)))
        g.finished[i].set()
    ths = [threading.Thread(target=worker, args=(i,), daemon=True) for i in range(n)]
    for t in ths:
        t.start()
    stuck = False
    for tid in schedule:
        t0 = time.time()
        while not (g.ready[tid].is_set() or g.finished[tid].is_set()):
            time.sleep(0.0002)
            if time.time() - t0 > timeout:
                stuck = True
                break
        if stuck:
            break
        if g.finished[tid].is_set():
            continue
        g.go[tid].release()
        if not g.done[tid].acquire(timeout=timeout):
            stuck = True
            break
    complete = all(f.is_set() for f in g.finished) and not stuck
    g.free = True
    for i in range(n):
        for _ in range(64):
            g.go[i].release()
    for t in ths:
        t.join(timeout)
    return results, g.log, complete


def coq_f9_schedule():
    """the witness schedule of Proofs/CacheProofs.v (the harness replays exactly that list)"""
    src = open(os.path.join(common.COQ, 'Proofs', 'CacheProofs.v')).read()
    m = re.search(r'Definition f9_schedule : list nat := \[([^\]]*)\]', src)
    return [int(t) for t in m.group(1).replace(';', ' ').split()]


def thread_array():
    return build(mkspec('Z2', [[(0, 2), (1, 1)], [(0, 1), (1, 2)], [(0, 1), (1, 1)]], [False, False, True], 0))


def forced_f9(ac):
    """cache size 1 holding one other entry; three threads fuse the same array; the
    schedule of the Coq witness: lookup x3, insert x3, len x3, popitem x3."""
    sched = coq_f9_schedule()
    x = thread_array()
    want = snapj(x.fuse((0, 1)))
    configure(ac, 1, DEFAULT_MAXSECTORS)
    d = SchedDict()
    OrderedDict.__setitem__(d, 'some-other-entry', None)
    ac._fuseinfos = d
    res, log, complete = run_schedule([[lambda: snapj(x.fuse((0, 1)))] for _ in range(3)], sched)
    keys_after = list(OrderedDict.keys(d))
    restore(ac)
    outcome = []
    for r in res:
        r = r[0] if r else ('missing', '')
        outcome.append('ok' if (r[0] == 'ok' and r[1] == want) else ('wrong-value' if r[0] == 'ok' else r[1]))
    return {'schedule': sched, 'dict_ops': ['%d:%s' % p for p in log], 'outcome': outcome,
            'cache_keys_after': len(keys_after), 'complete': complete}


# ---------------------------------------------------------------- two threads inside the fuse-info computation at once
_PAUSE = {'armed': False, 'at': 0, 'count': 0, 'paused': None, 'resume': None}


def _pausing_symmetry():
    """a U1 symmetry object (a legal `symmetry=` argument) whose `combine` parks the thread named 'T1' at its
    k-th call while armed: the other thread then runs a whole fuse-info computation in the meantime"""
    import threading
    from symmray.symmetries import U1

    class PausingU1(U1):
        __slots__ = ()

        def combine(self, *charges):
            if _PAUSE['armed'] and threading.current_thread().name == 'T1':
                _PAUSE['count'] += 1
                if _PAUSE['count'] == _PAUSE['at']:
                    _PAUSE['paused'].set()
                    _PAUSE['resume'].wait(5.0)
            return U1.combine(self, *charges)

        def __reduce__(self):               # picklable (the cache key pickles the symmetry): as a plain U1
            return (U1, ())
    return PausingU1()


def forced_info_interleaving(ac, rng):
    """-> None or a finding: T1 is parked in the middle of calc_fuse_block_info (cache disabled, so every call computes),
    T2 fuses a near-identical array with the same groups meanwhile; both results must be the sequential ones"""
    import threading
    import numpy as np
    from symmray import AbelianArray, BlockIndex
    S = _pausing_symmetry()
    tabs = [{-1: 1, 0: 2, 1: 1}, {0: 1, 1: 2}, {-1: 2, 0: 1, 1: 1}]
    tabs2 = [dict(tabs[0]), {0: 2, 1: 2}, dict(tabs[2])]            # one block size differs
    duals = [False, True, False]

    def mk(tb):
        ixs = [BlockIndex(dict(t), dual=d) for t, d in zip(tb, duals)]
        full = AbelianArray.from_fill_fn(lambda shape: np.arange(1, int(np.prod(shape)) + 1, dtype='float64').reshape(shape), ixs, charge=0, symmetry=S)
        return full
    x1, x2 = mk(tabs), mk(tabs2)
    groups = ((0, 1), (2,))
    configure(ac, 0, DEFAULT_MAXSECTORS)
    try:
        want1, want2 = attempt(lambda: x1.fuse(*groups)), attempt(lambda: x2.fuse(*groups))
        out = {}
        for at in (2, 3, 5):
            _PAUSE.update(armed=True, at=at, count=0, paused=threading.Event(), resume=threading.Event())
            res = {}

            def t1():
                res['T1'] = attempt(lambda: x1.fuse(*groups))

            def t2():
                _PAUSE['paused'].wait(5.0)
                res['T2'] = attempt(lambda: x2.fuse(*groups))
                _PAUSE['resume'].set()
            th = [threading.Thread(target=t1, name='T1'), threading.Thread(target=t2, name='T2')]
            for t in th:
                t.start()
            for t in th:
                t.join(20.0)
            _PAUSE['armed'] = False
            if res.get('T1') != want1 or res.get('T2') != want2:
                out = {'oracle': 'forced_info_interleaving', 'parked_at_combine_call': at, 'groups': [list(g) for g in groups],
                       'tables_T1': [sorted(t.items()) for t in tabs], 'tables_T2': [sorted(t.items()) for t in tabs2], 'duals': duals,
                       'T1': 'sequential result' if res.get('T1') == want1 else str(res.get('T1'))[:300],
                       'T2': 'sequential result' if res.get('T2') == want2 else str(res.get('T2'))[:300]}
                break
        return out or None
    finally:
        _PAUSE['armed'] = False
        restore(ac)


def schedule_cases(ctx, ac, rng, n, tolerant):
    """random complete schedules imposed on the real code vs Model.Cache.run_sched"""
    specs = [mkspec('Z2', [[(0, 2), (1, 1)], [(0, 1), (1, 2)], [(0, 1), (1, 1)]], [False, False, True], 0),
             mkspec('Z2', [[(0, 2), (1, 1)], [(0, 1), (1, 2)], [(0, 1), (1, 1)]], [False, True, True], 0)]
    pool = [(0, ((0, 1),)), (0, ((1, 2),)), (1, ((0, 1),))]
    exprs, meta, wrong, raises = [], [], [], 0
    for t in range(n):
        arrays = [build(s) for s in specs]
        want = {}
        configure(ac, 0, DEFAULT_MAXSECTORS)
        for r, (i, g) in enumerate(pool):
            want[r] = snapj(arrays[i].fuse(*g))
        # key ids: one sequential dry run on a recording dict (fills the memo slots too)
        configure(ac, DEFAULT_MAXSIZE, DEFAULT_MAXSECTORS)
        rec = RecDict()
        ac._fuseinfos = rec
        kid = {}
        for r, (i, g) in enumerate(pool):
            RecDict.log = []
            ac.cached_fuse_block_info(arrays[i], g)
            kid[RecDict.log[0]] = r + 1
        nthreads = rng.randint(2, 4)
        ms = rng.choice([1, 1, 2])
        calls = [[rng.randrange(len(pool)) for _ in range(rng.randint(1, 2))] for _ in range(nthreads)]
        if rng.random() < 0.3:      # the F9 pattern: everybody asks for the same thing
            calls = [[0] for _ in range(nthreads)]
        pre = rng.random() < 0.6
        total = sum(len(c) for c in calls)
        sched = [rng.randrange(nthreads) for _ in range(rng.randint(3, 5 * total))]
        if rng.random() < 0.3:
            sched = [i for _ in range(5) for i in range(nthreads)]
        sched += [i for _ in range(5 * 2 + 1) for i in range(nthreads)]
        configure(ac, ms, DEFAULT_MAXSECTORS)
        d = SchedDict()
        if pre:
            OrderedDict.__setitem__(d, 'other', None)
            kid['other'] = 99
        ac._fuseinfos = d

        def job(r):
            i, g = pool[r]
            return lambda: snapj(arrays[i].fuse(*g))
        res, log, complete = run_schedule([[job(r) for r in c] for c in calls], sched)
        keys_after = [kid.get(k, 0) for k in OrderedDict.keys(d)]
        restore(ac)
        ctx.count(total)
        ctx.nontrivial(('sched', str(calls), str(sched), ms, pre))
        rows = []
        for c, rs in zip(calls, res):
            row = []
            for r, out in zip(c, rs):
                if out[0] == 'ok':
                    if out[1] != want[r]:
                        wrong.append({'oracle': 'imposed_schedule', 'maxsize': ms, 'calls': calls, 'schedule': sched,
                                      'pre_filled': pre, 'request': r, 'detail': 'returned value differs from the sequential answer'})
                    row.append('(Some %s)' % gz(r + 1))
                else:
                    raises += 1
                    row.append('None')
            rows.append(glist(row))
        if not complete:
            continue
        exprs.append('thr %s %s %s %s %s %s %s' % (
            gbool(tolerant), gz(ms), glist(['(%s, %s)' % (gz(99), gz(99))] if pre else []),
            glist([glist(['(%s, %s)' % (gz(r + 1), gz(r + 1)) for r in c]) for c in calls]),
            glist(['%d%%nat' % i for i in sched]), glist([gz(k) for k in keys_after]), glist(rows)))
        meta.append({'maxsize': ms, 'calls': calls, 'schedule': sched, 'pre_filled': pre, 'results': res and [[o[0] for o in rs] for rs in res],
                     'keys_after': keys_after})
    return exprs, meta, wrong, raises


def free_threads(ctx, ac, rng, nthreads=8, rounds=6):
    """thorough tier: real threads on shared arrays with a tiny switch interval"""
    old = sys.getswitchinterval()
    bad, f9 = [], 0
    calls = 0
    try:
        sys.setswitchinterval(1e-6)
        for name, members, ops in families(rng):
            ref = reference(ac, members, ops)
            for ms in (DEFAULT_MAXSIZE, 3, 1):
                for _ in range(rounds):
                    configure(ac, ms, DEFAULT_MAXSECTORS)
                    lock = threading.Lock()
                    objs = {}

                    def get(k):
                        with lock:
                            if k not in objs:
                                objs[k] = build(members[k], lambda j: objs[j] if j in objs else objs.setdefault(j, build(members[j])))
                            return objs[k]
                    for k in range(len(members)):
                        get(k)
                    plans = [[(rng.randrange(len(members)), rng.randrange(len(ops))) for _ in range(12)] for _ in range(nthreads)]
                    outs = [[] for _ in range(nthreads)]
                    start = threading.Barrier(nthreads)

                    def work(t):
                        start.wait()
                        for i, j in plans[t]:
                            try:
                                outs[t].append(snapj(run_op(objs[i], ops[j])))
                            except Exception as e:
                                outs[t].append('raise:%s:%s' % (type(e).__name__, e))
                    ths = [threading.Thread(target=work, args=(t,)) for t in range(nthreads)]
                    for t in ths:
                        t.start()
                    for t in ths:
                        t.join()
                    for t in range(nthreads):
                        for (i, j), g in zip(plans[t], outs[t]):
                            calls += 1
                            r = ref[i, j]
                            if g == r or (g.startswith('raise:') and r.startswith('raise:') and g.split(':')[1] == r.split(':')[1]):
                                continue
                            if g.startswith('raise:KeyError') and 'dictionary is empty' in g:
                                f9 += 1
                                continue
                            if len(bad) < 5:
                                bad.append({'oracle': 'free_threads', 'family': name, 'members': members, 'op': ops[j], 'member': i,
                                            'maxsize': ms, 'threads': nthreads, 'expected_sequential': r[:2000], 'actual': g[:2000]})
    finally:
        sys.setswitchinterval(old)
        restore(ac)
    ctx.count(calls)
    return bad, f9, calls


# ---------------------------------------------------------------- environment variables, fresh subprocesses
def subprocess_main():
    """run inside a fresh interpreter: a fixed history, print the parsed settings and a digest"""
    import random
    from symmray import abelian_core as ac
    rng = random.Random(12345)
    out = []
    for name, members, ops in families(rng):
        objs = {}

        def get(k):
            if k not in objs:
                objs[k] = build(members[k], get)
            return objs[k]
        for _ in range(25):
            i, j = rng.randrange(len(members)), rng.randrange(len(ops))
            out.append(attempt(lambda: run_op(get(i), ops[j])))
    print('C15SUB ' + json.dumps({'maxsize': ac._fuseinfo_cache_maxsize, 'maxsectors': ac._fuseinfo_cache_maxsectors,
                                  'digest': hashlib.sha1('\n'.join(out).encode()).hexdigest(), 'calls': len(out),
                                  'hits': ac._fi_hit, 'misses': ac._fi_missed, 'too_long': ac._fi_missed_too_long}))


def env_runs(ctx):
    settings = [(None, None), ('0', None), ('1', None), ('2', None), ('3', '2'), ('not-a-number', 'x'), ('-1', None)]
    procs = []
    for ms, mx in settings:
        env = dict(os.environ, PYTHONHASHSEED='0', PYTHONDONTWRITEBYTECODE='1')
        env.pop('SYMMRAY_FUSE_CACHE_MAXSIZE', None)
        env.pop('SYMMRAY_FUSE_CACHE_MAXSECTORS', None)
        if ms is not None:
            env['SYMMRAY_FUSE_CACHE_MAXSIZE'] = ms
        if mx is not None:
            env['SYMMRAY_FUSE_CACHE_MAXSECTORS'] = mx
        code = ('import sys; sys.path.insert(0, %r); sys.path.insert(0, %r); sys.path.insert(0, %r); import c15; c15.subprocess_main()'
                % (common.REPO, os.path.join(common.VERIF, 'tr'), os.path.join(common.VERIF, 'harness')))
        procs.append(((ms, mx), subprocess.Popen([sys.executable, '-c', code], env=env, stdout=subprocess.PIPE,
                                                 stderr=subprocess.STDOUT, text=True)))
    rows, bad = [], []
    for (ms, mx), p in procs:
        out, _ = p.communicate(timeout=300)
        m = re.search(r'^C15SUB (.*)$', out, flags=re.M)
        if not m:
            bad.append({'oracle': 'env', 'maxsize_env': ms, 'maxsectors_env': mx, 'detail': 'subprocess failed', 'output': out[-600:]})
            continue
        r = json.loads(m.group(1))

        def parsed(s, default):
            if s is None:
                return default
            try:
                return int(s)
            except ValueError:
                return default
        r['env'] = [ms, mx]
        r['expected_settings'] = [parsed(ms, DEFAULT_MAXSIZE), parsed(mx, DEFAULT_MAXSECTORS)]
        rows.append(r)
        ctx.count(r['calls'])
    if rows:
        base = rows[1] if len(rows) > 1 else rows[0]     # the cache-disabled run
        for r in rows:
            if [r['maxsize'], r['maxsectors']] != r['expected_settings']:
                bad.append({'oracle': 'env', 'env': r['env'], 'detail': 'environment variable parsed differently',
                            'got': [r['maxsize'], r['maxsectors']], 'expected': r['expected_settings']})
            if r['digest'] != base['digest']:
                bad.append({'oracle': 'env', 'env': r['env'], 'detail': 'answers of a fixed history differ from the cache-disabled process',
                            'digest': r['digest'], 'digest_cache_disabled': base['digest']})
    return rows, bad


# ---------------------------------------------------------------- the check
def repeat_one(seed):
    """the SAME operand objects contracted twice (and three times): every call must return the same array"""
    import numpy as np
    import symmray as sr
    import random as _rnd
    r = _rnd.Random(seed)
    sym = r.choice(['Z2', 'U1'])
    ra, rb = r.choice([2, 3]), r.choice([1, 1, 2])
    da = [r.randrange(2) for _ in range(ra)]
    db = [1 - da[-1]] + [r.randrange(2) for _ in range(rb - 1)]
    ca, cb = r.choice([0, 1]), r.choice([0, 1, 1])
    ferm = r.random() < 0.8
    kw = {'fermionic': True} if ferm else {}
    a = sr.utils.get_rand(sym, (4,) * ra, duals=da, charge=ca, seed=seed, **({'oddpos': 'a', **kw} if ferm and ca else kw))
    b = sr.utils.get_rand(sym, (4,) * rb, duals=db, charge=cb, seed=seed + 1, **({'oddpos': 'b', **kw} if ferm and cb else kw))
    outs = []
    for _ in range(3):
        c = sr.tensordot(a, b, axes=((ra - 1,), (0,)))
        outs.append(np.asarray(c.to_dense() if hasattr(c, 'to_dense') else c))
    same = all(o.shape == outs[0].shape and np.array_equal(o, outs[0]) for o in outs[1:])
    if same:
        return None
    return {'oracle': 'repeat', 'seed': seed, 'symmetry': sym, 'fermionic': ferm, 'duals_a': da, 'duals_b': db, 'charge_a': ca,
            'charge_b': cb, 'first': outs[0].tolist().__repr__()[:600], 'second': outs[1].tolist().__repr__()[:600],
            'third': outs[2].tolist().__repr__()[:600]}


def f9_known():
    for f in common.load_known_findings().get('findings', []):
        s = json.dumps(f)
        if 'C15' in s and (F9_KEY in s or 'F9' in s or 'popitem' in s):
            return f
    return None


def run(ctx):
    import symmray  # noqa: F401
    from symmray import abelian_core as ac
    import gen_cache
    from pygallina import Unsupported
    rng = ctx.rng
    ok = common.standard_proof_phase(ctx)
    tie_broken = []
    try:
        facts = gen_cache.facts(common.REPO)
    except (Unsupported, SyntaxError, KeyError, IndexError, AttributeError, ValueError, TypeError, OSError) as e:
        facts = None
        tie_broken.append('tr/gen_cache.py cannot read the source: %s' % e)
    tolerant = bool(facts and facts['tolerant'])
    if facts:
        ctx.extra['generated'] = {k: facts[k] for k in ('fuse', 'index', 'subinfo', 'reads', 'move_on_hit', 'pop_oldest', 'tolerant')}
        ctx.extra['generated']['attr_sites'] = len(facts['sites'])
        ctx.extra['generated']['lru_helpers'] = [h[0] for h in facts['helpers']]
        if not (facts['move_on_hit'] and facts['pop_oldest']):
            ctx.extra['model_drift'] = ('eviction policy read off the source is not LRU (move_on_hit=%s, pop_oldest=%s): values are '
                                        'unaffected (theorems hold for every policy); recorded, not an alarm'
                                        % (facts['move_on_hit'], facts['pop_oldest']))
            ctx.note(ctx.extra['model_drift'])
        if 'KSubIndexBoundMethods' in facts['subinfo']:
            ctx.note('SubIndexInfo.hashkey hashes the bound methods `ix.hashkey` (no call): pickle then serialises the whole state of '
                     'every sub-index including its `_hashkey` memo slot; modelled as such: sound (never a wrong hit), but equal '
                     'content can get different keys depending on memo state (spurious misses)')
    found = []

    # ---- oracle 1: same call, different histories / cache settings (cold, warm, evicting, disabled)
    hist_bad, stats = history_search(ctx, ac, rng, 60 if ctx.thorough else 12, rounds=4 if ctx.thorough else 1)
    ctx.extra['history_stats'] = stats
    seen_sig = set()
    for f in hist_bad:
        sig = (f['family'], json.dumps(f['sequence'][-1]))
        if sig in seen_sig or len(found) >= 4:
            continue
        seen_sig.add(sig)
        try:
            f = shrink_history(ac, f)
        except Exception:
            restore(ac)
        found.append(('answer depends on the call history / cache setting (%s)' % f['family'], f))

    # ---- oracle 1b: the same structure with different element types, one after the other in this process: what an earlier
    #      call leaves behind (cache entries, module state, default arguments) must not leak into a later array.  The answer
    #      does not come from another run of the library but from the input itself (fuse then unfuse_all = the original)
    import numpy as np
    import gen as _gen
    import symmray as _sr
    dt_stats = {'sequences': 0, 'calls': 0}
    for k in range(40 if ctx.thorough else 10):
        sym = ['Z2', 'U1', 'Z2Z2', 'U1U1'][k % 4]
        try:
            base = _gen.rand_array(rng, _sr, sym, ndim=rng.randint(2, 3), maxsize=2, keep=rng.choice([1.0, 0.7]), static=False)
            if not base.blocks:
                continue
            g = tuple(rng.sample(range(base.ndim), 2))
            twins = []
            for dt in ('float64', 'complex128', 'float32', 'complex64'):
                blocks = {}
                for sct, b in base.blocks.items():
                    b = np.asarray(b).real.astype('float64')
                    blocks[sct] = (b + 1j * (b[::-1] + 1)).astype(dt) if dt.startswith('complex') else b.astype(dt)
                twins.append((dt, base.copy_with(blocks=blocks)))
            rng.shuffle(twins)
            dt_stats['sequences'] += 1
            for dt, x in twins:
                ctx.count(); dt_stats['calls'] += 1
                y = x.fuse(g)
                z = y.unfuse_all()
                perm = [a for a in range(x.ndim) if a not in g]
                pos = min(g)
                perm = perm[:pos] + list(g) + perm[pos:]
                xt = x.transpose(tuple(perm))
                err = None
                for sct, b in xt.blocks.items():
                    zb = z.blocks.get(sct)
                    if zb is None or str(np.asarray(zb).dtype) != dt or not np.array_equal(np.asarray(zb), np.asarray(b)):
                        err = 'block %r comes back as %s %s' % (sct, None if zb is None else np.asarray(zb).dtype, None if zb is None else np.asarray(zb).tolist())
                        break
                if err is None and any(str(np.asarray(b).dtype) != dt for b in y.blocks.values()):
                    err = 'fused blocks have element types %r' % sorted({str(np.asarray(b).dtype) for b in y.blocks.values()})
                if err:
                    found.append(('fuse of a %s array after arrays of other element types in the same process: %s' % (dt, err),
                                  {'oracle': 'dtype_history', 'symmetry': sym, 'order': [d for d, _ in twins], 'group': list(g), 'failing_dtype': dt,
                                   'indices': [snap_index(ix) for ix in x.indices], 'charge': x.charge, 'sectors': [list(sc) for sc in x.blocks]}))
                    break
            ctx.nontrivial(('dtype-history', sym, str(sorted(base.blocks)), str(g), str([d for d, _ in twins])))
        except Exception as e:
            ctx.note('dtype-history stream: %s: %s' % (type(e).__name__, e))
    ctx.extra['dtype_history'] = dt_stats

    # ---- tie: real cache trace vs Model.Cache.runk (generated policy)
    exprs, meta, branches = lru_cases(ctx, ac, rng, 400 if ctx.thorough else 120)
    branches.update({'hits_in_histories': stats['hits'], 'misses_in_histories': stats['misses'],
                     'oversize_bypass_in_histories': stats['bypass']})
    bad = common.run_cases(ctx, 'lru', IMPORTS, LRU_PREAMBLE, exprs)
    if bad is None:
        tie_broken.append('cases.v (LRU trace vs Model.Cache.runk) did not evaluate')
    elif bad:
        tie_broken += ['Model.Cache.runk disagrees with the real cache trace: %s' % json.dumps(meta[i]) for i in bad[:3]]

    # ---- the context manager: oracle + tie with the generated term
    mexprs, mmeta, mbad, mcov = mode_cases(ctx, ac, rng, 240 if ctx.thorough else 80)
    branches.update(mcov)
    for f in mbad[:2]:
        found.append(('default_tensordot_mode is not undone on exit / after an error', f))
    bad = common.run_cases(ctx, 'mode', IMPORTS, LRU_PREAMBLE, mexprs)
    if bad is None:
        tie_broken.append('cases.v (context manager vs generated term) did not evaluate')
    elif bad and not mbad:
        tie_broken += ['Gen.ModeCtx term disagrees with the implementation on %s' % json.dumps(mmeta[i]) for i in bad[:3]]

    # ---- what `mode=None` means follows the default that is in force at the call (setter, context manager, exit through an
    #      error), whatever earlier calls resolved: the result is the one of the explicit mode (fused stores extra zero blocks
    #      when the operands' stored sectors differ, so the two routes are distinguishable)
    try:
        import symmray as _sr2
        old_default = ac.get_default_tensordot_mode()
        import gen as _gen2
        axes_ = ((2, 3), (0, 1))
        import random as _random
        mrng = _random.Random(1000003 * ctx.seed + 17)      # own stream: the main one is not disturbed
        for _try in range(400):
            cms_ = [_gen2.rand_chargemap(mrng, 'U1', maxsize=1) for _ in range(4)]
            dus_ = [mrng.random() < 0.5 for _ in range(4)]
            ta = _gen2.rand_array(mrng, _sr2, 'U1', chargemaps=cms_, duals=dus_, keep=0.5, static=False)
            tb = _gen2.rand_array(mrng, _sr2, 'U1', chargemaps=[cms_[2], cms_[3], cms_[0], cms_[1]], duals=[not dus_[2], not dus_[3], dus_[0], dus_[1]],
                                  keep=0.5, static=False)
            if not ta.blocks or not tb.blocks:
                continue
            explicit = {m_: snapj(_sr2.tensordot(ta, tb, axes=axes_, mode=m_, preserve_array=True)) for m_ in ('fused', 'blockwise')}
            if explicit['fused'] != explicit['blockwise']:
                break
        trail = []

        def at(default_now, label):
            ctx.count()
            got = snapj(_sr2.tensordot(ta, tb, axes=axes_, mode=None, preserve_array=True))
            want = explicit['fused' if default_now in ('fused', 'auto') else 'blockwise']
            trail.append(label)
            if got != want:
                found.append(('tensordot(mode=None) does not follow the default mode in force (%s)' % default_now,
                              {'oracle': 'mode_none_history', 'history': list(trail), 'default_in_force': default_now,
                               'distinguishable': explicit['fused'] != explicit['blockwise']}))
        ac.set_default_tensordot_mode('blockwise'); at('blockwise', 'set blockwise')
        with ac.default_tensordot_mode('fused'):
            at('fused', 'with fused')
        at('blockwise', 'after with')
        try:
            with ac.default_tensordot_mode('fused'):
                at('fused', 'with fused (raising body)')
                raise ZeroDivisionError
        except ZeroDivisionError:
            pass
        at('blockwise', 'after raising with')
        ac.set_default_tensordot_mode('fused'); at('fused', 'set fused')
        ac.set_default_tensordot_mode(old_default)
        ctx.extra['mode_none_distinguishable'] = explicit['fused'] != explicit['blockwise']
    except Exception as e:
        ctx.note('mode=None stream: %s: %s' % (type(e).__name__, e))
        try:
            ac.set_default_tensordot_mode(old_default)
        except Exception:
            pass
    # ---- the same operand objects contracted again and again (own stream; seeded C15_A5)
    try:
        import random as _random2
        rrng = _random2.Random(7919 * ctx.seed + 5)
        nrep, nskip = (400 if ctx.thorough else 80), 0
        for _ in range(nrep):
            sd = rrng.randrange(10 ** 6)
            try:
                rr = repeat_one(sd)
            except Exception:
                nskip += 1
                continue
            ctx.count()
            if rr:
                found.append(('contracting the same two arrays a second time returns a different result (call history observable)', rr))
                break
        ctx.extra['repeat_same_objects'] = {'cases': nrep - nskip, 'rejected_by_library': nskip}
    except Exception as e:
        ctx.note('repeat stream: %s: %s' % (type(e).__name__, e))
    # ---- two threads inside the fuse-info computation at once (one parked mid-way, cache disabled)
    try:
        ctx.count(3)
        fi = forced_info_interleaving(ac, rng)
        ctx.extra['forced_info_interleaving'] = 'ran'
        if fi:
            found.append(('concurrent out-of-place fuse calls do not return what sequential calls return (one thread parked inside the fuse-info computation)', fi))
    except Exception as e:
        ctx.note('forced info interleaving: %s: %s' % (type(e).__name__, e))
    # ---- threads: the Coq witness schedule imposed on the real code
    f9 = forced_f9(ac)
    ctx.extra['forced_schedule'] = f9
    ctx.count(3)
    real_raises = any(o.startswith('KeyError') for o in f9['outcome'])
    wrong_vals = any(o == 'wrong-value' for o in f9['outcome'])
    if wrong_vals:
        found.append(('a concurrent call returned a wrong value', {'oracle': 'forced_schedule', **f9}))
    if real_raises:
        rep = {'oracle': 'forced_schedule', 'key': F9_KEY, 'maxsize': 1, 'threads': 3,
               'setup': 'abelian_core._fuseinfo_cache_maxsize = 1; abelian_core._fuseinfos = OrderedDict subclass (gated, operations unchanged) '
                        'holding one other entry; three threads call x.fuse((0, 1)) on the same Z2 array',
               'theorem': 'C15_concurrent_no_exception_refuted (witness Proofs.CacheProofs.f9_schedule)', **f9}
        kf = f9_known()
        if kf is not None and not tolerant:
            ctx.known.append('KNOWN-FINDING: property=C15 %s: cache eviction race, KeyError out of fuse() under schedule %s'
                             % (F9_KEY, f9['schedule']))
        else:
            found.append(('concurrent out-of-place fuse() raises KeyError("dictionary is empty") from the cache eviction '
                          '(threads >= maxsize + 2 missing the same key)', rep))
        if tolerant:
            tie_broken.append('generated eviction_tolerant = true but the forced schedule still raises')
    else:
        if not tolerant:
            tie_broken.append('generated eviction_tolerant = false but the forced schedule of the Coq witness does not raise '
                              '(complete=%s, dict ops=%s)' % (f9['complete'], f9['dict_ops']))
        elif not f9['complete'] or set(f9['outcome']) != {'ok'}:
            tie_broken.append('forced schedule did not complete on the repaired code: %s' % f9['outcome'])
    # random imposed schedules vs Model.Cache.run_sched
    sexprs, smeta, swrong, sraises = schedule_cases(ctx, ac, rng, 150 if ctx.thorough else 24, tolerant)
    branches['imposed_schedules'] = len(sexprs)
    branches['imposed_schedule_raises'] = sraises
    for f in swrong[:2]:
        found.append(('a concurrent call returned a wrong value', f))
    bad = common.run_cases(ctx, 'threads', IMPORTS, LRU_PREAMBLE, sexprs)
    if bad is None:
        tie_broken.append('cases.v (imposed schedules vs Model.Cache.run_sched) did not evaluate')
    elif bad:
        tie_broken += ['Model.Cache.run_sched disagrees with the real code under an imposed schedule: %s' % json.dumps(smeta[i])
                       for i in bad[:3]]

    # ---- environment variables in fresh processes
    rows, ebad = env_runs(ctx)
    ctx.extra['env_runs'] = rows
    for f in ebad[:2]:
        found.append(('cache settings from the environment change answers / are parsed wrongly', f))

    # ---- thorough: free-running threads; independent re-check of the compiled proofs
    if ctx.thorough:
        with common.Lock():
            rc, out = common.sh('coqchk -silent -o -Q . SV SV.Props.C15', timeout=1500, cwd=common.COQ)
        axioms = re.search(r'\* Axioms:\s*(.*?)\n\s*\n', out, flags=re.S)
        ctx.extra['coqchk'] = {'rc': rc, 'axioms': axioms.group(1).strip() if axioms else '?'}
        if ok and (rc != 0 or not axioms or axioms.group(1).strip() != '<none>'):
            tie_broken.append('coqchk on Props/C15.vo: rc=%s axioms=%s' % (rc, ctx.extra['coqchk']['axioms']))
        tbad, nf9, ncalls = free_threads(ctx, ac, rng)
        ctx.extra['free_threads'] = {'calls': ncalls, 'spontaneous_eviction_race': nf9, 'value_mismatches': len(tbad)}
        for f in tbad[:2]:
            found.append(('threads on shared arrays return something else than sequential calls', f))

    ctx.extra['branches'] = branches
    missing = [k for k in ('hit', 'miss', 'eviction', 'bypass_oversize', 'bypass_disabled', 'exception_inside', 'nested')
               if not branches.get(k)]
    if missing:
        ctx.extra['generator_gap'] = missing
    for what, rep in found[:5]:
        ctx.violation(what, rep)
    ctx.broken += tie_broken
    if (not ok or tie_broken) and not found:
        ctx.violation('proof obligation or tie of C15 no longer checks', {'broken': ctx.broken}, found_input=False)
    ctx.coverage['rule'] = (
        'histories: per family of near-identical arrays (one dualness / block size / charge label / missing sector / total charge / '
        'symmetry / sub-index structure / sub-indices with equal extents / derived by conj and copy_with after warm-up), every operation '
        '(fuse groupings, fuse+unfuse, fused tensordot, reshape) x every order of the members (n<=4, else 24-30 orders) + every ordered '
        'pair of operations on one array + random mixed histories, each under cache sizes 1, 2, default (and random size/maxsectors), '
        'compared call by call with the cache-disabled answer on fresh arrays; a history is non-trivial when it contains >= 2 different '
        'requests; plus LRU traces, context-manager scenarios (depth 0-3 x raises x inner set), imposed thread schedules, env-var '
        'subprocesses; distinct by full input')
    ctx.note('hasher = sha1 o pickle is assumed collision free (Section oracle H_inj); functools.lru_cache (C implementation) is assumed '
             'thread safe and keyed by its arguments; threads are modelled at the granularity of atomic OrderedDict operations')


# ---------------------------------------------------------------- replay
def replay(path):
    import symmray  # noqa: F401
    from symmray import abelian_core as ac
    r = json.load(open(path))
    o = r.get('oracle')
    if o == 'history':
        members, ops = r['members'], r['ops']
        seq = [tuple(s) for s in r['sequence']]
        ref = reference(ac, members, ops)
        got = run_history(ac, members, ops, seq, r['maxsize'], r['maxsectors'])
        restore(ac)
        i, j = seq[-1]
        print('history (member, op):', seq, 'maxsize', r['maxsize'], 'maxsectors', r['maxsectors'])
        print('last call: member', i, 'op', ops[j])
        print('cache disabled :', ref[i, j][:1500])
        print('this history   :', got[-1][:1500])
        return 0 if got[-1] == ref[i, j] else 1
    if o == 'repeat':
        rr = repeat_one(r['seed'])
        print('seed', r['seed'], '->', 'results differ between identical calls' if rr else 'identical results')
        if rr:
            print('first :', rr['first']); print('second:', rr['second'])
        return 1 if rr else 0
    if o == 'forced_schedule':
        f9 = forced_f9(ac)
        print(json.dumps(f9, indent=1))
        return 1 if any(x != 'ok' for x in f9['outcome']) else 0
    if o == 'mode':
        seen, final, raised = run_mode(ac, r['start'], r['modes'], r['inner_set'], r['body_raises'])
        ac._DEFAULT_TENSORDOT_MODE = 'auto'
        print('seen inside:', seen, 'after:', final, 'raised:', raised, '| expected after:', r['expected_after'])
        return 0 if (final == r['expected_after'] and seen == r['expected_seen'] and raised == r['body_raises']) else 1
    print(json.dumps(r, indent=1)[:3000])
    return 0
