"""Independent reference arithmetic for the five built-in symmetries, written
from the mathematical definition (NOT imported from symmray), used by the
oracles that search the implementation for a failing input."""
import itertools

NAMES = ['Z2', 'Z4', 'U1', 'Z2Z2', 'U1U1']
IS_PAIR = {'Z2': False, 'Z4': False, 'U1': False, 'Z2Z2': True, 'U1U1': True}
MOD = {'Z2': 2, 'Z4': 4, 'U1': None, 'Z2Z2': 2, 'U1U1': None}


def _red(n, x):
    m = MOD[n]
    return x if m is None else x % m


def add(n, a, b):
    if IS_PAIR[n]:
        return (_red(n, a[0] + b[0]), _red(n, a[1] + b[1]))
    return _red(n, a + b)


def zero(n):
    return (0, 0) if IS_PAIR[n] else 0


def neg(n, a):
    if IS_PAIR[n]:
        return (_red(n, -a[0]), _red(n, -a[1]))
    return _red(n, -a)


def csum(n, cs):
    t = zero(n)
    for c in cs:
        t = add(n, t, c)
    return t


def par(n, a):
    if IS_PAIR[n]:
        return (a[0] + a[1]) % 2
    return a % 2


def signed(n, c, dual):
    return neg(n, c) if dual else c


def is_valid(n, c):
    if IS_PAIR[n]:
        if not (isinstance(c, tuple) and len(c) == 2 and all(isinstance(x, int) for x in c)):
            return False
        m = MOD[n]
        return True if m is None else all(0 <= x < m for x in c)
    if not isinstance(c, int) or isinstance(c, bool):
        return False
    m = MOD[n]
    return True if m is None else 0 <= c < m


def universe(n, box=6):
    """all charges of a finite group, or the box [-box, box] (squared for pairs)"""
    if n == 'Z2':
        return [0, 1]
    if n == 'Z4':
        return [0, 1, 2, 3]
    if n == 'U1':
        return list(range(-box, box + 1))
    if n == 'Z2Z2':
        return [(a, b) for a in (0, 1) for b in (0, 1)]
    return [(a, b) for a in range(-box, box + 1) for b in range(-box, box + 1)]


def valid_sectors(n, charges, duals, charge):
    """brute force: all tuples of available charges whose signed sum is `charge`"""
    out = []
    for s in itertools.product(*charges):
        if csum(n, [signed(n, c, d) for c, d in zip(s, duals)]) == charge:
            out.append(tuple(s))
    return out
