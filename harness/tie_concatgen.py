"""Run-time tie of Gen/ConcatGen.v (tr/gen_concat.py: the GENERATED `_fuse_blocks_via_concat`, its nested recursive
helper closure-converted into a Fixpoint on fuel) to the implementation it was generated from.

For every case (sym, x, groups) the working tree's `calc_fuse_block_info(x, groups)` is called directly (no cache in
front of it), then `abelian_core._fuse_blocks_via_concat` is called DIRECTLY on the implementation's own tables, and
its result (the dict of fused blocks in insertion order, every element of every block) is compared inside Coq
(vm_compute) with `gen_fuse_blocks_via_concat (num_groups + 1)` applied to the same tables.  So the translator itself
is tested on every run: a translator bug shows as a disagreement, never as a silently wrong theorem.

    tie(ctx, sr, cases) -> list of broken-tie strings      cases = [(sym, x, groups), ...]
"""
import os
import sys

sys.path.insert(0, os.path.dirname(os.path.abspath(__file__)))

import common  # noqa: E402
import gen  # noqa: E402
from tie_fusegen import gz, gzlist, gblockmap, gblocks  # noqa: E402

IMPORTS = ('From SV Require Import Base.Sym Base.Tensor Model.SymInst Model.Sectors Model.Array Gen.FuseGen Gen.ConcatGen.\n')
PREAMBLE = '''Definition concat_agrees (G : Symmetry) (R : Ring) (fuel : nat) (oix : list (index G)) (blks : list (list (C G) * tensor R))
    (ng : Z) (sing perm : list Z) (pos : Z) (bef aft : list Z) (nax : list (Z * Z)) (nix : list (index G))
    (bm : list (list (C G) * (list nat * list (C G) * list (list (C G))))) (y : list (list (C G) * tensor R)) : bool :=
  blocks_eqb_strict G R (gen_fuse_blocks_via_concat G R fuel oix blks ng sing perm pos bef aft nax nix bm) y.
'''


def tie(ctx, sr, cases, name='concatgen', shard=40, limit=None):
    import autoray as ar
    import symmray.abelian_core as ac
    broken, exprs, meta = [], [], []
    stats = {'concat_cases': 0, 'singlet_group': 0, 'multi_group': 0, 'nested': 0, 'merged_blocks': 0, 'kept_axes': 0,
             'with_filler': 0}
    if not os.path.exists(os.path.join(common.COQ, 'Gen', 'ConcatGen.vo')):
        ctx.extra['tie_concatgen'] = {'skipped': 'Gen/ConcatGen.vo is not built'}
        return ['Gen/ConcatGen.v (generated _fuse_blocks_via_concat) is not available: its run-time tie was not evaluated']
    if limit is None:
        limit = 300 if ctx.thorough else 120
    # sparse rank 4-5 arrays fused into several multi-axis groups first (leaves go missing there: zero fillers), from a
    # private random stream (all randomness derives from the seed of the run)
    try:
        import random
        import tie_concat
        hard = tie_concat.hard_cases(random.Random(int(getattr(ctx, 'seed', 0) or 0) * 7919 + 13), sr, 60 if ctx.thorough else 24)
    except Exception as e:
        hard = []
        broken.append('the sparse multi-group cases of the Gen.ConcatGen tie could not be generated: %s: %s' % (type(e).__name__, e))
    for sym, x, groups in list(hard) + list(cases):
        if len(exprs) >= limit:
            break
        groups = tuple(tuple(int(a) for a in g) for g in groups if len(g))
        if not groups or not x.blocks:
            continue
        what = 'symmetry %s, groups %s, stored sectors %s' % (sym, groups, list(x.blocks))
        try:
            (ng, sing, perm, pos, bef, aft, nax, nix, bm) = ac.calc_fuse_block_info(x, groups)
        except Exception as e:
            broken.append('calc_fuse_block_info raised %s: %s (%s)' % (type(e).__name__, e, what))
            continue
        try:
            ex = x.get_any_array()
            backend = ar.infer_backend(ex)
            nb = ac._fuse_blocks_via_concat(x.indices, x.blocks, ng, sing, perm, pos, bef, aft, nax, nix, bm, backend,
                                            ar.get_lib_fn(backend, 'transpose'), ar.get_lib_fn(backend, 'reshape'),
                                            ar.get_lib_fn(backend, 'zeros'), {'dtype': ex.dtype})
        except Exception as e:
            broken.append('_fuse_blocks_via_concat raised %s: %s where the generated function returns a value (%s)'
                          % (type(e).__name__, e, what))
            continue
        try:
            ring = gen.ring_of(x)
            A = '%s %s' % (sym, ring)
            OIX = '[' + '; '.join(gen.gindex(ix, sym) for ix in x.indices) + ']'
            NIX = '[' + '; '.join(gen.gindex(ix, sym) for ix in nix) + ']'
            NAX = '[' + '; '.join('(%s, %s)' % (gz(k), gz(v)) for k, v in nax.items()) + ']'
            exprs.append('concat_agrees %s %d %s %s %s %s %s %s %s %s %s %s %s %s' % (
                A, int(ng) + 1, OIX, gblocks(x.blocks, ring), gz(ng), gzlist(sing), gzlist(perm), gz(pos), gzlist(bef),
                gzlist(aft), NAX, NIX, gblockmap(bm), gblocks(nb, ring)))
            meta.append(what)
        except Exception as e:
            broken.append('the tables / result of _fuse_blocks_via_concat cannot be serialised (%s): %s: %s' % (what, type(e).__name__, e))
            continue
        stats['concat_cases'] += 1
        stats['singlet_group'] += any(len(g) == 1 for g in groups)
        stats['multi_group'] += len(groups) > 1
        stats['nested'] += any(ix.subinfo is not None for ix in x.indices)
        stats['kept_axes'] += sum(len(g) for g in groups) < x.ndim
        stats['merged_blocks'] += len(nb) < len(x.blocks)
        try:
            vol = lambda b: int(b.size)
            stats['with_filler'] += sum(vol(b) for b in nb.values()) > sum(vol(b) for b in x.blocks.values())
        except Exception:
            pass
    ctx.count(len(exprs))
    bad = common.run_cases(ctx, name, IMPORTS, PREAMBLE, exprs, shard=shard)
    if bad is None:
        broken.append('cases.v (Gen.ConcatGen vs _fuse_blocks_via_concat) did not evaluate')
    else:
        broken += ['Gen.ConcatGen: the generated _fuse_blocks_via_concat disagrees with the implementation (%s)' % meta[i] for i in bad[:10]]
        stats['disagreements'] = len(bad)
        if bad:
            ctx.extra['concatgen_disagreeing_cases'] = [exprs[i][:3000] for i in bad[:2]]
    ctx.extra['tie_concatgen'] = stats
    return broken


def main(argv):
    n = int(argv[1]) if len(argv) > 1 else 150
    seed = int(argv[2]) if len(argv) > 2 else 0
    os.environ.setdefault('PYTHONHASHSEED', '0')
    sys.path.insert(0, common.REPO)
    import symmray as sr
    import tie_concat
    ctx = common.Ctx('C05', 'quick', seed)
    ctx.rng.seed(seed * 7919 + 13)
    cases = tie_concat.make_cases(ctx.rng, sr, n - n // 4) + tie_concat.hard_cases(ctx.rng, sr, n // 4)
    broken = tie(ctx, sr, cases, name='concatgen_selftest', limit=n)
    print('tie_concatgen self-test: implementation %s' % os.path.dirname(sr.__file__))
    print('stats: %s' % ctx.extra.get('tie_concatgen'))
    for b in broken:
        print('BROKEN-TIE: ' + b)
    for e in ctx.extra.get('cases_errors', []):
        print('CASES-ERROR: ' + e)
    return 1 if broken else 0


if __name__ == '__main__':
    sys.exit(main(sys.argv))
