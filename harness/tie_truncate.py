"""Tie of Model/Truncate.v (`a_svd_truncated x counts mode` = `a_svd` of Model/Linalg.v, then
`truncate_factors` — slice `U[:, :n]`, `s[:n]`, `VH[:n, :]`, drop the sectors with n = 0, rebuild
the bond tables of U and VH from the counts, sorted — then `absorb`) to `symmray.linalg.svd_truncated`.

The per-block LAPACK routine is a Section parameter of the model.  Here it is instantiated, on both
sides, by the SAME exact stand-in: `symmray.linalg.svd` is replaced from the harness by the stub of
harness/c13.py (structure from the real svd, block factors = chosen signed / unit-phase partial
permutations and integer singular values), and the model gets the finite table
`block |-> (u, s, vh)` of exactly these factors (`tbl_svd`, defined in the cases preamble; equal
blocks are given equal factors, so the table is a function).  `sqrt` on the kept values is exact
when they are perfect squares: then `absorb="both"` is compared with `sqrt_stub`; otherwise (and
for complex data) that mode is compared in structure only (all data scaled by zero on both sides).

Compared, for absorb in {None, -1, 0, 1} (and the string spellings): the FULL factors U', s', VH' —
stored sectors in insertion order, both index tables of both factors (the rebuilt bond tables
included, in order), directions, charges, block data; for fermionic inputs also the pending-sign
tables and labels (the fermionic composition `f_svd` + `truncate_factors` + `absorb` on the raw
blocks is spelled in the cases preamble; svd_truncated touches neither signs nor labels).
`counts` are what the implementation kept (lengths of the returned `s` blocks, in the order of
`U.sectors`); for cutoff > 0 they are also compared with Model/Trunc.v's `sub_max_bonds`.

    tie(ctx, sr) -> list of broken-tie strings
    tie_truncate.found -> after tie(): concrete failing inputs (dicts for ctx.violation) rejected by an
        implementation-only oracle (c13.observe on the absorb=None result: bond tables of U and VH
        equal and matching the blocks, kept part = leading n columns / values / rows; for the absorb
        modes: no values returned, same bond tables, U'.VH' = U s VH on the kept part)

    python harness/tie_truncate.py [n_matrices] [seed]     standalone self-test (exit 1 on any disagreement)
"""
import math
import os
import sys
from fractions import Fraction

sys.path.insert(0, os.path.dirname(os.path.abspath(__file__)))
import numpy as np  # noqa: E402

import common  # noqa: E402
import gen  # noqa: E402
import c13  # noqa: E402  (helpers only: gen_case, build, call_trunc, observe, gen_cutoffs, gen_max_bonds, g_secs)

IMPORTS = ('From SV Require Import Base.Prelude Base.Sym Base.Tensor Gen.PhasePerm Model.SymInst Model.Sectors Model.Array Model.Arith '
           'Model.Fermi Model.Linalg Model.Truncate.\nFrom SV Require Model.Trunc.\n')
PREAMBLE = '''
(* the stub oracle: finite table block |-> (u, s, vh); unknown block: shape-only stand-in *)
Definition tbl_svd (R : Ring) (tbl : list (tensor R * (tensor R * tensor R * tensor R))) (m : tensor R)
  : tensor R * tensor R * tensor R :=
  match find (fun p => tensor_eqb R m (fst p)) tbl with Some p => snd p | None => svd_stub R m end.

Definition arr_same (G : Symmetry) (R : Ring) (zero : bool) (m y : aarray G R) : bool :=
  let m' := if zero then a_scale G R m (r0 R) else m in
  aarray_eqb G R m' y && blocks_eqb_strict G R (blocks G R m') (blocks G R y).
Definition vec_same (G : Symmetry) (R : Ring) (a b : option (bvec G R)) : bool :=
  match a, b with
  | Some x, Some y => list_eqb (pair_eqb (ceqb G) (tensor_eqb R)) x y
  | None, None => true
  | _, _ => false
  end.
Definition trunc_agrees (G : Symmetry) (R : Ring) (zero : bool)
    (m : option (aarray G R * option (bvec G R) * aarray G R))
    (u : aarray G R) (s : option (bvec G R)) (vh : aarray G R) : bool :=
  match m with
  | Some (mu, ms, mvh) => arr_same G R zero mu u && vec_same G R ms s && arr_same G R zero mvh vh
  | None => false
  end.

(* FermionicArray: svd_fermionic, then the same loop on the raw blocks; signs and labels untouched *)
Definition f_svd_truncated (G : Symmetry) (R : Ring) (svd_blk : tensor R -> tensor R * tensor R * tensor R)
    (sqrt_blk : tensor R -> tensor R) (x : farray G R) (counts : list nat) (mode : option absorb_mode)
  : option (farray G R * option (bvec G R) * farray G R) :=
  match f_svd G R svd_blk x with
  | None => None
  | Some (u, s, vh) =>
      match truncate_factors G R (fbase G R u) s (fbase G R vh) counts with
      | None => None
      | Some (u1, s1, vh1) =>
          match mode with
          | None => Some (with_base G R u u1, Some s1, with_base G R vh vh1)
          | Some md => match absorb G R sqrt_blk md u1 s1 vh1 with
                       | Some (u2, vh2) => Some (with_base G R u u2, None, with_base G R vh vh2)
                       | None => None
                       end
          end
      end
  end.
Definition farr_same (G : Symmetry) (R : Ring) (zero : bool) (m y : farray G R) : bool :=
  arr_same G R zero (fbase G R m) (fbase G R y) && farray_eqb_strict G R (with_base G R m (fbase G R y)) y.
Definition ftrunc_agrees (G : Symmetry) (R : Ring) (zero : bool)
    (m : option (farray G R * option (bvec G R) * farray G R))
    (u : farray G R) (s : option (bvec G R)) (vh : farray G R) : bool :=
  match m with
  | Some (mu, ms, mvh) => farr_same G R zero mu u && vec_same G R ms s && farr_same G R zero mvh vh
  | None => false
  end.
Definition counts_agree (mz p q mb : Z) (secs : list Trunc.sector) (counts : list nat) : bool :=
  match Trunc.cmode_of_Z mz with
  | Some m => match Trunc.sub_max_bonds Trunc.thr_cut m p q mb secs with
              | Some l => list_eqb Nat.eqb l counts
              | None => false
              end
  | None => false
  end.
'''
MODES = {None: 'None', -1: '(Some AbsLeft)', 0: '(Some AbsBoth)', 1: '(Some AbsRight)',
         'left': '(Some AbsLeft)', 'both': '(Some AbsBoth)', 'right': '(Some AbsRight)'}

found = []


# ------------------------------------------------------------------ inputs
def unit_phases(rng, m, cplx, rows):
    """multiply the columns (rows) of a signed partial permutation by units of Z[i]"""
    m = np.array(m, dtype='complex128' if cplx else 'float64')
    if cplx:
        k = m.shape[0] if rows else m.shape[1]
        ph = np.array([rng.choice([1, -1, 1j, -1j]) for _ in range(k)])
        m = m * (ph.reshape(-1, 1) if rows else ph.reshape(1, -1))
    return m


def make_matrix(rng, sr, sym, fermionic, style, cplx):
    """-> (case, x, table): c13's exact-factor matrix, unscaled (integer data), equal blocks given equal factors"""
    case = c13.gen_case(rng, sym=sym, fermionic=fermionic, style=style)
    case['scale_exp'] = 0
    seen = {}
    for s in case['sectors']:
        u = unit_phases(rng, s['u'], cplx, False).reshape(len(s['u']), len(s['s']))
        v = unit_phases(rng, s['v'], cplx, True).reshape(len(s['s']), -1)
        blk = (u * np.array(s['s'], dtype=float).reshape(1, -1)) @ v
        key = (blk.shape, blk.astype('complex128').tobytes())
        if key in seen:                    # the stub oracle must be a function of the block
            u, s['s'], v = seen[key]
        else:
            seen[key] = (u, list(s['s']), v)
        s['u'], s['v'] = u, v
    x, table = build(sr, case, cplx)
    return case, x, table


def build(sr, case, cplx):
    table, blocks = {}, {}
    for s in case['sectors']:
        u, v = np.asarray(s['u']), np.asarray(s['v'])
        sv = np.array(s['s'], dtype=float)
        table[(s['c0'], s['c1'])] = (u, sv, v)
        blocks[(s['c0'], s['c1'])] = (u * sv.reshape(1, -1)) @ v
    ixs = (sr.BlockIndex(dict(case['ch0']), dual=case['duals'][0]), sr.BlockIndex(dict(case['ch1']), dual=case['duals'][1]))
    cls = sr.FermionicArray if case['fermionic'] else sr.AbelianArray
    kw = {'oddpos': 7} if case['fermionic'] else {}
    return cls(indices=ixs, charge=case['charge'], blocks=blocks, symmetry=case['symmetry'], **kw), table


def add_pending_signs(rng, sr, x):
    """lazy signs on a fermionic input; the raw blocks (which the factor table describes) must stay as they are"""
    for _ in range(4):
        y = gen.rand_lazy(rng, sr, x, steps=rng.randint(1, 3))
        if any(p == -1 for p in y.phases.values()):
            break
    if list(y.blocks) == list(x.blocks) and all(np.array_equal(y.blocks[k], x.blocks[k]) for k in x.blocks) \
            and [(list(i.chargemap.items()), i.dual) for i in y.indices] == [(list(i.chargemap.items()), i.dual) for i in x.indices]:
        return y
    return x


def gmat(a, ring):
    return gen.gtensor(np.asarray(a), ring)


def g_table(table, ring):
    rows = []
    for (u, sv, v) in table.values():
        blk = (u * sv.reshape(1, -1)) @ v
        rows.append('(%s, (%s, %s, %s))' % (gmat(blk, ring), gmat(u, ring), gmat(sv, ring), gmat(v, ring)))
    return '[' + '; '.join(rows) + ']'


def gvec(v, ring, zero=False):
    return '[' + '; '.join('(%s, %s)' % (gen.gch(c), gen.gtensor(np.asarray(b) * (0 if zero else 1), ring)) for c, b in v.blocks.items()) + ']'


def garr(a, sym, ring, zero=False):
    if zero:
        a = a.copy()
        for k in list(a.blocks):
            a.blocks[k] = np.asarray(a.blocks[k]) * 0
    return gen.gfarray(a, sym, ring) if hasattr(a, 'phases') else gen.garray(a, sym, ring)


def ch_json(c):
    return list(c) if isinstance(c, tuple) else c


def describe_case(case):
    def mat(m):
        m = np.asarray(m)
        return m.tolist() if not np.iscomplexobj(m) else [[[v.real, v.imag] for v in row] for row in m]
    return {'symmetry': case['symmetry'], 'fermionic': case['fermionic'], 'duals': case['duals'], 'charge': ch_json(case['charge']),
            'ch0': [[ch_json(c), d] for c, d in case['ch0']], 'ch1': [[ch_json(c), d] for c, d in case['ch1']],
            'sectors': [{'c0': ch_json(s['c0']), 'c1': ch_json(s['c1']), 'u': mat(s['u']), 's': list(s['s']), 'v': mat(s['v'])}
                        for s in case['sectors']]}


# ------------------------------------------------------------------ oracle (implementation only)
def oracle_absorbed(table, counts, cm, ab, res):
    U2, s2, V2 = res
    if s2 is not None:
        return 'absorb=%r returns singular values' % (ab,)
    if list(U2.indices[1].chargemap.items()) != cm or list(V2.indices[0].chargemap.items()) != cm:
        return 'absorb=%r: bond tables %r / %r differ from those of absorb=None %r' % (
            ab, list(U2.indices[1].chargemap.items()), list(V2.indices[0].chargemap.items()), cm)
    kept = {k for k, n in counts.items() if n}
    if set(U2.blocks) != kept or set(V2.blocks) != {(c1, c1) for (_, c1) in kept}:
        return 'absorb=%r: stored sectors differ from those of absorb=None' % (ab,)
    for (c0, c1) in kept:
        n = counts[(c0, c1)]
        u0, s0, v0 = table[(c0, c1)]
        want = (u0[:, :n] * s0[:n].reshape(1, -1)) @ v0[:n, :]
        ub, vb = np.asarray(U2.blocks[(c0, c1)]), np.asarray(V2.blocks[(c1, c1)])
        if ub.shape != (u0.shape[0], n) or vb.shape != (n, v0.shape[1]):
            return 'absorb=%r: block shapes %r, %r of sector %r do not match %d kept values' % (ab, ub.shape, vb.shape, (c0, c1), n)
        if not np.allclose(ub @ vb, want, rtol=1e-12, atol=1e-12):
            return 'absorb=%r: U.VH of sector %r is not U s VH of the kept values' % (ab, (c0, c1))
    return None


# ------------------------------------------------------------------ the tie
def tie(ctx, sr, n=None, name='truncate', shard=40, stats=None):
    rng = ctx.rng
    del found[:]
    if n is None:
        n = 160 if ctx.thorough else 36
    stats = stats if stats is not None else {}
    for k in ('matrices', 'configs', 'cases', 'fermionic', 'pending_signs', 'complex', 'real_truncation', 'sector_removed', 'nothing_kept',
              'both_exact', 'both_structure_only', 'no_cutoff_branch', 'raises', 'counts_vs_Trunc'):
        stats.setdefault(k, 0)
    exprs, meta, broken = [], [], []
    nfound = 0
    for k in range(n):
        sym = ['Z2', 'U1', 'Z4', 'Z2Z2', 'U1U1'][k % 5]
        ferm = (k // 5) % 2 == 1
        cplx = rng.random() < 0.2
        style = rng.choice(['squares', 'squares', 'squares', 'small', 'small', 'ties', 'wide', 'const'])
        case, x, table = make_matrix(rng, sr, sym, ferm, style, cplx)
        if ferm and rng.random() < 0.75:
            x = add_pending_signs(rng, sr, x)
        ring = 'GRing' if cplx else 'ZRing'
        A = '%s %s' % (sym, ring)
        stats['matrices'] += 1
        stats['fermionic'] += ferm
        stats['complex'] += cplx
        stats['pending_signs'] += bool(getattr(x, 'phases', None))
        try:
            X = garr(x, sym, ring)
            TBL = g_table(table, ring)
        except Exception as e:      # noqa: BLE001
            broken.append('input of svd_truncated cannot be serialised: %s' % e)
            continue
        vals = [v for s in case['sectors'] for v in s['s']]
        configs = []
        for mode in rng.sample([1, 2, 3, 4, 5, 6], 3):
            cuts = c13.gen_cutoffs(rng, case, mode, 6)
            inner = cuts[len(cuts) // 3:max(len(cuts) // 3 + 1, len(cuts) - 3)]   # the first keep everything, the last nothing
            configs.append((mode, rng.choice(inner if rng.random() < 0.8 else cuts), rng.choice([-1, -1, -1] + c13.gen_max_bonds(rng, case, 3))))
        configs.append((rng.choice((1, 4)), Fraction(rng.choice((0, -1))), rng.choice([-1] + list(range(1, len(vals) + 2)))))
        for (mode, cut, mb) in configs:
            kw = dict(cutoff=c13.py_cutoff(case, mode, cut) if cut > 0 else float(cut), cutoff_mode=mode, max_bond=mb)
            rep = {'op': 'svd_truncated', 'matrix': describe_case(case), 'cutoff_mode': mode, 'cutoff': str(cut), 'cutoff_float': kw['cutoff'],
                   'max_bond': mb, 'pending_signs': [[ch_json(c) for c in s] for s, p in getattr(x, 'phases', {}).items() if p == -1],
                   'call': 'symmray.linalg.svd_truncated(x, cutoff=cutoff_float, cutoff_mode=cutoff_mode, max_bond=max_bond, absorb=absorb) '
                           'with symmray.linalg.svd replaced by the stub returning the listed factors'}
            stats['configs'] += 1
            res0, err = c13.call_trunc(sr, x, table, absorb=None, **kw)
            if res0 is None:
                stats['raises'] += 1
                broken.append('svd_truncated raised %s where Model.Truncate.a_svd_truncated returns a value (%s, mode %d, cutoff %s, max_bond %d)' % (
                    err, sym, mode, cut, mb))
                if nfound < 5:
                    found.append(dict(rep, absorb=None, raised=err)); nfound += 1
                continue
            ob = c13.observe(case, table, res0)
            if isinstance(ob, str):
                found.append(dict(rep, absorb=None, error=ob))
                # counts for the model: whatever the returned values say
                s0 = res0[1]
                counts = {(s['c0'], s['c1']): (int(np.shape(s0.blocks[s['c1']])[0]) if s['c1'] in s0.blocks else 0) for s in case['sectors']}
                cm = list(res0[0].indices[1].chargemap.items())
            else:
                counts, cm = ob['counts'], ob['chargemap']
            clist = [counts[(s['c0'], s['c1'])] for s in case['sectors']]
            C = gen.gnatlist(clist)
            kept = [v for s in case['sectors'] for v in s['s'][:counts[(s['c0'], s['c1'])]]]
            squares = all(math.isqrt(int(v)) ** 2 == int(v) for v in kept)
            stats['real_truncation'] += any(clist) and any(c < len(s['s']) for c, s in zip(clist, case['sectors']))
            stats['sector_removed'] += any(c == 0 for c in clist) and any(clist)
            stats['nothing_kept'] += not any(clist)
            stats['no_cutoff_branch'] += cut <= 0
            if any(clist) and any(c < len(s['s']) for c, s in zip(clist, case['sectors'])) and len(clist) >= 2:
                ctx.nontrivial(('truncate', sym, ferm, str(case['sectors'] and [(s['c0'], s['c1'], s['s']) for s in case['sectors']]), mode, str(cut), mb))
            absorbs = [None, -1, 0, 1]
            if rng.random() < 0.25:
                absorbs.append(rng.choice(['left', 'both', 'right']))
            for ab in absorbs:
                if ab is None:
                    res = res0
                else:
                    res, err = c13.call_trunc(sr, x, table, absorb=ab, **kw)
                    if res is None:
                        stats['raises'] += 1
                        broken.append('svd_truncated(absorb=%r) raised %s where the model returns a value' % (ab, err))
                        found.append(dict(rep, absorb=ab, raised=err))
                        continue
                    try:
                        bad = oracle_absorbed(table, counts, cm, ab, res)
                    except Exception as e:      # noqa: BLE001
                        bad = 'result unusable: %s: %s' % (type(e).__name__, e)
                    if bad:
                        found.append(dict(rep, absorb=ab, error=bad))
                both = ab in (0, 'both')
                zero = both and (ring == 'GRing' or not squares)
                if both:
                    stats['both_structure_only' if zero else 'both_exact'] += 1
                sq = 'sqrt_stub' if (ring == 'ZRing') else '(fun t => t)'
                try:
                    U, s, VH = res
                    GU, GV = garr(U, sym, ring, zero), garr(VH, sym, ring, zero)
                    GS = 'None' if s is None else '(Some %s)' % gvec(s, ring)
                except Exception as e:      # noqa: BLE001
                    broken.append('result of svd_truncated cannot be serialised: %s' % e)
                    continue
                fn, agree = ('f_svd_truncated', 'ftrunc_agrees') if ferm else ('a_svd_truncated', 'trunc_agrees')
                e = '%s %s %s (%s %s (tbl_svd %s %s) %s %s %s %s) %s %s %s' % (
                    agree, A, 'true' if zero else 'false', fn, A, ring, TBL, sq, X, C, MODES[ab], GU, GS, GV)
                if ab is None and cut > 0:
                    e += ' && counts_agree %s %s %s %s %s %s' % (common.gz(mode), common.gz(cut.numerator), common.gz(cut.denominator),
                                                                  common.gz(mb), c13.g_secs(case), C)
                    stats['counts_vs_Trunc'] += 1
                exprs.append(e)
                meta.append((sym, 'fermionic' if ferm else 'abelian', [(s['c0'], s['c1'], list(s['s'])) for s in case['sectors']],
                             mode, str(cut), mb, ab, clist))
                stats['cases'] += 1
    ctx.count(len(exprs))
    bad = common.run_cases(ctx, name, IMPORTS, PREAMBLE, exprs, shard=shard)
    if bad is None:
        broken.append('cases.v (Model.Truncate.a_svd_truncated vs svd_truncated) did not evaluate')
    else:
        broken += ['Model.Truncate.a_svd_truncated disagrees with svd_truncated (symmetry %s, %s, sectors (c0, c1, values) %r, cutoff_mode %d, '
                   'cutoff %s, max_bond %d, absorb %r, kept per sector %r)' % meta[i] for i in bad[:8]]
        if bad:
            ctx.extra['truncate_disagreeing_cases'] = [exprs[i][:4000] for i in bad[:2]]
    del found[5:]
    ctx.extra['tie_truncate'] = {'model_cases': len(exprs), 'disagreements': None if bad is None else len(bad),
                                 'oracle_failures': len(found), 'case_classes': {k: v for k, v in stats.items() if k != 'cases'}}
    return broken


def main(argv):
    n = int(argv[1]) if len(argv) > 1 else 40
    seed = int(argv[2]) if len(argv) > 2 else 0
    os.environ.setdefault('PYTHONHASHSEED', '0')
    sys.path.insert(0, common.REPO)
    import symmray as sr
    ctx = common.Ctx('C13', 'quick', seed)
    ctx.rng.seed(seed * 7919 + 13)
    stats = {}
    broken = tie(ctx, sr, n=n, name='truncate_selftest', stats=stats)
    print('tie_truncate self-test: implementation %s' % os.path.dirname(sr.__file__))
    print('cases: %d   classes: %s' % (stats.get('cases', 0), {k: v for k, v in sorted(stats.items()) if k != 'cases'}))
    for b in broken:
        print('BROKEN-TIE: ' + b)
    for f in found[:5]:
        print('FAILING-INPUT: %s mode %s cutoff %s max_bond %s absorb %r: %s' % (
            f['matrix']['symmetry'], f['cutoff_mode'], f['cutoff'], f['max_bond'], f.get('absorb'), f.get('error') or f.get('raised')))
    print('oracle failures: %d' % len(found))
    for e in ctx.extra.get('cases_errors', []):
        print('CASES-ERROR: ' + e)
    print('result: %s' % ('%d disagreement(s)' % len(broken) if broken else 'model and implementation agree on all cases'))
    return 1 if (broken or found) else 0


if __name__ == '__main__':
    sys.exit(main(sys.argv))
