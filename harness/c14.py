"""C14 — operations never modify their operands unless asked to.

proof phase  : Coq theorems of Props/C14.v (frame property of the heap script
               language, every operation script accepted, programs, the site
               policy evaluated on Gen/HeapSites.v regenerated from the source)
correspondence: alias graph of real calls (dict identities, buffer sharing by
               base array, key order, which operands changed) against the run
               of the operation's script (Model/HeapOps.v) in cases.v
oracle       : deep before/after snapshots of every operand for every public
               operation and every pair of operations on shared operands, and
               op(inplace=True) on an independent clone == op() value
"""
import itertools
import json
import warnings

import numpy as np

import common
import refsym

IMPORTS = 'From SV Require Import Model.Heap Model.HeapOps Model.HeapCheck.\n'

SYMS = ['Z2', 'U1', 'Z2Z2', 'U1U1']
SMALL = {'Z2': [0, 1], 'U1': [-1, 0, 1, 2], 'Z2Z2': [(0, 0), (0, 1), (1, 0), (1, 1)],
         'U1U1': [(0, 0), (1, -1), (0, 1), (1, 0)]}


# ====================================================================== snapshots
def is_vec(x):
    return type(x).__name__ == 'BlockVector'


def is_arr(x):
    return hasattr(x, '_blocks') and hasattr(x, '_indices')


def snap_index(ix):
    sub = ix._subinfo
    return (tuple(ix._chargemap.items()), bool(ix._dual),
            None if sub is None else (tuple(snap_index(i) for i in sub._indices),
                                      tuple((c, tuple(e.items())) for c, e in sub._extents.items())))


def snap(x):
    """deep, library independent snapshot of the observable state"""
    if is_vec(x):
        return {'kind': 'vec', 'blocks': [(k, np.array(v, copy=True)) for k, v in x._blocks.items()]}
    if not is_arr(x):
        if isinstance(x, np.ndarray):
            return {'kind': 'nd', 'blocks': [((), x.copy())]}
        return {'kind': 'other', 'blocks': [], 'value': repr(x)}
    d = {'kind': type(x).__name__,
         'indices': tuple(snap_index(ix) for ix in x._indices),
         'charge': x._charge,
         'blocks': [(k, np.array(v, copy=True)) for k, v in x._blocks.items()]}
    if hasattr(type(x), 'phases') or hasattr(x, '_phases'):
        d['phases'] = sorted(getattr(x, '_phases', {}).items(), key=repr)
        d['oddpos'] = tuple((getattr(o, 'label', o), getattr(o, 'dual', None)) for o in getattr(x, '_oddpos', ()))
    return d


def same_blocks(b1, b2):
    if len(b1) != len(b2):
        return False
    for (k1, v1), (k2, v2) in zip(b1, b2):
        if k1 != k2 or v1.shape != v2.shape or v1.dtype != v2.dtype or not np.array_equal(v1, v2, equal_nan=True):
            return False
    return True


def diff(s1, s2):
    """None when equal, else the name of the first component that differs"""
    if s1['kind'] != s2['kind']:
        return 'kind'
    for f in ('indices', 'charge', 'phases', 'oddpos', 'value'):
        if s1.get(f) != s2.get(f):
            return f
    if [k for k, _ in s1['blocks']] != [k for k, _ in s2['blocks']]:
        return 'block keys / order'
    if not same_blocks(s1['blocks'], s2['blocks']):
        return 'block contents'
    return None


def value_of(x):
    """observable value: tables, charge, labels, sector order, blocks with the pending signs applied"""
    s = snap(x)
    if 'phases' in s:
        ph = dict(s['phases'])
        s['blocks'] = [(k, -v if ph.get(k, 1) == -1 else v) for k, v in s['blocks']]
        s['phases'] = []
    return s


def clone(x):
    """independent deep copy, not using the library's copy()"""
    if not (is_arr(x) or is_vec(x)):
        return x
    new = object.__new__(type(x))
    for cls in type(x).__mro__:
        for slot in getattr(cls, '__slots__', ()):
            if hasattr(x, slot):
                v = getattr(x, slot)
                if slot == '_blocks':
                    v = {k: np.array(b, copy=True) for k, b in v.items()}
                elif slot == '_phases':
                    v = dict(v)
                object.__setattr__(new, slot, v)
    return new


def jsonable(s):
    out = {}
    for k, v in s.items():
        if k == 'blocks':
            out[k] = [[repr(key), np.asarray(b).tolist()] for key, b in v]
        else:
            out[k] = repr(v)
    return out


# ====================================================================== generation
def rand_index(rng, sr, sym, dual=None, charges=None, sizes=(1, 2)):
    if charges is None:
        pool = SMALL[sym]
        charges = rng.sample(pool, rng.randint(1, min(3, len(pool))))
    return sr.BlockIndex({c: rng.choice(sizes) for c in charges}, dual=rng.random() < 0.5 if dual is None else dual)


CPLX = [False]


def fill(rng, shape):
    n = int(np.prod(shape))
    if CPLX[0]:     # Gaussian integers: exact in complex128
        return np.array([complex(rng.randint(-3, 3) or 1, rng.randint(-2, 2) or 1) for _ in range(n)], dtype='complex128').reshape(shape)
    return np.array([rng.randint(-3, 3) or 1 for _ in range(n)], dtype='float64').reshape(shape)


def rand_array(rng, sr, sym, indices, fermionic, charge=None, keep=None, pending=None, label=None):
    duals = [ix.dual for ix in indices]
    tables = [list(ix.chargemap) for ix in indices]
    if charge is None:
        # a total charge that admits at least one sector, odd and even alike
        secs = list(itertools.product(*tables))
        cands = sorted({refsym.csum(sym, [refsym.signed(sym, c, d) for c, d in zip(s, duals)]) for s in secs}, key=repr)
        charge = rng.choice(cands) if cands else refsym.zero(sym)
    sectors = refsym.valid_sectors(sym, tables, duals, charge)
    keep = rng.choice([1.0, 1.0, 0.7, 0.4]) if keep is None else keep
    blocks = {}
    for s in sectors:
        if rng.random() < keep:
            blocks[s] = fill(rng, tuple(ix.chargemap[c] for ix, c in zip(indices, s)))
    if fermionic:
        pending = rng.choice([0.0, 0.5, 1.0]) if pending is None else pending
        phases = {s: -1 for s in blocks if rng.random() < pending}
        odd = refsym.par(sym, charge) == 1
        return sr.FermionicArray(indices=indices, charge=charge, blocks=blocks, phases=phases,
                                 oddpos=(label if label is not None else rng.randint(1, 9)) if odd else None, symmetry=sym)
    return sr.AbelianArray(indices=indices, charge=charge, blocks=blocks, symmetry=sym)


def rand_vec(rng, sr, ix):
    return sr.BlockVector({c: fill(rng, (d,)) for c, d in ix.chargemap.items() if rng.random() < 0.8})


def conj_index(sr, ix):
    return sr.BlockIndex(dict(ix.chargemap), dual=not ix.dual)


def partner(rng, sr, sym, x, ncon, fermionic, label=None):
    """an array whose first ncon indices can be contracted with the last ncon of x"""
    first = [conj_index(sr, ix) for ix in x.indices[x.ndim - ncon:]]
    extra = [rand_index(rng, sr, sym) for _ in range(rng.randint(0, 2))]
    return rand_array(rng, sr, sym, first + extra, fermionic, label=label)


# ====================================================================== catalogue
class Call:
    """one call of a public operation: `fn(args, inplace)`; operands = args"""
    def __init__(self, name, fn, args, flag=False, receivers=(), model=None):
        self.name, self.fn, self.args, self.flag, self.receivers, self.model = name, fn, list(args), flag, tuple(receivers), model

    def run(self, args=None, inplace=False):
        with warnings.catch_warnings():
            warnings.simplefilter('ignore')
            with np.errstate(all='ignore'):
                return self.fn(list(self.args if args is None else args), inplace)


def fuse_unfuse(x, g, ip):
    y = x.fuse(g)
    axs = [i for i, ix in enumerate(y.indices) if ix.subinfo is not None]
    return y.unfuse(axs[0], inplace=ip) if axs else y


def results_of(r):
    if isinstance(r, tuple):
        return [y for y in r if is_arr(y) or is_vec(y)]
    return [r] if (is_arr(r) or is_vec(r)) else []


def calls_for(rng, sr, sym, x, fermionic, other=None, thorough=False):
    """the public operations applicable to array x (and, for binary ones, to `other` or a generated partner)"""
    out = []
    nd = x.ndim
    A = out.append
    perm = list(range(nd))
    rng.shuffle(perm)
    perm = tuple(perm)
    k = lambda **kw: kw
    # ---- structural / unary, both array kinds
    A(Call('copy', lambda a, ip: a[0].copy(), [x], model=('OCopy', {})))
    A(Call('conj', lambda a, ip: a[0].conj(inplace=ip), [x], flag=True))
    A(Call('transpose', lambda a, ip: a[0].transpose(perm, inplace=ip), [x], flag=True, model=('transpose', {'perm': perm})))
    A(Call('transpose()', lambda a, ip: a[0].transpose(inplace=ip), [x], flag=True))
    A(Call('dagger', lambda a, ip: a[0].dagger(inplace=ip), [x], flag=True))
    A(Call('T', lambda a, ip: a[0].T, [x]))
    A(Call('H', lambda a, ip: a[0].H, [x]))
    A(Call('sync_charges', lambda a, ip: a[0].sync_charges(inplace=ip), [x], flag=True))
    A(Call('neg', lambda a, ip: -a[0], [x], model=('OScalar', {})))
    A(Call('mul_scalar', lambda a, ip: a[0] * 2, [x], model=('OScalar', {})))
    A(Call('rmul_scalar', lambda a, ip: 3 * a[0], [x]))
    A(Call('div_scalar', lambda a, ip: a[0] / 2, [x]))
    A(Call('abs', lambda a, ip: sr.abs(a[0]), [x]))
    A(Call('clip', lambda a, ip: sr.clip(a[0], -1, 2), [x]))
    A(Call('isfinite', lambda a, ip: a[0].isfinite(), [x]))
    A(Call('reductions', lambda a, ip: (a[0].norm(), a[0].sum(), a[0].max(), a[0].min(), a[0].get_sparsity()) if a[0].num_blocks else None, [x]))
    A(Call('to_dense', lambda a, ip: a[0].to_dense() if a[0].num_blocks else None, [x]))
    A(Call('get_params', lambda a, ip: a[0].get_params(), [x]))
    A(Call('allclose', lambda a, ip: a[0].allclose(a[1]), [x, x]))
    A(Call('str', lambda a, ip: (str(a[0]), repr(a[0])), [x]))
    A(Call('check', lambda a, ip: a[0].check(), [x]))
    ax = rng.randint(0, nd)
    A(Call('expand_dims', lambda a, ip: a[0].expand_dims(ax, inplace=ip), [x], flag=True, model=('expand_dims', {'axis': ax})))
    A(Call('squeeze', lambda a, ip: a[0].expand_dims(ax).squeeze(ax, inplace=ip), [x]))
    A(Call('squeeze_ip', lambda a, ip: a[0].squeeze(inplace=ip), [x], flag=True))
    if nd >= 1:
        ax1 = rng.randrange(nd)
        v = rand_vec(rng, sr, x.indices[ax1])
        A(Call('multiply_diagonal', lambda a, ip: a[0].multiply_diagonal(a[1], ax1, inplace=ip), [x, v], flag=True,
               model=('multiply_diagonal', {'axis': ax1})))
    if nd >= 2:
        axes = list(range(nd))
        rng.shuffle(axes)
        cut = rng.randint(1, nd - 1)
        g1, g2 = tuple(axes[:cut]), tuple(axes[cut:])
        groups = rng.choice([(g1,), (g1, g2), (g2, g1), (g1, ()), ((), g2, g1)])
        A(Call('fuse', lambda a, ip: a[0].fuse(*groups, inplace=ip), [x], flag=True, model=('fuse', {'groups': groups})))
        if not fermionic:
            A(Call('fuse_concat', lambda a, ip: a[0].fuse(g1, mode='concat', inplace=ip), [x], flag=True))
        A(Call('fuse.unfuse', lambda a, ip: fuse_unfuse(a[0], g1, ip), [x]))
        A(Call('reshape', lambda a, ip: a[0].reshape((-1,), inplace=ip), [x], flag=True))
        A(Call('sr.fuse', lambda a, ip: sr.fuse(a[0], g1), [x]))
    fused_axes = [i for i, ix in enumerate(x.indices) if ix.subinfo is not None]
    if fused_axes:
        fa = rng.choice(fused_axes)
        A(Call('unfuse', lambda a, ip: a[0].unfuse(fa, inplace=ip), [x], flag=True, model=('unfuse', {'axis': fa})))
        A(Call('unfuse_all', lambda a, ip: a[0].unfuse_all(inplace=ip), [x], flag=True))
        shp = tuple(d for i, ix in enumerate(x.indices)
                    for d in ([s.size_total for s in ix.subinfo.indices] if i == fa else [ix.size_total]))
        A(Call('reshape_unfuse', lambda a, ip: a[0].reshape(shp, inplace=ip), [x], flag=True))
    # ---- in-place methods documented as such
    A(Call('apply_to_arrays', lambda a, ip: a[0].apply_to_arrays(lambda b: b * 2), [x], receivers=(0,), model=('OApply', {})))
    A(Call('fill_missing_blocks', lambda a, ip: a[0].fill_missing_blocks(), [x], receivers=(0,)))
    A(Call('drop_missing_blocks', lambda a, ip: a[0].drop_missing_blocks(), [x], receivers=(0,)))
    # ---- arithmetic between arrays
    y = other if (other is not None and type(other) is type(x) and other.ndim == nd
                  and all(i.chargemap == j.chargemap and i.dual == j.dual for i, j in zip(other.indices, x.indices))
                  and other.charge == x.charge) else \
        rand_array(rng, sr, sym, x.indices, fermionic, charge=x.charge, label=5)
    A(Call('add', lambda a, ip: a[0] + a[1], [x, y], model=('binary', {'missing': 'MOuter'})))
    A(Call('sub', lambda a, ip: a[0] - a[1], [x, y], model=('binary', {'missing': 'MNone'})))
    A(Call('mul', lambda a, ip: a[0] * a[1], [x, y], model=('binary', {'missing': 'MInner'})))
    A(Call('add_self', lambda a, ip: a[0] + a[0], [x]))
    ys = clone(x)          # same sectors as x (needed by the 1:1 operations), different values, no pending signs
    for kk in ys._blocks:
        ys._blocks[kk] = ys._blocks[kk] * 2 + 1
    A(Call('sub_same', lambda a, ip: a[0] - a[1], [x, ys], model=('binary', {'missing': 'MNone'})))

    def iop(op):
        def f(a, ip):
            z = a[0]
            if op == '+':
                z += a[1]
            elif op == '-':
                z -= a[1]
            elif op == '*':
                z *= a[1]
            elif op == '*s':
                z *= 2
            elif op == '/s':
                z /= 2
            return z
        return f
    # the augmented operators ARE the in-place forms of the binary ones: same value as the out-of-place expression
    A(Call('add|iadd', lambda a, ip: iop('+')(a, True) if ip else a[0] + a[1], [x, y], flag=True))
    A(Call('sub|isub', lambda a, ip: iop('-')(a, True) if ip else a[0] - a[1], [x, ys], flag=True))
    A(Call('mul|imul', lambda a, ip: iop('*')(a, True) if ip else a[0] * a[1], [x, y], flag=True))
    A(Call('mul|imul (other sectors)', lambda a, ip: iop('*')(a, True) if ip else a[0] * a[1], [x, ys], flag=True))
    A(Call('scale|iscale', lambda a, ip: iop('*s')(a, True) if ip else a[0] * 2, [x], flag=True))
    A(Call('div|idiv', lambda a, ip: iop('/s')(a, True) if ip else a[0] / 2, [x], flag=True))
    A(Call('iadd', iop('+'), [x, y], receivers=(0,)))
    A(Call('isub', iop('-'), [x, y], receivers=(0,)))
    A(Call('isub_same', iop('-'), [x, ys], receivers=(0,)))
    A(Call('imul', iop('*'), [x, y], receivers=(0,)))
    A(Call('imul_scalar', iop('*s'), [x], receivers=(0,)))
    A(Call('idiv_scalar', iop('/s'), [x], receivers=(0,)))
    # ---- contraction
    if nd >= 1:
        ncon = rng.randint(1, nd)
        b = partner(rng, sr, sym, x, ncon, fermionic, label=7)
        for mode in ('fused', 'blockwise'):
            A(Call('tensordot_' + mode, lambda a, ip, m=mode: sr.tensordot(a[0], a[1], ncon, mode=m, preserve_array=True), [x, b],
                   model=('tensordot', {'ncon': ncon, 'mode': mode})))
        A(Call('tensordot_outer', lambda a, ip: sr.tensordot(a[0], a[1], 0), [x, b]))
        axes_a, axes_b = tuple(range(nd - ncon, nd)), tuple(range(ncon))
        A(Call('align_axes', lambda a, ip: sr.align_axes(a[0], a[1], (axes_a, axes_b)), [x, b],
               model=('drop_misaligned', {'axes': (axes_a, axes_b)})))
        from symmray.abelian_core import drop_misaligned_sectors
        A(Call('drop_misaligned_sectors', lambda a, ip: drop_misaligned_sectors(a[0], a[1], axes_a, axes_b, inplace=ip), [x, b],
               flag=True, receivers=(0, 1)))
        if not (fermionic and refsym.par(sym, x.charge) == 1):
            xd = lambda a: a.dagger() if not fermionic else a.dagger()
            A(Call('tensordot_self', lambda a, ip: sr.tensordot(a[0], a[0].conj(), nd, preserve_array=True)
                   if not fermionic else sr.tensordot(a[0].dagger(), a[0], nd, preserve_array=True), [x]))
    if nd == 2:
        b = partner(rng, sr, sym, x, 1, fermionic, label=7)
        if b.ndim > 2:
            b = partner(rng, sr, sym, x, 1, fermionic, label=7)
        if b.ndim <= 2:
            A(Call('matmul', lambda a, ip: a[0] @ a[1], [x, b], model=('matmul', {})))
        ixl, ixr = x.indices
        if fermionic and ixl.dual != ixr.dual and ixl.chargemap == ixr.chargemap:
            A(Call('trace', lambda a, ip: a[0].trace(), [x]))
        if not fermionic and ixl.chargemap == ixr.chargemap:
            A(Call('trace', lambda a, ip: a[0].trace(), [x]))
            A(Call('einsum_trace', lambda a, ip: a[0].einsum('aa->', preserve_array=True), [x]))
        A(Call('einsum_perm', lambda a, ip: a[0].einsum('ab->ba'), [x], model=('einsum', {})))
        # ---- decompositions
        A(Call('qr', lambda a, ip: sr.linalg.qr(a[0]), [x], model=('qr', {})))
        A(Call('qr_stabilized', lambda a, ip: sr.linalg.qr_stabilized(a[0]), [x]))
        A(Call('svd', lambda a, ip: sr.linalg.svd(a[0]), [x], model=('svd', {})))
        mb = rng.choice([-1, 1, 2, 3])
        absorb = rng.choice([None, 0, -1, 1])
        cut = rng.choice([-1.0, 0.5, 1e-10])
        A(Call('svd_truncated', lambda a, ip: sr.linalg.svd_truncated(a[0], cutoff=cut, max_bond=mb, absorb=absorb), [x]))
        if x.charge == refsym.zero(sym) and ixl.chargemap == ixr.chargemap and ixl.dual != ixr.dual:
            A(Call('eigh', lambda a, ip: sr.linalg.eigh(a[0]), [x]))
            rhs = rand_array(rng, sr, sym, [conj_index(sr, ixl) if False else sr.BlockIndex(dict(ixl.chargemap), dual=ixl.dual)],
                             fermionic, label=7)
            A(Call('solve', lambda a, ip: sr.linalg.solve(a[0], a[1]), [x, rhs]))
    # ---- fermionic only
    if fermionic:
        axs = tuple(i for i in range(nd) if rng.random() < 0.5)
        A(Call('phase_flip', lambda a, ip: a[0].phase_flip(*axs, inplace=ip), [x], flag=True, model=('phase_flip', {'axs': axs})))
        A(Call('phase_transpose', lambda a, ip: a[0].phase_transpose(perm, inplace=ip), [x], flag=True,
               model=('phase_transpose', {'perm': perm})))
        A(Call('phase_global', lambda a, ip: a[0].phase_global(inplace=ip), [x], flag=True, model=('OPhaseGlobal', {})))
        A(Call('phase_sync', lambda a, ip: a[0].phase_sync(inplace=ip), [x], flag=True, model=('OPhaseSync', {})))
        if x.num_blocks:
            sec = rng.choice(list(x.sectors))
            A(Call('phase_sector', lambda a, ip: a[0].phase_sector(sec, inplace=ip), [x], flag=True))
        pp, pd = rng.random() < 0.7, rng.random() < 0.5
        A(Call('conj_opts', lambda a, ip: a[0].conj(phase_permutation=pp, phase_dual=pd, inplace=ip), [x], flag=True))
        A(Call('dagger_dual', lambda a, ip: a[0].dagger(phase_dual=True, inplace=ip), [x], flag=True))
        A(Call('transpose_nophase', lambda a, ip: a[0].transpose(perm, phase=False, inplace=ip), [x], flag=True))
    return out


def vec_calls(rng, sr, v, w):
    A = []
    a = A.append
    a(Call('vec_copy', lambda x, ip: x[0].copy(), [v]))
    a(Call('vec_add', lambda x, ip: x[0] + x[1], [v, w]))
    a(Call('vec_sub', lambda x, ip: x[0] - x[1], [v, v]))
    a(Call('vec_mul', lambda x, ip: x[0] * x[1], [v, w]))
    a(Call('vec_div', lambda x, ip: x[0] / x[1], [v, v]))
    a(Call('vec_pow', lambda x, ip: x[0] ** 2, [v]))
    a(Call('vec_scalar', lambda x, ip: (x[0] + 1, 1 + x[0], x[0] - 1, 1 - x[0], x[0] / 2, 2 / x[0], 2 ** x[0], -x[0], x[0] * 2), [v]))
    a(Call('vec_reduce', lambda x, ip: (x[0].norm(), x[0].sum(), x[0].to_dense(), x[0].size) if x[0].num_blocks else None, [v]))
    a(Call('vec_abs_sqrt', lambda x, ip: x[0].abs().sqrt(), [v]))

    def iop(op):
        def f(x, ip):
            z = x[0]
            if op == '+':
                z += x[1]
            elif op == '*':
                z *= x[1]
            elif op == '-s':
                z -= 1
            elif op == '/s':
                z /= 2
            elif op == '**':
                z **= 2
            return z
        return f
    for op in ('+', '*'):
        a(Call('vec_i' + op, iop(op), [v, w], receivers=(0,)))
    for op in ('-s', '/s', '**'):
        a(Call('vec_i' + op, iop(op), [v], receivers=(0,)))
    return A


# ====================================================================== the oracle
class Oracle:
    def __init__(self, ctx):
        self.ctx = ctx
        self.found = []
        self.raised = {}
        self.ran = {}

    def report(self, what, call, extra):
        if len(self.found) < 40:
            self.found.append({'oracle': what, 'operation': call.name, **extra})

    def check_call(self, call, inplace=False, watch=(), trail=''):
        """run the call; every operand that is not a declared receiver (and every
        array in `watch`) must keep its observable state.  Returns the result."""
        args = call.args
        protected = [(i, a) for i, a in enumerate(args)
                     if not ((inplace and i in (call.receivers or (0,))) or (not call.flag and i in call.receivers))]
        before = [(i, a, snap(a)) for i, a in protected] + [('w%d' % j, a, snap(a)) for j, a in enumerate(watch)]
        self.ctx.count()
        self.ran[call.name] = self.ran.get(call.name, 0) + 1
        try:
            r = call.run(inplace=inplace)
            err = None
        except Exception as e:          # an operation that raises must not have damaged its operands either
            r, err = None, '%s: %s' % (type(e).__name__, str(e)[:80])
            self.raised[call.name] = self.raised.get(call.name, 0) + 1
        for i, a, s0 in before:
            d = diff(s0, snap(a))
            if d is not None:
                self.report('operand_mutated', call, {
                    'sequence': trail + call.name + ('(inplace=True)' if inplace else ''),
                    'operand': i, 'changed': d, 'raised': err,
                    'operand_before': jsonable(s0), 'operand_after': jsonable(snap(a))})
        return r, err

    def check_inplace_eq(self, call):
        """op(inplace=True) on an independent clone == op() value"""
        if not call.flag:
            return
        a_out = [clone(a) for a in call.args]
        a_in = [clone(a) for a in call.args]
        self.ctx.count()
        try:
            r_out = call.run(a_out, False)
            e_out = None
        except Exception as e:
            r_out, e_out = None, type(e).__name__
        try:
            r_in = call.run(a_in, True)
            e_in = None
        except Exception as e:
            r_in, e_in = None, type(e).__name__
        if e_out or e_in:
            if e_out != e_in:
                self.report('inplace_differs', call, {'out_of_place': e_out or 'returns', 'in_place': e_in or 'returns',
                                                      'operand': jsonable(snap(call.args[0]))})
            return
        outs, ins = results_of(r_out), results_of(r_in)
        recv = call.receivers or (0,)
        for j, (ro, ri) in enumerate(zip(outs, ins)):
            d = diff(value_of(ro), value_of(ri))
            tgt = a_in[recv[j]] if j < len(recv) else None
            d2 = diff(value_of(ro), value_of(tgt)) if tgt is not None else None
            if d is not None or d2 is not None:
                self.report('inplace_differs', call, {
                    'changed': d or d2, 'returned_differs': d, 'receiver_differs': d2,
                    'operand': jsonable(snap(call.args[0])),
                    'out_of_place_value': jsonable(value_of(ro)), 'in_place_value': jsonable(value_of(tgt if tgt is not None else ri))})


def run_oracle(ctx, sr, budget):
    rng = ctx.rng
    orc = Oracle(ctx)
    kinds = [(s, f) for s in SYMS for f in (False, True)]
    n = 0
    while n < budget:
        sym, ferm = kinds[n % len(kinds)]
        n += 1
        CPLX[0] = (n // len(kinds)) % 3 == 2
        nd = rng.choice([1, 2, 2, 2, 3, 3, 4] if ctx.thorough else [1, 2, 2, 2, 3, 3])
        if rng.random() < 0.3 and nd == 2:
            ix = rand_index(rng, sr, sym)
            idx = [ix, conj_index(sr, ix)]
        else:
            idx = [rand_index(rng, sr, sym) for _ in range(nd)]
        if rng.random() < 0.2:
            idx.insert(rng.randint(0, len(idx)), sr.BlockIndex({refsym.zero(sym): 1}, dual=rng.random() < 0.5))
        zero_charge = refsym.zero(sym) if (len(idx) == 2 and idx[0].chargemap == idx[1].chargemap and rng.random() < 0.6) else None
        x = rand_array(rng, sr, sym, idx, ferm, charge=zero_charge, label=3)
        if rng.random() < 0.25 and x.ndim >= 2:
            try:
                x = x.fuse(tuple(range(x.ndim - 1)) if rng.random() < 0.5 else (0, x.ndim - 1))
            except Exception:
                pass
        par = refsym.par(sym, x.charge)
        pend = bool(getattr(x, '_phases', None))
        ctx.nontrivial((sym, ferm, x.ndim, par, pend, x.num_blocks, repr(snap(x)['indices'])[:60]))
        if n <= 4:
            ctx.sample({'symmetry': sym, 'fermionic': ferm, 'ndim': x.ndim, 'charge': repr(x.charge), 'sectors': [repr(s) for s in x.sectors][:6],
                        'pending': sorted(map(repr, getattr(x, '_phases', {})))[:6]})
        calls = calls_for(rng, sr, sym, x, ferm, thorough=ctx.thorough)
        for c in calls:
            # single call, out of place (on the operands themselves)
            work = Call(c.name, c.fn, [clone(a) for a in c.args], c.flag, c.receivers, c.model)
            orc.check_call(work, inplace=False)
            orc.check_inplace_eq(c)
            if c.flag:
                # in place: the receiver may change, every other operand must not
                work = Call(c.name, c.fn, [clone(a) for a in c.args], c.flag, c.receivers, c.model)
                orc.check_call(work, inplace=True)
        # pairs: op1 on x, then op2 on (result of op1, x together): x is watched throughout
        firsts = [c for c in calls if c.name in PAIR_FIRST]
        rng.shuffle(firsts)
        for c1 in firsts[: (6 if ctx.thorough else 3)]:
            x0 = clone(x)
            w1 = Call(c1.name, c1.fn, [x0] + [clone(a) for a in c1.args[1:]], c1.flag, c1.receivers)
            r1, err = orc.check_call(w1, inplace=False)
            res = [y for y in results_of(r1) if is_arr(y)]
            if err or not res:
                continue
            y = res[0]
            ferm_y = hasattr(y, '_phases')
            try:
                seconds = calls_for(rng, sr, sym, y, ferm_y, other=x0)
            except Exception:
                continue
            rng.shuffle(seconds)
            for c2 in seconds[: (14 if ctx.thorough else 7)]:
                # the shared operand x0 takes part in op2 wherever op2 accepts a second array like it
                args2 = [y] + [x0 if (a is not y and is_arr(a) and type(a) is type(x0) and a.ndim == x0.ndim and rng.random() < 0.5
                                      and c2.name in ('add', 'sub', 'mul', 'iadd', 'imul', 'allclose')) else a for a in c2.args[1:]]
                s_y = snap(y)
                w2 = Call(c2.name, c2.fn, args2, c2.flag, c2.receivers)
                ip = c2.flag and rng.random() < 0.5
                orc.check_call(w2, inplace=ip, watch=[x0], trail=c1.name + ' ; ')
                ctx.nontrivial(('pair', c1.name, c2.name, ip))
                if ip or c2.receivers:
                    # y was consumed in place: rebuild it for the next second operation
                    w1b = Call(c1.name, c1.fn, [x0] + w1.args[1:], c1.flag, c1.receivers)
                    try:
                        y = [z for z in results_of(w1b.run(inplace=False)) if is_arr(z)][0]
                    except Exception:
                        break
                elif diff(s_y, snap(y)) is not None:
                    pass    # already reported by check_call
        if n % 4 == 0:
            ix = rand_index(rng, sr, sym)
            v, w = rand_vec(rng, sr, ix), rand_vec(rng, sr, ix)
            for c in vec_calls(rng, sr, v, w):
                work = Call(c.name, c.fn, [clone(a) for a in c.args], c.flag, c.receivers)
                orc.check_call(work, inplace=False)
    return orc


PAIR_FIRST = {'copy', 'conj', 'transpose', 'dagger', 'expand_dims', 'fuse', 'fuse.unfuse', 'reshape', 'unfuse', 'unfuse_all',
              'sync_charges', 'neg', 'add', 'mul', 'multiply_diagonal', 'align_axes', 'phase_flip', 'phase_transpose',
              'phase_global', 'phase_sync', 'conj_opts', 'dagger_dual', 'transpose_nophase', 'einsum_perm', 'squeeze', 'T', 'H',
              'tensordot_fused', 'qr', 'svd_truncated'}


# ====================================================================== correspondence (alias graph)
def root_id(a):
    """identity of the memory a numpy array lives in (views share their base)"""
    while isinstance(a, np.ndarray) and a.base is not None and isinstance(a.base, np.ndarray):
        a = a.base
    return id(a)


def perm_sign_odd(par, perm):
    """Koszul sign of reordering legs with parities `par` into order `perm` (independent of the library)"""
    n = 0
    for i in range(len(perm)):
        for j in range(i + 1, len(perm)):
            if perm[i] > perm[j] and par[perm[i]] and par[perm[j]]:
                n += 1
    return n % 2 == 1


class Keys:
    def __init__(self):
        self.ids = {}

    def __call__(self, k):
        if k not in self.ids:
            self.ids[k] = len(self.ids) + 1
        return self.ids[k]


def gnat(n):
    return '%d' % n


def glist(xs):
    return '[' + '; '.join(xs) + ']'


def model_of(call, sym, inplace):
    """(op expression, params dict, exact?, compare phases?) for the call, or None when not modelled"""
    if call.model is None:
        return None
    kind, info = call.model
    x = call.args[0]
    ferm = hasattr(x, '_phases')
    ip = 'true' if inplace else 'false'
    fb = 'true' if ferm else 'false'
    P = {}
    par = lambda c: refsym.par(sym, c)
    if kind in ('OCopy', 'OApply', 'OPhaseGlobal', 'OPhaseSync'):
        return (kind if kind in ('OCopy', 'OApply') else '(%s %s)' % (kind, ip)), P, True, True
    if kind == 'OScalar':
        return '(OScalar %s false)' % ip, P, True, True
    if kind == 'transpose':
        perm = info['perm']
        P['f1'] = {s: tuple(s[p] for p in perm) for s in x._blocks}
        if ferm:
            P['f1'].update({s: tuple(s[p] for p in perm) for s in x._phases})
            P['p1'] = [s for s in x._blocks
                       if (x._phases.get(s, 1) == -1) != perm_sign_odd([par(c) for c in s], perm)]
            return '(OFTranspose %s true)' % ip, P, True, True
        return '(OTranspose %s)' % ip, P, True, True
    if kind == 'expand_dims':
        ax = info['axis']
        z = refsym.zero(sym)
        P['f1'] = {s: s[:ax] + (z,) + s[ax:] for s in list(x._blocks) + list(getattr(x, '_phases', {}))}
        return '(OExpandDims %s %s)' % (ip, fb), P, True, True
    if kind == 'multiply_diagonal':
        v = call.args[1]
        P['p1'] = [s for s in x._blocks if s[info['axis']] in v._blocks]
        return '(OMulDiag %s)' % ip, P, True, False
    if kind == 'binary':
        y = call.args[1]
        oph = ferm and bool(getattr(y, '_phases', {}))
        return '(OBinary %s %s %s %s)' % (ip, info['missing'], fb, 'true' if oph else 'false'), P, True, False
    if kind == 'phase_flip':
        axs = info['axs']
        P['p1'] = [s for s in x._blocks if sum(par(s[a]) for a in axs) % 2 == 1]
        return '(OPhaseFlip %s %s)' % (ip, 'false' if axs else 'true'), P, True, True
    if kind == 'phase_transpose':
        P['p1'] = [s for s in x._blocks if perm_sign_odd([par(c) for c in s], info['perm'])]
        return '(OPhaseTranspose %s)' % ip, P, True, True
    if kind == 'unfuse':
        ax = info['axis']
        ext = x._indices[ax]._subinfo._extents
        P['g1'] = {s: [s[:ax] + tuple(sub) + s[ax + 1:] for sub in ext[s[ax]]] for s in x._blocks}
        if ferm:
            return '(OUnfuse %s true)' % ip, P, False, False
        return '(OUnfuse %s false)' % ip, P, True, False
    if kind == 'fuse':
        groups = any(len(g) for g in info['groups'])
        return '(OFuse %s %s %s true)' % (ip, fb, 'true' if groups else 'false'), P, False, False
    if kind == 'drop_misaligned':
        axes_a, axes_b = info['axes']
        y = call.args[1]
        sa = {s: tuple(s[a] for a in axes_a) for s in x._blocks}
        sb = {s: tuple(s[a] for a in axes_b) for s in y._blocks}
        ok = set(sa.values()) & set(sb.values())
        P['p1'] = [s for s in sa if sa[s] in ok]
        P['p2'] = [s for s in sb if sb[s] in ok]
        return '(ODropMisaligned false)', P, True, False
    if kind == 'tensordot':
        y = call.args[1]
        ncon, mode = info['ncon'], info['mode']
        if ferm:
            return '(OFTdot true %s false true false)' % ('true' if mode == 'fused' else 'false'), P, False, False
        if mode == 'fused':
            return '(OTdot true false true)', P, False, False
        na = x.ndim
        P['g2'] = {s: [s[:na - ncon] + t[ncon:] for t in y._blocks if t[:ncon] == s[na - ncon:]] for s in x._blocks}
        return '(OTdot false false true)', P, True, False
    if kind == 'matmul':
        y = call.args[1]
        if ferm:
            return '(OMatmul true false false)', P, False, False
        na = x.ndim
        P['g2'] = {s: [s[:na - 1] + t[1:] for t in y._blocks if t[:1] == s[na - 1:]] for s in x._blocks}
        return '(OMatmul false false false)', P, True, False
    if kind == 'einsum':
        P['p1'] = list(x._blocks)
        if ferm:
            return '(OEinsum true)', P, False, False
        P['f2'] = {s: (s[1], s[0]) for s in x._blocks}
        P['p1'] = list(x._blocks)
        return '(OEinsum false)', P, True, False
    if kind in ('qr', 'svd'):
        flip = ferm and (not x._indices[1]._dual)      # r.indices[0] = bond_index.conj() is dual iff x.indices[1] is not
        P['f1'] = {s: s[1] for s in x._blocks}
        P['f2'] = {s: (s[1], s[1]) for s in x._blocks}
        P['p1'] = [(s[1], s[1]) for s in x._blocks if par(s[1]) == 1]
        return '(%s %s)' % ('OQr' if kind == 'qr' else 'OSvd', 'true' if flip else 'false'), P, True, False
    return None


def emit_params(P, K):
    def tf(d):
        return '(tabf %s)' % glist('(%d, %d)' % (K(a), K(b)) for a, b in d.items())

    def tg(d):
        return '(tabg %s)' % glist('(%d, %s)' % (K(a), glist(gnat(K(b)) for b in bs)) for a, bs in d.items())

    def pl(l):
        return '(predl %s)' % glist(gnat(K(a)) for a in l)
    return '(mkPar %s %s %s %s %s [] [] [] %s %s %s)' % (
        tf(P.get('f1', {})), tf(P.get('f2', {})), tf(P.get('f3', {})), tg(P.get('g1', {})), tg(P.get('g2', {})),
        pl(P.get('p1', [])), pl(P.get('p2', [])), pl(P.get('p3', [])))


MODEL_RETS = {'OQr': [2, 4], 'OSvd': [2, 3, 4], 'ODropMisaligned': [2, 3], 'OApply': [0]}


def correspondence_case(call, sym, inplace):
    """run the call on clones, observe the alias graph, emit the Gallina comparison.
    Returns (expr, meta) or None."""
    m = model_of(call, sym, inplace)
    if m is None:
        return None
    opx, P, exact, cmpph = m
    args = [clone(a) for a in call.args]
    objs = []
    for a in args:
        if (is_arr(a) or is_vec(a)) and all(a is not o for o in objs):
            objs.append(a)
    K = Keys()
    classes = {}
    for o in objs:
        for b in o._blocks.values():
            classes.setdefault(root_id(b), len(classes))
    pexpr = emit_params(P, K)       # tables first: they refer to the operands as they are before the call
    dicts = []
    for o in objs:
        dicts.append(glist('(%d, %d)' % (K(k), classes[root_id(b)]) for k, b in o._blocks.items()))
        dicts.append(glist('(%d, 1)' % K(k) for k in getattr(o, '_phases', {})))
    heap = '(mkH %s %s %s)' % (glist(dicts), glist(['7'] * len(classes)),
                               glist('(mkO %d %d)' % (2 * i, 2 * i + 1) for i in range(len(objs))))
    argids = [next(i for i, o in enumerate(objs) if o is a) for a in args if is_arr(a) or is_vec(a)]
    before = [snap(o) for o in objs]
    dict_ids = {}
    for i, o in enumerate(objs):
        dict_ids[id(o._blocks)] = 2 * i
        if hasattr(o, '_phases'):
            dict_ids[id(o._phases)] = 2 * i + 1
    # keep every operand dict and buffer alive so that id() values are not reused during the call
    hold = [o._blocks for o in objs] + [getattr(o, '_phases', None) for o in objs] + [b for o in objs for b in o._blocks.values()]
    recv_pos = (call.receivers or (0,)) if (inplace or (call.receivers and not call.flag)) else ()
    recv_objs = [argids[p] for p in recv_pos]
    try:
        r = Call(call.name, call.fn, args, call.flag, call.receivers).run(inplace=inplace)
    except Exception:
        return None
    res = results_of(r)
    opname = opx.strip('()').split()[0]
    if opname in MODEL_RETS:
        vars_ = MODEL_RETS[opname]
    else:
        vars_ = [2]
    if opname == 'OApply':
        res = [args[0]]
    if len(res) != len(vars_):
        if res:
            return None
        vars_ = []
    unch = [i for i in range(len(objs)) if i not in recv_objs]
    actual_unchanged = [i for i in unch if diff(before[i], snap(objs[i])) is None]
    prot = [d for i in unch for d in (2 * i, 2 * i + 1)]
    rets = []
    alias_bad = False
    for v, y in zip(vars_, res):
        blocks = []
        for k, b in y._blocks.items():
            c = classes.get(root_id(b)) if isinstance(b, np.ndarray) else None
            blocks.append('(%d, %s)' % (K(k), 'None' if c is None else 'Some %d' % c))
        ph = [gnat(K(k)) for k in getattr(y, '_phases', {})]
        rets.append('(mkE %d %s %s)' % (v, glist(blocks), glist(ph)))
        for d in (id(y._blocks), id(getattr(y, '_phases', None))):
            if dict_ids.get(d) in prot:
                alias_bad = True
    expr = 'check_case %s %s %s %s %s %s %s %s %s' % (
        'true' if exact else 'false', 'true' if (cmpph and exact) else 'false', pexpr, opx, heap,
        glist(gnat(i) for i in argids), glist(gnat(d) for d in prot), glist(gnat(i) for i in unch), glist(rets))
    meta = {'operation': call.name + ('(inplace=True)' if inplace else ''), 'model_op': opx, 'exact': exact,
            'impl_changed_operands': [i for i in unch if i not in actual_unchanged], 'impl_result_aliases_operand_dict': alias_bad,
            'operands': [jsonable(b) for b in before]}
    del hold
    return expr, meta


def run_correspondence(ctx, sr, budget):
    rng = ctx.rng
    exprs, metas = [], []
    kinds = [(s, f) for s in SYMS for f in (False, True)]
    n = 0
    seen = {}
    while n < budget:
        sym, ferm = kinds[n % len(kinds)]
        n += 1
        CPLX[0] = False
        nd = rng.choice([1, 2, 2, 3])
        idx = [rand_index(rng, sr, sym) for _ in range(nd)]
        x = rand_array(rng, sr, sym, idx, ferm, label=3)
        if rng.random() < 0.3 and x.ndim >= 2:
            try:
                x = x.fuse(tuple(range(x.ndim - 1)))
            except Exception:
                pass
        if rng.random() < 0.3:
            x = x.transpose()        # operand blocks that are themselves views
        for c in calls_for(rng, sr, sym, x, ferm):
            for ip in ([False, True] if c.flag else [False]):
                got = correspondence_case(c, sym, ip)
                if got is None:
                    continue
                exprs.append(got[0])
                got[1]['symmetry'] = sym
                metas.append(got[1])
                seen[got[1]['model_op'].strip('()').split()[0]] = seen.get(got[1]['model_op'].strip('()').split()[0], 0) + 1
                ctx.nontrivial(('corr', sym, ferm, got[1]['operation'], x.ndim, x.num_blocks))
    ctx.count(len(exprs))
    return exprs, metas, seen


# ====================================================================== entry points
def run(ctx):
    import symmray as sr
    ok = common.standard_proof_phase(ctx)
    tie_broken = []

    # ---- correspondence on the alias graph
    exprs, metas, seen = run_correspondence(ctx, sr, 320 if ctx.thorough else 80)
    bad = common.run_cases(ctx, 'alias', IMPORTS, 'Open Scope nat_scope.', exprs, shard=150)
    disagree = []
    if bad is None:
        tie_broken.append('cases.v (operation scripts vs observed alias graph) did not evaluate')
    elif bad:
        disagree = [metas[i] for i in bad]
        tie_broken += ['script %s disagrees with the implementation on %s' % (m['model_op'], m['operation']) for m in disagree[:10]]
    # the implementation's own verdict on the same calls (independent of the model)
    impl_bad = [m for m in metas if m['impl_changed_operands'] or m['impl_result_aliases_operand_dict']]

    # ---- oracle: snapshots of operands over single calls, pairs, in-place vs out-of-place
    orc = run_oracle(ctx, sr, 8000 if ctx.thorough else 1600)

    found = orc.found
    for f in found[:5]:
        ctx.violation('%s: %s' % (f['oracle'], f.get('sequence', f['operation'])), f)
    if not found:
        for m in impl_bad[:3]:
            ctx.violation('operand changed or result shares a dict object with an operand: ' + m['operation'],
                          {'oracle': 'alias_graph', **m})
    ctx.broken += tie_broken
    if (not ok or tie_broken) and not (found or impl_bad):
        ctx.violation('proof obligation or tie of C14 no longer checks',
                      {'broken': ctx.broken, 'disagreeing_cases': disagree[:3]}, found_input=False)
    ctx.coverage['rule'] = (
        'oracle: every public operation of block_core/abelian_core/fermionic_core/linalg/interface applicable to a generated array '
        '(4 symmetries x abelian/fermionic, rank 1-4, even and odd total charge, random sparsity incl. empty, pending signs, '
        'pre-fused and singleton legs, real and Gaussian-integer data, BlockVectors), each out of place, in place where offered, '
        'and as second member of a pair applied to the result of a first operation together with the original operand; '
        'non-trivial = distinct (symmetry, kind, rank, parity, pending, #blocks, tables) operand or distinct (op1, op2, inplace) pair; '
        'correspondence: one cases.v expression per modelled call (exact = key order + per-key buffer sharing + sign-table keys; '
        'coarse = operands unchanged + no shared dict + sharing upper bound)')
    ctx.extra['tie'] = {'alias_graph_cases': len(exprs), 'by_model_op': seen,
                        'exact_cases': sum(1 for m in metas if m['exact'])}
    ctx.extra['oracle'] = {'operations_run': orc.ran, 'calls_that_raised': orc.raised}
    ctx.note('scripts of Model/HeapOps.v are a hand model of the mutation skeleton (tied by the alias-graph correspondence and by the '
             'regenerated site list Gen/HeapSites.v); numpy: a.base chain identifies shared memory; inplace_eq is proved only in the '
             'partial form of C14_inplace_eq_partial and otherwise checked by the oracle')


def replay(path):
    import symmray as sr
    r = json.load(open(path))
    print(json.dumps({k: v for k, v in r.items() if k not in ('operand_before', 'operand_after', 'operands')}, indent=1)[:4000])
    if not r.get('found_failing_input', True):
        return 0
    # re-run the oracle with the same seed and report whether the same kind of finding is still produced
    ctx = common.Ctx('C14', 'quick', int(r.get('seed', 0) or 0))
    orc = run_oracle(ctx, sr, 480)
    hits = [f for f in orc.found if f['oracle'] == r.get('oracle') and f['operation'] == r.get('operation')]
    print('re-run: %d findings, %d for this operation' % (len(orc.found), len(hits)))
    return 1 if hits else 0
