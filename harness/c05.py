"""C05 — fusing is an exact, invertible re-indexing described by the fused index."""
import itertools
import json

import numpy as np

import common
import gen
import refsym
import replaylib as rl

IMPORTS = 'From SV Require Import Base.Sym Base.Tensor Model.SymInst Model.Sectors Model.Array.\n'
# (C05h) fermionic round trip: Model.Fermi.f_fuse with several groups and Proofs.FermiFuseRoundtrip.f_unfuse_groups
IMPORTS_F = ('From SV Require Import Base.Sym Base.Tensor Gen.PhasePerm Model.SymInst Model.Sectors Model.Array Model.Arith '
             'Model.Fermi Proofs.FermiFuseRoundtrip.\n')
SYMS = ['Z2', 'U1', 'Z2Z2', 'U1U1', 'Z4']


def describe(x):
    return {'class': type(x).__name__, 'charge': x.charge,
            'indices': [([list(kv) for kv in ix.chargemap.items()], ix.dual, ix.subinfo is not None) for ix in x.indices],
            'blocks': {str(k): np.asarray(v).tolist() for k, v in x.blocks.items()}}


def rand_groups(rng, nd, allow_single=True):
    axes = list(range(nd))
    rng.shuffle(axes)
    ng = rng.choice([1, 1, 2, 2, 3]) if nd >= 2 else 1
    groups, pos = [], 0
    for g in range(ng):
        if pos >= nd:
            break
        k = rng.randint(1 if allow_single else 2, max(1, min(3, nd - pos)))
        groups.append(tuple(axes[pos:pos + k]))
        pos += k
    return groups


def relocation_oracle(sym, x, y, groups):
    """Check, from the result's OWN sub-index tables, that every element of x
    sits exactly once where the fused index says.  Independent of the library's
    fuse code (own charge arithmetic, own offsets)."""
    nd = x.ndim
    grouped = {ax: g for g, ga in enumerate(groups) for ax in ga}
    position = min(min(g) for g in groups)
    before = [ax for ax in range(position) if ax not in grouped]
    after = [ax for ax in range(position, nd) if ax not in grouped]
    if y.ndim != len(before) + len(groups) + len(after):
        return {'error': 'rank %d, expected %d' % (y.ndim, len(before) + len(groups) + len(after))}
    # directions and untouched indices
    for k, ax in enumerate(before):
        if y.indices[k].chargemap != x.indices[ax].chargemap or y.indices[k].dual != x.indices[ax].dual:
            return {'error': 'untouched index %d changed' % ax}
    for g, ga in enumerate(groups):
        fi = y.indices[position + g]
        if fi.dual != x.indices[ga[0]].dual:
            return {'error': 'fused direction of group %r is %r, first axis has %r' % (ga, fi.dual, x.indices[ga[0]].dual)}
        if len(ga) > 1:
            if fi.subinfo is None:
                return {'error': 'fused index without sub-index table'}
            if [s.chargemap for s in fi.subinfo.indices] != [x.indices[a].chargemap for a in ga] or \
               [s.dual for s in fi.subinfo.indices] != [x.indices[a].dual for a in ga]:
                return {'error': 'sub-indices of group %r are not the fused axes in order' % (ga,)}
            if sorted(fi.subinfo.extents) != sorted(fi.chargemap):
                return {'error': 'extent keys differ from the fused charge table'}
            for c, ext in fi.subinfo.extents.items():
                if sum(ext.values()) != fi.chargemap[c]:
                    return {'error': 'extents of fused charge %r do not partition its size' % (c,)}
                if len(set(ext)) != len(ext):
                    return {'error': 'sub-sectors of fused charge %r are repeated' % (c,)}
    total_x = 0
    seen = {}
    for s, blk in x.blocks.items():
        blk = np.asarray(blk)
        ns, sel, inner_shape = [], [], []
        for ax in before:
            ns.append(s[ax]); sel.append(None)
        for g, ga in enumerate(groups):
            fi = y.indices[position + g]
            if len(ga) == 1:
                ns.append(s[ga[0]]); sel.append(None)
            else:
                c = refsym.csum(sym, [refsym.signed(sym, s[a], x.indices[a].dual != x.indices[ga[0]].dual) for a in ga])
                ns.append(c)
                ext = fi.subinfo.extents.get(c)
                ss = tuple(s[a] for a in ga)
                if ext is None or ss not in ext:
                    return {'error': 'sub-sector %r of fused charge %r is not in the sub-index table' % (ss, c)}
                start = 0
                for k2, d2 in ext.items():
                    if k2 == ss:
                        break
                    start += d2
                if ext[ss] != int(np.prod([x.indices[a].chargemap[s[a]] for a in ga])):
                    return {'error': 'recorded size of sub-sector %r is not the product of its sub-sizes' % (ss,)}
                sel.append((start, ext[ss]))
        for ax in after:
            ns.append(s[ax]); sel.append(None)
        ns = tuple(ns)
        if ns not in y.blocks:
            return {'error': 'fused sector %r (from %r) is missing' % (ns, s)}
        yb = np.asarray(y.blocks[ns])
        perm = before + [a for ga in groups for a in ga] + after
        tb = np.transpose(blk, perm)
        shp = [blk.shape[a] for a in before] + [int(np.prod([blk.shape[a] for a in ga])) for ga in groups] + [blk.shape[a] for a in after]
        tb = tb.reshape(shp)
        slc = tuple(slice(None) if r is None else slice(r[0], r[0] + r[1]) for r in sel)
        try:
            region = yb[slc]
        except Exception as e:
            return {'error': 'slice failed: %s' % e}
        if region.shape != tb.shape or not np.array_equal(region, tb):
            return {'error': 'block %r is not found at the position its sub-index table assigns' % (s,), 'sector': list(map(str, s))}
        seen.setdefault(ns, np.zeros(yb.shape, dtype=bool))
        if seen[ns][slc].any():
            return {'error': 'two sub-blocks overlap inside fused block %r' % (ns,)}
        seen[ns][slc] = True
        total_x += 1
    for ns, yb in y.blocks.items():
        m = seen.get(ns)
        if m is None:
            if np.any(np.asarray(yb) != 0):
                return {'error': 'fused block %r has content that comes from nowhere' % (ns,)}
        elif np.any(np.asarray(yb)[~m] != 0):
            return {'error': 'fused block %r is non-zero outside the relocated sub-blocks' % (ns,)}
    return None


def same_blocks(a, b):
    return set(a.blocks) == set(b.blocks) and all(np.array_equal(np.asarray(a.blocks[k]), np.asarray(b.blocks[k]))
                                                  and np.asarray(a.blocks[k]).dtype == np.asarray(b.blocks[k]).dtype for k in a.blocks) \
        and all(i.chargemap == j.chargemap and i.dual == j.dual for i, j in zip(a.indices, b.indices)) and a.ndim == b.ndim


def run(ctx):
    import symmray as sr
    import symmray.abelian_core as ac
    ok = common.standard_proof_phase(ctx)
    rng = ctx.rng
    n_cases = 1200 if ctx.thorough else 220
    exprs, meta, found = [], [], []
    concat_cases = []
    unfuse_cases = []          # (unfusegen) the fused arrays and fused axes that are unfused below
    stats = {'single_axis_group': 0, 'first_axis_dual_mixed': 0, 'missing_subblock': 0, 'nested': 0, 'position_not_first_group': 0,
             'non_increasing_group': 0, 'multi_group': 0}
    for k in range(n_cases):
        sym = SYMS[k % len(SYMS)]
        cplx = rng.random() < 0.25
        nd = rng.randint(2, 4)
        x = gen.rand_array(rng, sr, sym, ndim=nd, cplx=cplx, maxsize=2 if nd == 4 else 3, keep=rng.choice([1.0, 0.8, 0.6, 0.5, 0.3]))
        if rng.random() < 0.3 and x.blocks:
            # other element types (same integer values): bit-for-bit includes the type of every block
            dt = rng.choice(['complex64'] if cplx else ['float32', 'int64'])
            x = x.copy_with(blocks={kk: np.asarray(v).astype(dt) for kk, v in x.blocks.items()})
            stats['dtype_' + dt] = stats.get('dtype_' + dt, 0) + 1
        nested = False
        if rng.random() < 0.25 and nd >= 3 and x.blocks:
            # start from an already-fused array (nested sub-index tables)
            a0, a1 = sorted(rng.sample(range(nd), 2))
            try:
                x = x.fuse((a0, a1))
            except Exception as e:   # (tie-helpers) the preparatory fuse itself fails: a finding, not a crash of the check
                found.append({'op': 'fuse', 'symmetry': sym, 'x': describe(x), 'groups': [[a0, a1]], 'raised': '%s: %s' % (type(e).__name__, e)})
                continue
            nested = True
            stats['nested'] += 1
        nd = x.ndim
        if nd < 1:
            continue
        groups = rand_groups(rng, nd)
        ring = gen.ring_of(x)
        A = '%s %s' % (sym, ring)
        X = gen.garray(x, sym, ring)
        gl = '[' + '; '.join(gen.gnatlist(g) for g in groups) + ']'
        if any(len(g) == 1 for g in groups):
            stats['single_axis_group'] += 1
        if len(groups) > 1:
            stats['multi_group'] += 1
        if min(groups[0]) != min(min(g) for g in groups):
            stats['position_not_first_group'] += 1
        if any(list(g) != sorted(g) for g in groups):
            stats['non_increasing_group'] += 1
        if any(len(g) > 1 and x.indices[g[0]].dual and any(not x.indices[a].dual for a in g) for g in groups):
            stats['first_axis_dual_mixed'] += 1
        results = {}
        for mode in ('insert', 'concat'):
            for cache in (True, False):
                ctx.count()
                old = ac._fuseinfo_cache_maxsize
                if not cache:
                    ac._fuseinfo_cache_maxsize = 0
                try:
                    y = x.fuse(*groups, mode=mode)
                    results[(mode, cache)] = y
                except Exception as e:
                    if x.blocks:
                        found.append({'op': 'fuse', 'mode': mode, 'cache': cache, 'symmetry': sym, 'x': describe(x), 'groups': groups,
                                      'raised': '%s: %s' % (type(e).__name__, e),
                                      'replay': rl.record('fuse', {'x': x}, {'symmetry': sym, 'groups': groups})})
                finally:
                    ac._fuseinfo_cache_maxsize = old
        if not results:
            continue
        y0 = results[('insert', True)] if ('insert', True) in results else next(iter(results.values()))
        for key, y in results.items():
            if not same_blocks(y, y0):
                found.append({'op': 'fuse', 'symmetry': sym, 'x': describe(x), 'groups': groups,
                              'error': 'strategy/cache setting %r gives a different result than insert+cache' % (key,),
                              'replay': rl.record('fuse', {'x': x}, {'symmetry': sym, 'groups': groups})})
        bad = relocation_oracle(sym, x, y0, groups) if x.blocks else None
        if bad:
            found.append({'op': 'fuse', 'symmetry': sym, 'x': describe(x), 'groups': groups, **bad,
                          'replay': rl.record('fuse', {'x': x}, {'symmetry': sym, 'groups': groups})})
        # the same groups on the conjugated array, fuse cache warm from the call above
        if x.blocks:
            try:
                ctx.count()
                xc = x.conj()
                yc = xc.fuse(*groups)
                badc = relocation_oracle(sym, xc, yc, groups)
                old = ac._fuseinfo_cache_maxsize
                ac._fuseinfo_cache_maxsize = 0
                try:
                    yc0 = xc.fuse(*groups)
                finally:
                    ac._fuseinfo_cache_maxsize = old
                if badc is None and not same_blocks(yc, yc0):
                    badc = {'error': 'warm-cache fuse of the conjugated array differs from the cache-free result'}
                if badc:
                    found.append({'op': 'fuse (after fusing the un-conjugated array, warm cache)', 'symmetry': sym, 'x': describe(xc),
                                  'groups': groups, **badc,
                                  'replay': rl.record('fuse_conj', {'x': x}, {'symmetry': sym, 'groups': groups})})
            except Exception as e:
                found.append({'op': 'fuse(conj)', 'symmetry': sym, 'x': describe(x), 'groups': groups, 'raised': '%s: %s' % (type(e).__name__, e),
                              'replay': rl.record('fuse_conj', {'x': x}, {'symmetry': sym, 'groups': groups})})
        nvalid = len(refsym.valid_sectors(sym, [sorted(ix.chargemap) for ix in x.indices], [ix.dual for ix in x.indices], x.charge)) if not nested else None
        sparse = nvalid is not None and 0 < len(x.blocks) < nvalid
        if sparse:
            stats['missing_subblock'] += 1
        if (sparse or nested) and any(len(g) > 1 for g in groups):
            ctx.nontrivial((sym, str(sorted(x.blocks)), str(groups), nested))
        if x.blocks:
            exprs.append('aarray_eqb %s (a_fuse %s %s %s) %s' % (A, A, X, gl, gen.garray(y0, sym, ring)))
            meta.append(('fuse', sym, k, str(groups)))
            concat_cases.append((sym, x, groups))
        # ---- unfuse: every original block back bit-for-bit, extra blocks exactly zero
        try:
            ctx.count()
            z = y0.copy()
            position = min(min(g) for g in groups)
            for g in reversed(range(len(groups))):
                if len(groups[g]) > 1:
                    z1 = z.unfuse(position + g)
                    if x.blocks:
                        exprs.append('match a_unfuse %s %s %d%%nat with Some c => aarray_eqb %s c %s | None => false end' % (
                            A, gen.garray(z, sym, ring), position + g, A, gen.garray(z1, sym, ring)))
                        meta.append(('unfuse', sym, k, str(groups)))
                        unfuse_cases.append((sym, z, position + g))
                    z = z1
            grouped = {ax for ga in groups for ax in ga}
            perm = [ax for ax in range(position) if ax not in grouped] + [a for ga in groups for a in ga] + \
                   [ax for ax in range(position, nd) if ax not in grouped]
            xt = x.transpose(tuple(perm))
            errs = None
            if z.ndim != xt.ndim or any(i.chargemap != j.chargemap or i.dual != j.dual or (i.subinfo is None) != (j.subinfo is None)
                                        for i, j in zip(z.indices, xt.indices)):
                errs = {'error': 'unfusing does not restore the index structure'}
            else:
                for s, b in xt.blocks.items():
                    if s not in z.blocks or not np.array_equal(np.asarray(z.blocks[s]), np.asarray(b)) \
                            or np.asarray(z.blocks[s]).dtype != np.asarray(b).dtype:
                        errs = {'error': 'original block %r not restored bit-for-bit (values or element type)' % (s,)}
                        break
                else:
                    for s, b in z.blocks.items():
                        if s not in xt.blocks and np.any(np.asarray(b) != 0):
                            errs = {'error': 'extra block %r after unfusing is not zero' % (s,)}
            if errs:
                found.append({'op': 'fuse+unfuse', 'symmetry': sym, 'x': describe(x), 'groups': groups, **errs,
                              'replay': rl.record('fuse_unfuse', {'x': x}, {'symmetry': sym, 'groups': groups})})
            if nested:
                za = y0.unfuse_all()
                exprs.append('aarray_eqb %s (a_unfuse_all %s %s) %s' % (A, A, gen.garray(y0, sym, ring), gen.garray(za, sym, ring)))
                meta.append(('unfuse_all', sym, k, str(groups)))
        except Exception as e:
            found.append({'op': 'unfuse', 'symmetry': sym, 'x': describe(x), 'groups': groups, 'raised': '%s: %s' % (type(e).__name__, e),
                          'replay': rl.record('fuse_unfuse', {'x': x}, {'symmetry': sym, 'groups': groups})})
        if k < 2:
            ctx.sample({'symmetry': sym, 'groups': groups, 'x': describe(x)})
    # ---- rank 4, two two-axis groups, sparse, element types other than the default: the concat strategy has to make zero
    #      fillers for missing sub-blocks of the right type; both strategies and the way back are compared bit for bit
    for k in range(n_cases // 2):
        sym = SYMS[k % len(SYMS)]
        cplx = rng.random() < 0.3
        x = gen.rand_array(rng, sr, sym, ndim=4, cplx=cplx, maxsize=2, keep=rng.choice([0.9, 0.7, 0.5]))
        if not x.blocks:
            continue
        dt = rng.choice(['complex64'] if cplx else ['float32', 'int64', 'float64'])
        x = x.copy_with(blocks={kk: np.asarray(v).astype(dt) for kk, v in x.blocks.items()})
        pp = list(range(4)); rng.shuffle(pp)
        groups = [pp[:2], pp[2:]]
        stats['two_group_typed'] = stats.get('two_group_typed', 0) + 1
        try:
            ctx.count(2)
            ya, yb = x.fuse(*groups, mode='insert'), x.fuse(*groups, mode='concat')
            errs = None
            if not same_blocks(ya, yb):
                errs = {'error': 'insert and concat differ (values or element types %r / %r)' % (
                    sorted({str(np.asarray(b).dtype) for b in ya.blocks.values()}), sorted({str(np.asarray(b).dtype) for b in yb.blocks.values()}))}
            else:
                z = yb.unfuse(1).unfuse(0)
                xt = x.transpose(tuple(groups[0] + groups[1]))
                for sct, b in xt.blocks.items():
                    zb = z.blocks.get(sct)
                    if zb is None or not np.array_equal(np.asarray(zb), np.asarray(b)) or np.asarray(zb).dtype != np.asarray(b).dtype:
                        errs = {'error': 'original block %r not restored bit-for-bit (values or element type) by the concat route' % (sct,)}
                        break
            if errs:
                found.append({'op': 'fuse (two groups, %s data)' % dt, 'symmetry': sym, 'x': describe(x), 'groups': groups, **errs,
                              'replay': rl.record('fuse', {'x': x}, {'symmetry': sym, 'groups': groups})})
        except Exception as e:
            found.append({'op': 'fuse (two groups, %s data)' % dt, 'symmetry': sym, 'x': describe(x), 'groups': groups,
                          'raised': '%s: %s' % (type(e).__name__, e)})
    # ---- fermionic arrays, with and without pending (lazy) signs: both strategies agree, the lazy and the
    #      synchronised copy fuse to the same array, and unfusing restores the (transposed) original exactly
    fstats = {'cases': 0, 'pending_signs': 0, 'identity_perm_ket_leading': 0, 'odd_blocks': 0}
    fexprs, fmeta = [], []   # (C05h) model cases of the fermionic round-trip theorems
    for k in range(n_cases // 2):
        sym = ['Z2', 'U1', 'Z2Z2', 'U1U1'][k % 4]
        nd = rng.randint(2, 4)
        try:
            x = gen.rand_array(rng, sr, sym, ndim=nd, cplx=rng.random() < 0.25, maxsize=2, fermionic=True, oddpos=rng.randint(1, 9),
                               keep=rng.choice([1.0, 1.0, 0.7, 0.5]), lo=-2, hi=2)
            x = gen.rand_lazy(rng, sr, x)
            xs = x.phase_sync()
        except Exception as e:
            found.append({'op': 'fermionic setup', 'symmetry': sym, 'raised': '%s: %s' % (type(e).__name__, e)})
            continue
        if not x.blocks:
            continue
        if rng.random() < 0.5:
            # contiguous increasing groups led by a non-dual axis: fuse itself generates no sign
            a0 = rng.randint(0, nd - 2); a1 = rng.randint(a0 + 1, nd - 1)
            groups = [list(range(a0, a1 + 1))]
            if a0 >= 2 and rng.random() < 0.5:
                groups = [list(range(0, a0))] + groups
        else:
            groups = rand_groups(rng, nd)
        fstats['cases'] += 1
        if x.phases:
            fstats['pending_signs'] += 1
        position = min(min(g) for g in groups)
        grouped = {ax for ga in groups for ax in ga}
        perm = [ax for ax in range(position) if ax not in grouped] + [a for ga in groups for a in ga] + \
               [ax for ax in range(position, nd) if ax not in grouped]
        if perm == list(range(nd)) and not any(x.indices[g[0]].dual for g in groups):
            fstats['identity_perm_ket_leading'] += 1
        rp = None
        try:
            ctx.count(2)
            outs = {}
            # (FermionicArray.fuse has no strategy argument: the strategy is picked from the block count)
            for nm, inp in (('lazy', x), ('synced', xs)):
                outs[('auto', nm)] = inp.fuse(*groups).phase_sync()
            ref = outs[('auto', 'synced')]
            errs = None
            for key, y in outs.items():
                if not same_blocks(y, ref):
                    errs = {'error': 'fusing the %s copy with strategy %s differs from fusing the synchronised copy' % (key[1],)}
            # unfuse back
            z = outs[('auto', 'lazy')]
            for g in reversed(range(len(groups))):
                if len(groups[g]) > 1:
                    z = z.unfuse(position + g)
            z = z.phase_sync()
            xt = xs.transpose(tuple(perm)).phase_sync()
            # (C05h) tie of Props/C05h.v: f_fuse with SEVERAL groups, and the iteration f_unfuse_groups the
            # round-trip theorem is stated over, against the implementation (values with pending signs, labels)
            if len(fexprs) < (400 if ctx.thorough else 120):
                fring = gen.ring_of(x)
                FA = '%s %s' % (sym, fring)
                FX = gen.gfarray(x, sym, fring)
                fgl = '[' + '; '.join(gen.gnatlist(g) for g in groups) + ']'
                yl = x.fuse(*groups)
                zl = yl
                for g in reversed(range(len(groups))):
                    if len(groups[g]) > 1:
                        zl = zl.unfuse(position + g)
                fexprs.append('farray_eqb %s (f_fuse %s %s %s) %s' % (FA, FA, FX, fgl, gen.gfarray(yl, sym, fring)))
                fmeta.append(('Fermi.f_fuse', sym, k, str(groups)))
                fexprs.append('match f_unfuse_groups %s (f_fuse %s %s %s) %d%%nat %s with Some c => farray_eqb %s c %s | None => false end' % (
                    FA, FA, FX, fgl, position, fgl, FA, gen.gfarray(zl, sym, fring)))
                fmeta.append(('FermiFuseRoundtrip.f_unfuse_groups', sym, k, str(groups)))
                ctx.count(2)
            if errs is None:
                if z.ndim != xt.ndim or any(i.chargemap != j.chargemap or i.dual != j.dual for i, j in zip(z.indices, xt.indices)):
                    errs = {'error': 'unfusing does not restore the index structure'}
                else:
                    for sct, b in xt.blocks.items():
                        if sct not in z.blocks or not np.array_equal(np.asarray(z.blocks[sct]), np.asarray(b)):
                            errs = {'error': 'original block %r not restored bit-for-bit' % (sct,)}
                            break
                    else:
                        for sct, b in z.blocks.items():
                            if sct not in xt.blocks and np.any(np.asarray(b) != 0):
                                errs = {'error': 'extra block %r after unfusing is not zero' % (sct,)}
            if errs:
                found.append({'op': 'fermionic fuse+unfuse', 'symmetry': sym, 'x': describe(x), 'pending_signs': {str(kk): v for kk, v in x.phases.items()},
                              'groups': groups, **errs})
        except Exception as e:
            found.append({'op': 'fermionic fuse+unfuse', 'symmetry': sym, 'x': describe(x), 'groups': groups,
                          'raised': '%s: %s' % (type(e).__name__, e)})
        if x.phases and any(len(g) > 1 for g in groups):
            ctx.nontrivial(('fermi', sym, str(sorted(x.blocks)), str(sorted(x.phases)), str(groups)))
    stats['fermionic'] = fstats
    bad_idx = common.run_cases(ctx, 'fuse', IMPORTS, '', exprs, shard=40)
    tie_broken = []
    import tie_prims
    tie_broken += tie_prims.tie(ctx)
    import tie_concat
    tie_broken += tie_concat.tie(ctx, sr, concat_cases)
    found += tie_concat.found
    fbad = common.run_cases(ctx, 'ffuse', IMPORTS_F, '', fexprs, shard=40)
    if fbad is None:
        tie_broken.append('cases.v (fermionic f_fuse / f_unfuse_groups model vs implementation) did not evaluate')
    elif fbad:
        tie_broken += ['%s disagrees with the implementation (symmetry %s, case %d, groups %s)' % fmeta[i] for i in fbad[:10]]
        ctx.extra['disagreeing_fermionic_cases'] = [fexprs[i][:3000] for i in fbad[:2]]
    if bad_idx is None:
        tie_broken.append('cases.v (fuse/unfuse model vs implementation) did not evaluate')
    elif bad_idx:
        tie_broken += ['Model.%s disagrees with the implementation (symmetry %s, case %d, groups %s)' % meta[i] for i in bad_idx[:10]]
        ctx.extra['disagreeing_cases'] = [exprs[i][:3000] for i in bad_idx[:2]]
    for f in found[:5]:
        ctx.violation('%s violates exact re-indexing' % f['op'], {'oracle': 'element relocation by the result\'s own sub-index table; round trip; insert == concat; cache on == off', **f, 'run': rl.run_info(ctx)})
    ctx.broken += tie_broken
    if (not ok or tie_broken) and not found:
        ctx.violation('proof obligation or tie of C05 no longer checks',
                      {'broken': ctx.broken, 'replay': rl.record('proof_phase')}, found_input=False)
    ctx.extra['case_classes'] = stats
    ctx.extra['tie'] = {'model_cases': len(exprs), 'fermionic_model_cases': len(fexprs)}
    ctx.coverage['rule'] = ('random abelian arrays (rank 2-4, five symmetries, random dualness/charge, any subset of valid sectors stored, real and '
                            'Gaussian-integer data, a quarter already fused once) x random disjoint axis groups in random order (single-axis, '
                            'permuted, non-adjacent) x strategies insert/concat x cache on/off; non-trivial = a multi-axis group on a sparse or '
                            'already-fused array; distinct by (symmetry, stored sectors, groups); plus fermionic arrays with pending signs '
                            '(lazy vs synchronised copy fuse alike, unfuse restores the transposed original bit-for-bit)')

    # ---- BEGIN tie-helpers block (harness/tie_helpers.py): translated helpers vs the Python source
    import tie_helpers
    tb = tie_helpers.tie(ctx, parts=('helpers',))
    fi = tie_helpers.failing_inputs(ctx, parts=('helpers',))
    for f in fi[:3]:
        ctx.violation('%s differs from its specification' % f['op'], f)
    if tb:
        ctx.broken += tb
        if not fi and not ctx.violations:
            ctx.violation('tie of C05 (Gen/Helpers.v vs abelian_core.py) no longer checks', {'broken': tb}, found_input=False)
    # ---- END tie-helpers block

    # ---- BEGIN fusegen block (harness/tie_fusegen.py, own shard and imports): the GENERATED calc_fuse_block_info /
    #      _fuse_blocks_via_insert of Gen/FuseGen.v (tr/gen_fuse.py, Props/C05i.v) vs the implementation, called
    #      directly (no fuse cache in front of it), on the arrays and groups generated above
    try:
        import tie_fusegen
        old_cache = ac._fuseinfo_cache_maxsize
        ac._fuseinfo_cache_maxsize = 0
        try:
            fg = tie_fusegen.tie(ctx, sr, concat_cases)
        finally:
            ac._fuseinfo_cache_maxsize = old_cache
    except Exception as e:
        fg = ['tie of Gen/FuseGen.v could not be evaluated: %s: %s' % (type(e).__name__, e)]
    st = ctx.extra.get('tie_fusegen', {})
    ctx.extra['tie']['fusegen_info_cases'] = st.get('info_cases', 0)
    ctx.extra['tie']['fusegen_insert_cases'] = st.get('insert_cases', 0)
    if fg:
        ctx.broken += fg
        if not ctx.violations:
            ctx.violation('tie of C05 (Gen/FuseGen.v vs calc_fuse_block_info / _fuse_blocks_via_insert) no longer checks',
                          {'broken': fg}, found_input=False)
    # ---- END fusegen block

    # ---- BEGIN unfusegen block (harness/tie_unfusegen.py, own shard and imports): the GENERATED AbelianArray.unfuse of
    #      Gen/UnfuseGen.v (tr/gen_unfuse.py, Props/C05j.v) vs `y.unfuse(axis)` / `y.unfuse_all()` (whole record, block order included) on
    #      the fused arrays produced above
    try:
        import tie_unfusegen
        ug = tie_unfusegen.tie(ctx, sr, unfuse_cases)
    except Exception as e:
        ug = ['tie of Gen/UnfuseGen.v could not be evaluated: %s: %s' % (type(e).__name__, e)]
    st = ctx.extra.get('tie_unfusegen', {})
    ctx.extra['tie']['unfusegen_cases'] = st.get('unfuse_cases', 0) + st.get('inplace_cases', 0)
    ctx.extra['tie']['unfusegen_unfuse_all_cases'] = st.get('unfuse_all_cases', 0)
    ctx.extra['tie']['unfusegen_refused_cases'] = st.get('refused_cases', 0)
    if ug:
        ctx.broken += ug
        if not ctx.violations:
            ctx.violation('tie of C05 (Gen/UnfuseGen.v vs AbelianArray.unfuse) no longer checks', {'broken': ug}, found_input=False)
    # ---- END unfusegen block

    # ---- BEGIN concatgen block (harness/tie_concatgen.py, own shard and imports): the GENERATED _fuse_blocks_via_concat of
    #      Gen/ConcatGen.v (tr/gen_concat.py, Props/C05k.v) vs `abelian_core._fuse_blocks_via_concat`, called directly on the
    #      implementation's own tables (no fuse cache in front of calc_fuse_block_info), on the arrays and groups generated above
    try:
        import tie_concatgen
        old_cache = ac._fuseinfo_cache_maxsize
        ac._fuseinfo_cache_maxsize = 0
        try:
            cg = tie_concatgen.tie(ctx, sr, concat_cases)
        finally:
            ac._fuseinfo_cache_maxsize = old_cache
    except Exception as e:
        cg = ['tie of Gen/ConcatGen.v could not be evaluated: %s: %s' % (type(e).__name__, e)]
    st = ctx.extra.get('tie_concatgen', {})
    ctx.extra['tie']['concatgen_cases'] = st.get('concat_cases', 0)
    ctx.extra['tie']['concatgen_filler_cases'] = st.get('with_filler', 0)
    if cg:
        ctx.broken += cg
        if not ctx.violations:
            ctx.violation('tie of C05 (Gen/ConcatGen.v vs _fuse_blocks_via_concat) no longer checks', {'broken': cg}, found_input=False)
    # ---- END concatgen block

# ------------------------------------------------------------------ replay
def _fuse_all_ways(x, groups):
    """fuse with both strategies, cache on and off; returns (results, failures)"""
    import symmray.abelian_core as ac
    results, fails = {}, []
    for mode in ('insert', 'concat'):
        for cache in (True, False):
            old = ac._fuseinfo_cache_maxsize
            if not cache:
                ac._fuseinfo_cache_maxsize = 0
            try:
                results[(mode, cache)] = x.fuse(*groups, mode=mode)
            except Exception as e:
                if x.blocks:
                    fails.append({'what': 'x.fuse(*%r, mode=%r) with the fuse cache %s raises' % (groups, mode, 'on' if cache else 'off'),
                                  'expected': 'the fused array', 'got': '%s: %s' % (type(e).__name__, e)})
            finally:
                ac._fuseinfo_cache_maxsize = old
    return results, fails


def _groups(pr):
    return [tuple(g) for g in pr['groups']]


def _rp_fuse(sr, ins, pr, r):
    """all four (strategy, cache) settings agree and the element relocation oracle accepts the result"""
    x, groups, sym = ins['x'], _groups(pr), pr['symmetry']
    results, fails = _fuse_all_ways(x, groups)
    if not results:
        return fails
    y0 = results[('insert', True)] if ('insert', True) in results else next(iter(results.values()))
    for key, y in results.items():
        if not same_blocks(y, y0):
            fails.append({'what': 'strategy/cache setting %r gives a different result than insert+cache' % (key,),
                          'expected': describe(y0)['blocks'], 'got': describe(y)['blocks']})
    if x.blocks:
        fails += rl.fail_from(relocation_oracle(sym, x, y0, groups), 'x.fuse(*%r): element relocation by the result\'s own sub-index table' % (groups,))
    return fails


def _rp_fuse_conj(sr, ins, pr, r):
    """fuse x (warms the cache), then the same groups on conj(x): relocation oracle; warm cache == no cache"""
    import symmray.abelian_core as ac
    x, groups, sym = ins['x'], _groups(pr), pr['symmetry']
    _fuse_all_ways(x, groups)
    try:
        xc = x.conj()
        yc = xc.fuse(*groups)
        badc = relocation_oracle(sym, xc, yc, groups)
        old = ac._fuseinfo_cache_maxsize
        ac._fuseinfo_cache_maxsize = 0
        try:
            yc0 = xc.fuse(*groups)
        finally:
            ac._fuseinfo_cache_maxsize = old
        if badc is None and not same_blocks(yc, yc0):
            badc = {'error': 'warm-cache fuse of the conjugated array differs from the cache-free result',
                    'expected': describe(yc0)['blocks'], 'got': describe(yc)['blocks']}
    except Exception as e:
        badc = {'raised': '%s: %s' % (type(e).__name__, e)}
    return rl.fail_from(badc, 'x.conj().fuse(*%r) after x.fuse(*%r)' % (groups, groups))


def _rp_fuse_unfuse(sr, ins, pr, r):
    """unfusing returns every original block bit-for-bit; extra blocks are exactly zero"""
    x, groups = ins['x'], _groups(pr)
    nd = x.ndim
    results, fails = _fuse_all_ways(x, groups)
    if not results:
        return fails
    y0 = results[('insert', True)] if ('insert', True) in results else next(iter(results.values()))
    errs = None
    try:
        z = y0.copy()
        position = min(min(g) for g in groups)
        for g in reversed(range(len(groups))):
            if len(groups[g]) > 1:
                z = z.unfuse(position + g)
        grouped = {ax for ga in groups for ax in ga}
        perm = [ax for ax in range(position) if ax not in grouped] + [a for ga in groups for a in ga] + \
               [ax for ax in range(position, nd) if ax not in grouped]
        xt = x.transpose(tuple(perm))
        if z.ndim != xt.ndim or any(i.chargemap != j.chargemap or i.dual != j.dual or (i.subinfo is None) != (j.subinfo is None)
                                    for i, j in zip(z.indices, xt.indices)):
            errs = {'error': 'unfusing does not restore the index structure'}
        else:
            for s, b in xt.blocks.items():
                if s not in z.blocks or not np.array_equal(np.asarray(z.blocks[s]), np.asarray(b)):
                    errs = {'error': 'original block %r not restored bit-for-bit' % (s,), 'expected': np.asarray(b).tolist(),
                            'got': np.asarray(z.blocks[s]).tolist() if s in z.blocks else 'no such block'}
                    break
            else:
                for s, b in z.blocks.items():
                    if s not in xt.blocks and np.any(np.asarray(b) != 0):
                        errs = {'error': 'extra block %r after unfusing is not zero' % (s,), 'expected': 'zeros', 'got': np.asarray(b).tolist()}
        if errs is None and any(ix.subinfo is not None for ix in x.indices):
            y0.unfuse_all()
    except Exception as e:
        errs = {'raised': '%s: %s' % (type(e).__name__, e)}
    return rl.fail_from(errs, 'x.fuse(*%r) then unfuse' % (groups,))


ORACLES = {'fuse': _rp_fuse, 'fuse_conj': _rp_fuse_conj, 'fuse_unfuse': _rp_fuse_unfuse}


def replay(path):
    """re-run the recorded failing case against $SYMMRAY_REPO: 1 = still fails, 0 = passes now"""
    import sys
    return rl.dispatch(path, 'C05', ORACLES, sys.modules[__name__])
