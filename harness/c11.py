"""C11 — decompositions reconstruct the input from properly structured factors.

Correspondence: STRUCTURE of qr / svd / eigh / solve (sectors, index tables,
directions, charges, bond tables, pending-sign tables, labels) of the real run
against Model/Linalg.v instantiated with shape-only stand-in oracles (factor
data replaced by integer stand-ins).  Oracle (tolerance allowed here only):
reconstruction through the library's own contraction in both modes, per-block
orthonormality / triangularity / ordering, bond structure, charge and residual
of the solution."""
import json

import numpy as np

import common
import gen
import refsym

IMPORTS = ('From SV Require Import Base.Sym Base.Tensor Gen.PhasePerm Model.SymInst Model.Sectors Model.Array Model.Arith '
           'Model.Fermi Model.Linalg.\n')
PREAMBLE = '''
Definition bvec_eqb (G : Symmetry) (R : Ring) (a b : bvec G R) : bool :=
  Nat.eqb (length a) (length b) &&
  forallb (fun p => match lookup (ceqb G) (fst p) b with Some t => tensor_eqb R (snd p) t | None => false end) a.
'''
# run-time tie of the TRANSLATED structural code (Gen/LinalgGen.v, tr/gen_linalg.py): own shard and imports, so
# that the hand-model cases above still evaluate when the generated file is missing
GEN_IMPORTS = IMPORTS + 'From SV Require Import Gen.LinalgGen.\n'
GEN_NAMES = {'a_qr': 'qr_gen', 'f_qr': 'qr_fermionic_gen', 'a_svd': 'svd_gen', 'f_svd': 'svd_fermionic_gen',
             'a_eigh': 'eigh_gen', 'f_eigh': 'eigh_fermionic_gen', 'a_solve': 'solve_gen', 'f_solve': 'solve_fermionic_gen'}
SYMS = ['Z2', 'U1', 'Z2Z2', 'U1U1', 'Z4']
TOL = 1e-8
FAMILIES = ('solve_fermionic_odd_matrix',)


# ------------------------------------------------------------------ description / rebuilding (replay)
def cnum(v):
    v = complex(v)
    return [v.real, v.imag]


def blk_to_json(b):
    b = np.asarray(b)
    return {'shape': list(b.shape), 'data': [cnum(v) for v in b.reshape(-1)], 'complex': bool(np.iscomplexobj(b))}


def blk_from_json(d):
    a = np.array([complex(r, i) for r, i in d['data']], dtype='complex128').reshape(d['shape'])
    return a if d['complex'] else np.real(a).astype('float64')


def ch_json(c):
    return list(c) if isinstance(c, tuple) else c


def ch_back(c):
    return tuple(c) if isinstance(c, list) else c


def describe(x):
    """flat description of an array without fused indices (enough to rebuild it)"""
    d = {'class': type(x).__name__, 'fermionic': hasattr(x, 'phases'), 'charge': ch_json(x.charge),
         'indices': [{'chargemap': [[ch_json(c), n] for c, n in ix.chargemap.items()], 'dual': ix.dual} for ix in x.indices],
         'blocks': [[[ch_json(c) for c in s], blk_to_json(b)] for s, b in x.blocks.items()]}
    if hasattr(x, 'phases'):
        d['phases'] = [[ch_json(c) for c in s] for s, p in x.phases.items() if p == -1]
        d['oddpos'] = [[o.label, bool(o.dual)] for o in x.oddpos]
    return d


def rebuild(sr, sym, d):
    ixs = [sr.BlockIndex({ch_back(c): n for c, n in i['chargemap']}, dual=i['dual']) for i in d['indices']]
    blocks = {tuple(ch_back(c) for c in s): blk_from_json(b) for s, b in d['blocks']}
    if d['fermionic']:
        lab = d['oddpos'][0][0] if d['oddpos'] else None
        x = sr.FermionicArray(indices=ixs, charge=ch_back(d['charge']), blocks=blocks, oddpos=lab, symmetry=sym)
        x.modify(phases={tuple(ch_back(c) for c in s): -1 for s in d['phases']})
        return x
    return sr.AbelianArray(indices=ixs, charge=ch_back(d['charge']), blocks=blocks, symmetry=sym)


def recipe(base, groups, x):
    """how the test matrix was made: a base array, optionally fused by `groups`, then given the pending signs of x"""
    r = {'base': describe(base), 'fuse': [list(g) for g in groups] if groups else None}
    if hasattr(x, 'phases'):
        r['final_phases'] = [[ch_json(c) for c in s] for s, p in x.phases.items() if p == -1]
    return r


def from_recipe(sr, sym, r):
    x = rebuild(sr, sym, r['base'])
    if r.get('fuse'):
        x = x.fuse(*[tuple(g) for g in r['fuse']])
    if 'final_phases' in r:
        x.modify(phases={tuple(ch_back(c) for c in s): -1 for s in r['final_phases']})
    return x


# ------------------------------------------------------------------ generation
def float_block(rng, shape, cplx, kind):
    n = int(np.prod(shape))
    a = np.array([rng.gauss(0, 1) for _ in range(n)]).reshape(shape)
    if cplx:
        a = a + 1j * np.array([rng.gauss(0, 1) for _ in range(n)]).reshape(shape)
    if kind == 'dup_rows' and shape[0] >= 2:
        a[-1] = a[0]
    elif kind == 'dup_cols' and len(shape) > 1 and shape[1] >= 2:
        a[:, -1] = 2 * a[:, 0]
    elif kind == 'zero':
        a = a * 0
    elif kind == 'int':
        a = np.round(2 * a)
    return a


def floatify(rng, x, cplx, deficient=0.25):
    """replace the (integer) blocks of x by float data; some blocks rank-deficient"""
    kinds = {}
    for s in list(x.blocks):
        r = rng.random()
        kind = 'generic'
        if r < deficient:
            kind = rng.choice(['dup_rows', 'dup_cols', 'zero', 'int'])
        kinds[s] = kind
        x.blocks[s] = float_block(rng, np.shape(x.blocks[s]), cplx, kind)
    return kinds


def rand_matrix(rng, sr, sym, ferm, cplx, fused=None, lazy=True, keep=None, maxsize=4):
    """(x, recipe): a matrix, direct or by fusing a rank-3/4 array; fermionic ones may carry pending signs"""
    if fused is None:
        fused = rng.random() < 0.3
    groups = None
    kw = dict(cplx=False, fermionic=ferm, keep=keep if keep is not None else rng.choice([1.0, 1.0, 0.8, 0.6, 0.5, ('drop', 1), ('drop', 2)]))
    if ferm:
        kw['oddpos'] = rng.randint(1, 9)
    if fused:
        nd = rng.choice([3, 3, 4])
        base = gen.rand_array(rng, sr, sym, ndim=nd, maxcharges=2, maxsize=2, **kw)
        axes = list(range(nd)); rng.shuffle(axes)
        k = rng.randint(1, nd - 1)
        groups = [tuple(axes[:k]), tuple(axes[k:])]
        if min(groups[0]) > min(groups[1]):
            groups = groups[::-1]           # fused legs are placed by the smallest axis: keep (rows, columns) order
    else:
        cms = [gen.rand_chargemap(rng, sym, maxcharges=3, maxsize=maxsize) for _ in range(2)]
        for cm in cms:
            while len(cm) < 2 and rng.random() < 0.8:
                cm.update(gen.rand_chargemap(rng, sym, maxcharges=3, maxsize=maxsize))
        if rng.random() < 0.4:
            cms[1] = dict(cms[0])
        base = gen.rand_array(rng, sr, sym, chargemaps=cms, **kw)
    floatify(rng, base, cplx)
    x = base.fuse(*groups) if groups else base.copy()
    if ferm and lazy:
        x = gen.rand_lazy(rng, sr, x, steps=rng.randint(0, 3))
    return x, recipe(base, groups, x)


def rand_hermitian(rng, sr, sym, ferm, cplx, lazy=True):
    """charge-zero matrix over (i, i.conj()) (or equal directions for Z2-like groups) with Hermitian blocks"""
    cm = gen.rand_chargemap(rng, sym, maxcharges=3, maxsize=3)
    d0 = rng.random() < 0.5
    kw = dict(fermionic=ferm, keep=rng.choice([1.0, 1.0, 0.7, ('drop', 1)]))
    if ferm:
        kw['oddpos'] = 5
    base = gen.rand_array(rng, sr, sym, chargemaps=[cm, dict(cm)], duals=[d0, not d0], charge=refsym.zero(sym), **kw)
    for s in list(base.blocks):
        n = np.shape(base.blocks[s])[0]
        a = float_block(rng, (n, n), cplx, rng.choice(['generic', 'generic', 'generic', 'dup_rows', 'int']))
        base.blocks[s] = a + a.conj().T
    x = base.copy()
    if ferm and lazy:
        x = gen.rand_lazy(rng, sr, x, steps=rng.randint(0, 3))
    return x, recipe(base, None, x)


def rand_system(rng, sr, sym, ferm, cplx, lazy=True, odd_ok=True):
    """(a, b): a with square, well-conditioned blocks (uniform sizes, any charge / directions), b a vector on a's rows"""
    n = rng.randint(1, 3)
    pool = gen.SMALL[sym]
    cs = rng.sample(pool, rng.randint(1, min(3, len(pool))))
    cm = {c: n for c in cs}
    d0, d1 = rng.random() < 0.5, rng.random() < 0.5
    for _ in range(20):
        ca = gen.pick_charge(rng, sym, [cm, cm], [d0, d1])
        if odd_ok or not (ferm and refsym.par(sym, ca)):
            break
    else:
        ca = refsym.zero(sym); d1 = not d0
    kw = dict(fermionic=ferm)
    a = gen.rand_array(rng, sr, sym, chargemaps=[cm, dict(cm)], duals=[d0, d1], charge=ca,
                       keep=rng.choice([1.0, 1.0, 0.7]), oddpos=3 if ferm else None, **kw)
    for s in list(a.blocks):
        a.blocks[s] = float_block(rng, (n, n), cplx, 'generic') + 3 * np.eye(n)
    b = gen.rand_array(rng, sr, sym, chargemaps=[dict(cm)], duals=[d0], keep=rng.choice([1.0, 1.0, 0.6]),
                       oddpos=7 if ferm else None, **kw)
    for s in list(b.blocks):
        b.blocks[s] = float_block(rng, (n,), cplx, 'generic')
    ra, rb = recipe(a, None, a), recipe(b, None, b)
    if ferm and lazy:
        a = gen.rand_lazy(rng, sr, a, steps=rng.randint(0, 2))
        b = gen.rand_lazy(rng, sr, b, steps=rng.randint(0, 2))
        ra, rb = recipe(rebuild(sr, sym, ra['base']), None, a), recipe(rebuild(sr, sym, rb['base']), None, b)
    return a, b, ra, rb


# ------------------------------------------------------------------ small helpers for the oracle
def close(a, b, scale=1.0):
    a, b = np.asarray(a), np.asarray(b)
    return a.shape == b.shape and bool(np.all(np.abs(a - b) <= TOL * max(1.0, scale)))


def ix_same(i, j):
    """same table, direction and (recursively) sub-index structure"""
    if dict(i.chargemap) != dict(j.chargemap) or list(i.chargemap) != list(j.chargemap) or i.dual != j.dual:
        return False
    if (i.subinfo is None) != (j.subinfo is None):
        return False
    if i.subinfo is not None:
        if dict(i.subinfo.extents) != dict(j.subinfo.extents) or len(i.subinfo.indices) != len(j.subinfo.indices):
            return False
        return all(ix_same(a, b) for a, b in zip(i.subinfo.indices, j.subinfo.indices))
    return True


def labels(x):
    return [(o.label, bool(o.dual)) for o in getattr(x, 'oddpos', ())]


def sector_valid(sym, x, s):
    return refsym.csum(sym, [refsym.signed(sym, c, ix.dual) for c, ix in zip(s, x.indices)]) == x.charge


def value_block(x, s):
    return np.asarray(x.blocks[s]) * (-1 if getattr(x, 'phases', {}).get(s, 1) == -1 else 1)


def same_value_as(res, x, scale):
    """res (from the library's contraction) equals x as a dense matrix over x's tables, same charge and labels"""
    out = []
    if res.charge != x.charge:
        out.append('charge %r instead of %r' % (res.charge, x.charge))
    if labels(res) != labels(x):
        out.append('labels %r instead of %r' % (labels(res), labels(x)))
    if [ix.dual for ix in res.indices] != [ix.dual for ix in x.indices]:
        out.append('directions differ')
    try:
        if not close(gen.densify(res, indices=x.indices), gen.densify(x), scale):
            out.append('dense values differ (max |diff| %.3e)' % float(np.max(np.abs(gen.densify(res, indices=x.indices) - gen.densify(x)))))
    except (KeyError, ValueError) as e:
        out.append('result does not embed into the tables of the input: %s' % e)
    return out


def products(sr, a, b, what):
    """the library's own contractions of two factors: @ and tensordot in both modes"""
    out = []
    for name, f in (('@', lambda: a @ b),
                    ('tensordot blockwise', lambda: sr.tensordot(a, b, 1, mode='blockwise')),
                    ('tensordot fused', lambda: sr.tensordot(a, b, 1, mode='fused'))):
        try:
            out.append((what + ' via ' + name, f()))
        except Exception as e:
            out.append((what + ' via ' + name, e))
    return out


def split_structure(sym, x, left, right, name):
    """bond / charge / sector structure shared by qr and svd.  Returns list of failure strings."""
    f = []
    zero = refsym.zero(sym)
    if left.ndim != 2 or right.ndim != 2:
        return ['%s: factors are not matrices' % name]
    bl, br = left.indices[1], right.indices[0]
    if not ix_same(left.indices[0], x.indices[0]):
        f.append('%s: left factor does not keep the first index' % name)
    if not ix_same(right.indices[1], x.indices[1]):
        f.append('%s: right factor does not keep the second index' % name)
    if left.charge != x.charge:
        f.append('%s: left factor has charge %r, input %r' % (name, left.charge, x.charge))
    if right.charge != zero:
        f.append('%s: right factor has charge %r, not the identity' % (name, right.charge))
    if bl.dual == br.dual:
        f.append('%s: the bond index has the SAME direction on both factors' % name)
    if bl.dual != x.indices[1].dual:
        f.append('%s: the bond on the left factor does not have the direction of the input\'s second index' % name)
    if dict(bl.chargemap) != dict(br.chargemap):
        f.append('%s: bond tables differ between the factors' % name)
    if list(bl.chargemap) != sorted(bl.chargemap) or list(br.chargemap) != sorted(br.chargemap):
        f.append('%s: bond table not sorted' % name)
    if bl.subinfo is not None or br.subinfo is not None:
        f.append('%s: bond index carries sub-index information' % name)
    cols = [s[1] for s in x.blocks]
    if len(bl.chargemap) != len(x.blocks) or set(bl.chargemap) != set(cols):
        f.append('%s: bond has charges %r for input column charges %r (one charge per input block expected)' % (name, list(bl.chargemap), cols))
    if set(left.blocks) != set(x.blocks):
        f.append('%s: left factor sectors %r differ from input sectors' % (name, sorted(left.blocks)))
    if set(right.blocks) != {(c, c) for c in cols}:
        f.append('%s: right factor sectors %r are not (c, c) for the input column charges' % (name, sorted(right.blocks)))
    for fac, nm in ((left, 'left'), (right, 'right')):
        for s, b in fac.blocks.items():
            if not sector_valid(sym, fac, s):
                f.append('%s: %s factor sector %r does not conserve its charge %r' % (name, nm, s, fac.charge))
            want = tuple(ix.chargemap.get(c) for ix, c in zip(fac.indices, s))
            if tuple(np.shape(b)) != want:
                f.append('%s: %s factor block %r has shape %r, tables say %r' % (name, nm, s, np.shape(b), want))
        try:
            fac.check()
        except Exception as e:
            f.append('%s: %s factor fails its own check(): %s' % (name, nm, e))
    for s, b in x.blocks.items():
        if s in left.blocks and bl.chargemap.get(s[1]) != np.shape(left.blocks[s])[1]:
            f.append('%s: bond size of charge %r is %r, the left block has %r columns' % (name, s[1], bl.chargemap.get(s[1]), np.shape(left.blocks[s])[1]))
    return f


# ------------------------------------------------------------------ the oracle
def check_qr(sr, sym, x, stabilized):
    import symmray.linalg as la
    fails, cands = [], []
    name = 'qr(stabilized=%s)' % stabilized
    try:
        q, r = la.qr(x, stabilized=stabilized)
    except Exception as e:
        return ['%s raised %s: %s' % (name, type(e).__name__, e)], cands, None
    fails += split_structure(sym, x, q, r, name)
    scale = max([float(np.max(np.abs(b))) for b in x.blocks.values() if np.size(b)] + [1.0])
    for s, m in x.blocks.items():
        if s not in q.blocks or (s[1], s[1]) not in r.blocks:
            continue
        qb, rb = np.asarray(q.blocks[s]), np.asarray(r.blocks[(s[1], s[1])])
        k = qb.shape[1]
        if not close(qb.conj().T @ qb, np.eye(k)):
            fails.append('%s: Q block %r does not have orthonormal columns' % (name, s))
        if not close(np.tril(rb, -1), 0 * rb, scale):
            fails.append('%s: R block %r is not upper triangular' % (name, (s[1], s[1])))
        if stabilized:
            d = np.diag(rb)
            if not (np.all(np.abs(np.imag(d)) <= TOL * scale) and np.all(np.real(d) >= -TOL * scale)):
                fails.append('%s: stored R block %r has diagonal %r, not real non-negative' % (name, (s[1], s[1]), d.tolist()))
            dv = np.diag(value_block(r, (s[1], s[1])))
            if np.any(np.real(dv) < -TOL * scale):
                cands.append('%s: the VALUE of R block %r (pending sign applied) has negative diagonal' % (name, (s[1], s[1])))
    for what, res in products(sr, q, r, 'q.r'):
        if isinstance(res, Exception):
            fails.append('%s: %s raised %s: %s' % (name, what, type(res).__name__, res))
        else:
            fails += ['%s: %s: %s' % (name, what, e) for e in same_value_as(res, x, scale)]
    return fails, cands, (q, r)


def check_svd(sr, sym, x):
    import symmray.linalg as la
    fails = []
    name = 'svd'
    try:
        u, s, vh = la.svd(x)
    except Exception as e:
        return ['svd raised %s: %s' % (type(e).__name__, e)], None
    fails += split_structure(sym, x, u, vh, name)
    scale = max([float(np.max(np.abs(b))) for b in x.blocks.values() if np.size(b)] + [1.0])
    cols = [sec[1] for sec in x.blocks]
    if set(s.blocks) != set(cols) or len(s.blocks) != len(x.blocks):
        fails.append('svd: singular values keyed by %r, input column charges %r' % (list(s.blocks), cols))
    for sec in x.blocks:
        c = sec[1]
        if sec not in u.blocks or (c, c) not in vh.blocks or c not in s.blocks:
            continue
        ub, vb, sb = np.asarray(u.blocks[sec]), np.asarray(vh.blocks[(c, c)]), np.asarray(s.blocks[c])
        k = ub.shape[1]
        if sb.shape != (k,):
            fails.append('svd: %d singular values for charge %r, U block has %d columns' % (sb.size, c, k))
            continue
        if not close(ub.conj().T @ ub, np.eye(k)):
            fails.append('svd: U block %r does not have orthonormal columns' % (sec,))
        if not close(vb @ vb.conj().T, np.eye(k)):
            fails.append('svd: Vh block %r does not have orthonormal rows' % ((c, c),))
        if np.iscomplexobj(sb) or np.any(sb < 0) or np.any(np.diff(sb) > TOL * scale):
            fails.append('svd: singular values of charge %r are %r: not non-negative non-increasing' % (c, sb.tolist()))
    prods = []
    try:
        us = u.multiply_diagonal(s, 1)
        prods += products(sr, us, vh, '(u.s).vh')
    except Exception as e:
        fails.append('svd: multiply_diagonal(u, s, 1) raised %s: %s' % (type(e).__name__, e))
    try:
        sv = vh.multiply_diagonal(s, 0)
        prods += products(sr, u, sv, 'u.(s.vh)')
    except Exception as e:
        fails.append('svd: multiply_diagonal(vh, s, 0) raised %s: %s' % (type(e).__name__, e))
    for what, res in prods:
        if isinstance(res, Exception):
            fails.append('svd: %s raised %s: %s' % (what, type(res).__name__, res))
        else:
            fails += ['svd: %s: %s' % (what, e) for e in same_value_as(res, x, scale)]
    return fails, (u, s, vh)


def check_eigh(sr, sym, h):
    import symmray.linalg as la
    fails = []
    try:
        w, v = la.eigh(h)
    except Exception as e:
        return ['eigh raised %s: %s' % (type(e).__name__, e)], None
    scale = max([float(np.max(np.abs(b))) for b in h.blocks.values() if np.size(b)] + [1.0])
    if [ix_same(i, j) for i, j in zip(v.indices, h.indices)] != [True, True] or v.charge != h.charge:
        fails.append('eigh: eigenvector array does not keep indices / charge')
    if set(v.blocks) != set(h.blocks):
        fails.append('eigh: eigenvector sectors %r differ from the input sectors' % sorted(v.blocks))
    if set(w.blocks) != {s[1] for s in h.blocks}:
        fails.append('eigh: eigenvalues keyed by %r, input column charges %r' % (list(w.blocks), [s[1] for s in h.blocks]))
    if labels(v) != labels(h):
        fails.append('eigh: labels of the eigenvector array differ')
    for s in h.blocks:
        if s not in v.blocks or s[1] not in w.blocks:
            continue
        vb, wb = value_block(v, s), np.asarray(w.blocks[s[1]])
        n = vb.shape[0]
        if wb.shape != (n,) or vb.shape != (n, n):
            fails.append('eigh: block %r: shapes %r / %r' % (s, vb.shape, wb.shape))
            continue
        if not close(vb.conj().T @ vb, np.eye(n)):
            fails.append('eigh: eigenvector block %r is not unitary' % (s,))
        if np.iscomplexobj(wb) and np.any(np.abs(np.imag(wb)) > TOL * scale):
            fails.append('eigh: eigenvalues of charge %r are not real' % (s[1],))
    try:
        vw = v.multiply_diagonal(w, 1)
        vd = v.dagger() if hasattr(v, 'phases') else v.conj().transpose()
        for what, res in products(sr, vw, vd, '(v.w).v^H'):
            if isinstance(res, Exception):
                fails.append('eigh: %s raised %s: %s' % (what, type(res).__name__, res))
            else:
                fails += ['eigh: %s: %s' % (what, e) for e in same_value_as(res, h, scale)]
    except Exception as e:
        fails.append('eigh: forming v.diag(w).v^H raised %s: %s' % (type(e).__name__, e))
    return fails, (w, v)


def classify_solve(sym, a, b):
    """family of the pinned known finding, decided from the INPUT alone: a fermionic matrix of odd charge"""
    if hasattr(a, 'phases') and refsym.par(sym, a.charge):
        return 'solve_fermionic_odd_matrix'
    return None


def check_solve(sr, sym, a, b):
    import symmray.linalg as la
    fails = []
    try:
        x = la.solve(a, b)
    except Exception as e:
        return ['solve raised %s: %s' % (type(e).__name__, e)], None
    want = refsym.add(sym, b.charge, refsym.neg(sym, a.charge))
    if x.charge != want:
        fails.append('solve: charge of the solution is %r, expected charge(b) - charge(a) = %r' % (x.charge, want))
    if x.ndim != 1 or dict(x.indices[0].chargemap) != dict(a.indices[1].chargemap) or x.indices[0].dual == a.indices[1].dual:
        fails.append('solve: index of the solution is not the conjugate of the second index of a')
    rows = {s[0]: s for s in a.blocks}
    want_secs = {(s[1],) for s in a.blocks if (s[0],) in b.blocks}
    if set(x.blocks) != want_secs:
        fails.append('solve: solution sectors %r, expected %r' % (sorted(x.blocks), sorted(want_secs)))
    for s in x.blocks:
        if refsym.signed(sym, s[0], x.indices[0].dual) != x.charge:
            fails.append('solve: stored sector %r does not conserve the declared charge %r' % (s, x.charge))
    try:
        x.check()
    except Exception as e:
        fails.append('solve: solution fails its own check(): %s' % e)
    if hasattr(x, 'oddpos') and (len(x.oddpos) % 2) != refsym.par(sym, x.charge):
        fails.append('solve: solution of charge %r carries %d odd-position label(s)' % (x.charge, len(x.oddpos)))
    scale = max([float(np.max(np.abs(v))) for v in list(a.blocks.values()) + list(b.blocks.values()) if np.size(v)] + [1.0])
    for name, f in (('a @ x', lambda: a @ x), ('tensordot(a, x, 1) blockwise', lambda: sr.tensordot(a, x, 1, mode='blockwise')),
                    ('tensordot(a, x, 1) fused', lambda: sr.tensordot(a, x, 1, mode='fused'))):
        try:
            ax = f()
        except Exception as e:
            fails.append('solve: %s raised %s: %s' % (name, type(e).__name__, e))
            continue
        if not hasattr(ax, 'blocks'):
            fails.append('solve: %s is not an array' % name)
            continue
        if ax.charge != b.charge:
            fails.append('solve: %s has charge %r, b has %r' % (name, ax.charge, b.charge))
        if labels(ax) != labels(b):
            fails.append('solve: %s carries labels %r, b carries %r' % (name, labels(ax), labels(b)))
        for s in b.blocks:
            if s[0] in rows:                      # the row sector is stored in a: the system is solvable there
                got = value_block(ax, s) if s in ax.blocks else None
                if got is None or not close(got, value_block(b, s), scale * 10):
                    fails.append('solve: %s differs from b on sector %r' % (name, s))
        for s in ax.blocks:
            if s not in b.blocks and not close(value_block(ax, s), 0 * value_block(ax, s), scale * 10):
                fails.append('solve: %s is non-zero on sector %r where b is zero' % (name, s))
    return fails, x


# ------------------------------------------------------------------ serialisation for the structure correspondence
def exactify(x, fill=0.0):
    """factor data replaced by integer stand-ins of the right shapes"""
    y = x.copy()
    for s in list(y.blocks):
        y.blocks[s] = np.full(np.shape(y.blocks[s]), fill)
    return y


def garr(x, sym):
    y = exactify(x)
    return gen.gfarray(y, sym, 'ZRing') if hasattr(x, 'phases') else gen.garray(y, sym, 'ZRing')


def gbvec(blocks, sym, fill=None):
    """block vector: charge -> stand-in (zeros, or per-charge fill value)"""
    parts = []
    for c, b in blocks.items():
        v = 0.0 if fill is None else fill[c]
        parts.append('(%s, %s)' % (gen.gch(c), gen.gtensor(np.full(np.shape(b), v), 'ZRing')))
    return '[' + '; '.join(parts) + ']'


def eqb(x, sym):
    return ('farray_eqb_strict %s ZRing' if hasattr(x, 'phases') else 'aarray_eqb %s ZRing') % sym


def pfx(x):
    return 'f_' if hasattr(x, 'phases') else 'a_'


def expr_qr(sym, x, q, r):
    return ('match %sqr %s ZRing (qr_stub ZRing) %s with Some (q, r) => %s q %s && %s r %s | None => false end'
            % (pfx(x), sym, garr(x, sym), eqb(x, sym), garr(q, sym), eqb(x, sym), garr(r, sym)))


def expr_svd(sym, x, u, s, vh):
    return ('match %ssvd %s ZRing (svd_stub ZRing) %s with Some (u, s, vh) => %s u %s && bvec_eqb %s ZRing s %s && %s vh %s | None => false end'
            % (pfx(x), sym, garr(x, sym), eqb(x, sym), garr(u, sym), sym, gbvec(s.blocks, sym), eqb(x, sym), garr(vh, sym)))


def eig_signs(h, w):
    """+1 / -1 per charge: the returned eigenvalues are those of the VALUE block, or their negatives"""
    out = {}
    for s in h.blocks:
        ev = np.linalg.eigvalsh(value_block(h, s))
        wb = np.asarray(w.blocks.get(s[1]))
        sc = max(1.0, float(np.max(np.abs(ev))) if ev.size else 1.0)
        if close(wb, ev, sc):
            out[s[1]] = 1.0
        elif close(wb, -ev, sc):
            out[s[1]] = -1.0
        else:
            out[s[1]] = None
    return out


def expr_eigh(sym, h, w, v, signs):
    return ('match %seigh %s ZRing (eigh_stub ZRing) %s with Some (w, v) => bvec_eqb %s ZRing w %s && %s v %s | None => false end'
            % (pfx(h), sym, garr(h, sym), sym, gbvec(w.blocks, sym, fill=signs), eqb(h, sym), garr(v, sym)))


def expr_solve(sym, a, b, x):
    return ('match %ssolve %s ZRing (solve_stub ZRing) %s %s with Some x => %s x %s | None => false end'
            % (pfx(a), sym, garr(a, sym), garr(b, sym), eqb(a, sym), garr(x, sym)))


def gen_expr(e):
    """the same comparison with the GENERATED function in place of the hand model's (same stub oracles)"""
    assert e.startswith('match ')
    head, rest = e[len('match '):].split(' ', 1)
    return 'match %s %s' % (GEN_NAMES[head], rest)


# ------------------------------------------------------------------ the check
class Findings:
    def __init__(self, ctx):
        self.ctx = ctx
        self.listed = {}
        for f in common.load_known_findings().get('findings', []):
            if isinstance(f, dict) and f.get('property') == 'C11' and f.get('family'):
                self.listed[f['family']] = f
        self.seen = {}
        self.found = []

    def report(self, what, replay, family=None):
        if family in self.listed:
            if family not in self.seen:
                f = self.listed[family]
                self.seen[family] = {'first': what, 'count': 0}
                self.ctx.known.append('KNOWN-FINDING: property=C11 %s %s' % (f.get('id', family), f.get('what', family)))
            self.seen[family]['count'] += 1
            return
        self.found.append((what, dict(replay, family_if_unlisted=family)))


def run(ctx):
    import symmray as sr
    ok = common.standard_proof_phase(ctx)
    rng = ctx.rng
    fnd = Findings(ctx)
    n_mat = 900 if ctx.thorough else 260
    n_herm = 400 if ctx.thorough else 100
    n_sys = 600 if ctx.thorough else 150
    exprs, meta = [], []
    stats = {'fermionic': 0, 'fused': 0, 'pending_signs': 0, 'odd_charge': 0, 'complex': 0, 'missing_blocks': 0,
             'tall': 0, 'wide': 0, 'square': 0, 'rank_deficient_inputs': 0, 'raised': 0, 'duals': {}}
    candidates = []
    for k in range(n_mat):
        sym = SYMS[k % len(SYMS)]
        ferm = (k // len(SYMS)) % 2 == 1
        cplx = rng.random() < 0.35
        x, rec = rand_matrix(rng, sr, sym, ferm, cplx)
        if not x.blocks:
            stats['raised'] += 1            # decompositions of an array without data raise (allowed)
            continue
        stats['fermionic'] += ferm; stats['complex'] += cplx; stats['fused'] += rec['fuse'] is not None
        stats['pending_signs'] += bool(getattr(x, 'phases', None))
        stats['odd_charge'] += bool(ferm and refsym.par(sym, x.charge))
        dk = '%d%d' % (x.indices[0].dual, x.indices[1].dual)
        stats['duals'][dk] = stats['duals'].get(dk, 0) + 1
        nvalid = len(refsym.valid_sectors(sym, [list(ix.chargemap) for ix in x.indices], [ix.dual for ix in x.indices], x.charge))
        stats['missing_blocks'] += len(x.blocks) < nvalid
        for b in x.blocks.values():
            sh = np.shape(b)
            stats['tall' if sh[0] > sh[1] else 'wide' if sh[0] < sh[1] else 'square'] += 1
            stats['rank_deficient_inputs'] += int(np.linalg.matrix_rank(b) < min(sh))
        base = {'symmetry': sym, 'input': rec}
        ctx.nontrivial((sym, ferm, dk, str(sorted(x.blocks)), str(sorted(getattr(x, 'phases', {}))), rec['fuse'] is not None))
        for stab in (False, True):
            ctx.count()
            fails, cands, out = check_qr(sr, sym, x, stab)
            for c in cands[:1]:
                if len(candidates) < 3:
                    candidates.append({'what': c, **base})
                stats['candidate_F12_value_diag'] = stats.get('candidate_F12_value_diag', 0) + 1
            if fails:
                fnd.report(fails[0], {'op': 'qr', 'stabilized': stab, 'failures': fails[:8], **base})
            if out is not None:
                exprs.append(expr_qr(sym, x, *out)); meta.append(('qr stabilized=%s' % stab, sym, k))
        ctx.count()
        fails, out = check_svd(sr, sym, x)
        if fails:
            fnd.report(fails[0], {'op': 'svd', 'failures': fails[:8], **base})
        if out is not None:
            exprs.append(expr_svd(sym, x, *out)); meta.append(('svd', sym, k))
        if k < 2:
            ctx.sample({'symmetry': sym, 'fermionic': ferm, 'sectors': [str(s) for s in x.blocks], 'fused_from': rec['fuse'],
                        'pending_signs': [str(s) for s in getattr(x, 'phases', {})]})
    for k in range(n_herm):
        sym = SYMS[k % len(SYMS)]
        ferm = (k // len(SYMS)) % 2 == 1
        h, rec = rand_hermitian(rng, sr, sym, ferm, rng.random() < 0.4)
        if not h.blocks:
            continue
        ctx.count()
        stats['pending_signs'] += bool(getattr(h, 'phases', None))
        ctx.nontrivial(('eigh', sym, ferm, h.indices[1].dual, str(sorted(h.blocks)), str(sorted(getattr(h, 'phases', {})))))
        fails, out = check_eigh(sr, sym, h)
        if out is not None:
            signs = eig_signs(h, out[0])
            want = {c: (-1.0 if (ferm and not h.indices[1].dual and refsym.par(sym, c)) else 1.0) for c in signs}
            for c, sg in signs.items():
                if sg is None:
                    fails.append('eigh: eigenvalues of charge %r are neither those of the block nor their negatives' % (c,))
                elif ferm and sg != want[c] and float(np.max(np.abs(np.asarray(out[0].blocks[c])))) > 1e-6 \
                        and not close(np.asarray(out[0].blocks[c]), -np.asarray(out[0].blocks[c])[::-1]):
                    fails.append('eigh: sign convention on charge %r: got %+d, expected %+d (odd charge and ket-like second index => negated)' % (c, sg, want[c]))
                elif not ferm and sg != 1.0 and not close(np.asarray(out[0].blocks[c]), -np.asarray(out[0].blocks[c])[::-1]):
                    fails.append('eigh: abelian eigenvalues of charge %r are negated' % (c,))
            fill = {c: (sg if sg is not None else 1.0) for c, sg in signs.items()}
            # a spectrum symmetric about zero cannot tell the sign: use the expected one
            for c in fill:
                wb = np.asarray(out[0].blocks[c])
                if close(wb, -wb[::-1]):
                    fill[c] = want[c]
            exprs.append(expr_eigh(sym, h, out[0], out[1], fill)); meta.append(('eigh', sym, k))
        if fails:
            fnd.report(fails[0], {'op': 'eigh', 'failures': fails[:8], 'symmetry': sym, 'input': rec})
    for k in range(n_sys):
        sym = SYMS[k % len(SYMS)]
        ferm = (k // len(SYMS)) % 2 == 1
        a, b, ra, rb = rand_system(rng, sr, sym, ferm, rng.random() < 0.35)
        if not a.blocks or not b.blocks:
            continue
        ctx.count()
        ctx.nontrivial(('solve', sym, ferm, a.indices[0].dual, a.indices[1].dual, str(a.charge), str(b.charge), str(sorted(a.blocks)), str(sorted(b.blocks))))
        fails, x = check_solve(sr, sym, a, b)
        if fails:
            fnd.report(fails[0], {'op': 'solve', 'failures': fails[:8], 'symmetry': sym, 'a': ra, 'b': rb}, family=classify_solve(sym, a, b))
        if x is not None:
            exprs.append(expr_solve(sym, a, b, x)); meta.append(('solve', sym, k))
    bad_idx = common.run_cases(ctx, 'linalg', IMPORTS, PREAMBLE, exprs, shard=40)
    tie_broken = []
    if bad_idx is None:
        tie_broken.append('cases.v (Model.Linalg structure vs implementation) did not evaluate')
    elif bad_idx:
        tie_broken += ['Model.Linalg structure of %s disagrees with the implementation (symmetry %s, case %d)' % meta[i] for i in bad_idx[:10]]
        ctx.extra['disagreeing_cases'] = [exprs[i][:3000] for i in bad_idx[:2]]
    # ---- the generated functions (translated from the current source) against the same factors, same stub oracles
    gexprs = [gen_expr(e) for e in exprs]
    bad_gen = common.run_cases(ctx, 'linalg_gen', GEN_IMPORTS, PREAMBLE, gexprs, shard=40)
    if bad_gen is None:
        tie_broken.append('cases.v (Gen/LinalgGen.v, the translated structural code of the decompositions, vs implementation) did not evaluate')
    elif bad_gen:
        tie_broken += ['Gen.LinalgGen.%s disagrees with the implementation (%s, symmetry %s, case %d)' % (
            (GEN_NAMES[exprs[i][len('match '):].split(' ', 1)[0]],) + meta[i]) for i in bad_gen[:10]]
        ctx.extra['disagreeing_gen_cases'] = [gexprs[i][:3000] for i in bad_gen[:2]]
    # ---- f_mul_diag (the u.diag(s) / v.diag(w) of the C09b / C11b theorems) vs FermionicArray.multiply_diagonal
    import tie_muldiag
    tie_broken += tie_muldiag.tie(ctx, sr)
    for f in tie_muldiag.found[:3]:
        fnd.found.append(('multiply_diagonal: %s' % (f.get('error') or f.get('raised')), {'oracle': 'tie_muldiag (numpy broadcasting on the input blocks)', **f}))
    seen = set()
    fnd.found.sort(key=lambda wr: wr[1].get('family_if_unlisted') is not None)    # unclassified failures first
    for what, rep in fnd.found:
        key = (rep['op'], what.split(':')[1][:40] if ':' in what else what[:40])
        if key in seen or len(seen) >= 5:
            continue
        seen.add(key)
        ctx.violation(what, {'oracle': 'structure + reconstruction through the library\'s own contraction (tolerance %g)' % TOL, **rep})
    ctx.broken += tie_broken
    if (not ok or tie_broken) and not fnd.found:
        ctx.violation('proof obligation or tie of C11 no longer checks', {'broken': ctx.broken}, found_input=False)
    ctx.extra['case_classes'] = stats
    ctx.extra['tie'] = {'model_cases': len(exprs), 'gen_linalg_cases': len(gexprs),
                        'gen_linalg_by_function': {g: sum(1 for e in exprs if e.startswith('match %s ' % h)) for h, g in GEN_NAMES.items()}}
    ctx.extra['known_findings_observed'] = fnd.seen
    if candidates:
        ctx.extra['candidates_not_flagged'] = candidates
        ctx.note('candidate (not flagged): for fermionic inputs whose second index is ket-like, qr(stabilized=True) returns R with a pending sign on '
                 'odd sectors: the stored blocks have a non-negative diagonal, the VALUE of R (sign applied) has a negative one there; '
                 'observed %d times in this run' % stats.get('candidate_F12_value_diag', 0))
    ctx.coverage['rule'] = ('random abelian and fermionic matrices over five symmetries (direct, or by fusing rank 3-4 arrays), all four direction '
                            'patterns, even and odd charge, tall / wide / square / rank-deficient / zero blocks, missing blocks, real and complex '
                            'floats, pending signs; qr (plain and stabilised), svd, eigh of Hermitian charge-zero matrices, solve; distinct by '
                            '(symmetry, class, directions, sectors, pending-sign table)')


def replay(path):
    import symmray as sr
    r = json.load(open(path))
    sym = r.get('symmetry')
    print(json.dumps({k: v for k, v in r.items() if k not in ('input', 'a', 'b')}, indent=1)[:3000])
    if r.get('op') in ('qr', 'svd', 'eigh') and 'input' in r:
        x = from_recipe(sr, sym, r['input'])
        if r['op'] == 'qr':
            fails = check_qr(sr, sym, x, r.get('stabilized', False))[0]
        elif r['op'] == 'svd':
            fails = check_svd(sr, sym, x)[0]
        else:
            fails = check_eigh(sr, sym, x)[0]
    elif r.get('op') == 'solve':
        fails = check_solve(sr, sym, from_recipe(sr, sym, r['a']), from_recipe(sr, sym, r['b']))[0]
    else:
        return 0
    print('replayed on the working tree: %d failure(s)' % len(fails))
    for f in fails[:8]:
        print('  ', f)
    return 1 if fails else 0
