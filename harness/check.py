"""./check <id> [--tier quick|thorough] [--replay file]"""
import argparse
import importlib
import os
import sys

sys.path.insert(0, os.path.dirname(os.path.abspath(__file__)))
os.environ.setdefault('PYTHONHASHSEED', '0')
os.environ.setdefault('PYTHONDONTWRITEBYTECODE', '1')
import common  # noqa: E402

sys.path.insert(0, common.REPO)   # the implementation is always the working tree


def main():
    ap = argparse.ArgumentParser()
    ap.add_argument('pid')
    ap.add_argument('--tier', default=os.environ.get('VERIF_TIER', 'quick'))
    ap.add_argument('--replay', default=None)
    a = ap.parse_args()
    seed = int(os.environ.get('VERIF_SEED', '0') or 0)
    mod = importlib.import_module(a.pid.lower())
    if a.replay:
        sys.exit(mod.replay(a.replay))
    ctx = common.Ctx(a.pid, a.tier if a.tier in ('quick', 'thorough') else 'quick', seed)
    mod.run(ctx)
    sys.exit(ctx.finish())


if __name__ == '__main__':
    main()
