"""./check <id> [--tier quick|thorough] [--replay file]"""
import argparse
import importlib
import os
import sys

sys.path.insert(0, os.path.dirname(os.path.abspath(__file__)))
os.environ.setdefault('PYTHONHASHSEED', '0')
os.environ.setdefault('PYTHONDONTWRITEBYTECODE', '1')
import common  # noqa: E402

sys.path.insert(0, common.REPO)   # the implementation is always the working tree


def main():
    ap = argparse.ArgumentParser()
    ap.add_argument('pid')
    ap.add_argument('--tier', default=os.environ.get('VERIF_TIER', 'quick'))
    ap.add_argument('--replay', default=None)
    a = ap.parse_args()
    seed = int(os.environ.get('VERIF_SEED', '0') or 0)
    mod = importlib.import_module(a.pid.lower())
    if a.replay:
        sys.exit(mod.replay(a.replay))
    ctx = common.Ctx(a.pid, a.tier if a.tier in ('quick', 'thorough') else 'quick', seed)
    try:
        mod.run(ctx)
    except Exception as e:       # noqa: BLE001 — safety net: never end in a bare traceback
        import traceback
        tb = traceback.format_exc()
        in_repo = common.REPO in tb.split('harness')[-1] or ('symmray' in tb.splitlines()[-3] if len(tb.splitlines()) > 3 else False)
        ctx.broken.append('the check could not complete: %s: %s' % (type(e).__name__, e))
        ctx.violation('the implementation raised where the harness expects a result (%s: %s)' % (type(e).__name__, str(e)[:200]),
                      {'oracle': 'harness safety net', 'exception': '%s: %s' % (type(e).__name__, e), 'traceback': tb[-3000:],
                       'raised_inside_library': bool(in_repo)}, found_input=False)
    sys.exit(ctx.finish())


if __name__ == '__main__':
    main()
