"""Shared machinery of the checks: regeneration of Gen/*.v, the Coq build and
audit, the cases.v correspondence runner, replay / evidence writing."""
import fcntl
import glob
import hashlib
import importlib
import json
import os
import random
import re
import subprocess
import sys
import time

VERIF = os.path.dirname(os.path.dirname(os.path.abspath(__file__)))
COQ = os.path.join(VERIF, 'coq')
REPO = os.environ.get('SYMMRAY_REPO', '/repo')
BUILD = os.path.join(COQ, 'build')
NPROC = os.cpu_count() or 4

sys.path.insert(0, os.path.join(VERIF, 'tr'))
sys.path.insert(0, os.path.join(VERIF, 'harness'))

TRUSTED_BASE = [
    'Coq 8.16.1 kernel incl. its VM (vm_compute used in finite-domain theorems and in the cases.v correspondence); no native_compute',
    'no axioms: every theorem in coq/Props is "Closed under the global context" (audited on every run via Print Assumptions)',
    'tr/*.py: the Python-AST -> Gallina translator (fail-closed subset; Python int = Z, floor %/ // = Z.modulo/Z.div)',
    'harness/*.py: generators, serialiser of symmray states to Gallina literals, canonicalisation before comparison',
    'hand-written Model/*.v is a model of the Python code, tied to it by the correspondence run (not derived)',
    'numpy/autoray block kernels behave as Base/Tensor.v defines them; CPython dict order and int semantics',
    'coq/GenSnapshot: the last translation accepted on the unchanged tree; used (and recorded as translator_fallback) only when tr/ or the '
    'proofs reject a changed source, for the properties that do not own that translator tie (DESIGN 0.1)',
]

FORBIDDEN = re.compile(r'\b(Admitted|admit|Axiom|Axioms|Parameter|Parameters|Conjecture|Hypothesis|Variable|Variables)\b|'
                       r'bypass_check|Unset\s+Guard|Unset\s+Positivity|Unset\s+Universe|-type-in-type|Admit\s+Obligations')


def sh(cmd, timeout=600, cwd=None, env=None):
    try:
        p = subprocess.run(cmd, shell=isinstance(cmd, str), cwd=cwd, env=env, timeout=timeout,
                           stdout=subprocess.PIPE, stderr=subprocess.STDOUT, text=True)
        return p.returncode, p.stdout
    except subprocess.TimeoutExpired as e:
        out = e.stdout or ''
        if isinstance(out, bytes):
            out = out.decode('utf8', 'replace')
        return 124, out + '\n[timeout after %ss]' % timeout


# ---------------------------------------------------------------- Gallina literals
def gz(n):
    return '(%d)%%Z' % n


def gnat(n):
    return '%d%%nat' % n


def gbool(b):
    return 'true' if b else 'false'


def glist(xs):
    return '[' + '; '.join(xs) + ']'


def gpair(a, b):
    return '(%s, %s)' % (a, b)


def gopt(x):
    return 'None' if x is None else '(Some %s)' % x


def gcharge(c):
    """symmray charge label: int or tuple of two ints"""
    if isinstance(c, tuple):
        return gpair(gz(int(c[0])), gz(int(c[1])))
    return gz(int(c))


# ---------------------------------------------------------------- context
class Ctx:
    def __init__(self, pid, tier='quick', seed=0):
        self.pid = pid
        self.tier = tier
        self.seed = seed
        self.rng = random.Random(seed * 1000003 + int(pid[1:]))
        self.t0 = time.time()
        self.violations = []      # dicts
        self.known = []           # KNOWN-FINDING lines
        self.notes = []
        self.coverage = {'evaluations': 0, 'distinct_nontrivial': 0, 'samples': [], 'rule': ''}
        self.distinct = set()
        self.obligations = 0
        self.discharged = 0
        self.axioms = []
        self.level = 'proof'
        self.broken = []          # names of theorems / ties that no longer check
        self.extra = {}
        os.makedirs(BUILD, exist_ok=True)
        os.makedirs(os.path.join(VERIF, 'replays', pid), exist_ok=True)
        # evidence always describes /repo itself: runs against a scratch copy (seeded changes) write theirs elsewhere
        self.evdir = os.environ.get('VERIF_EVIDENCE_DIR') or os.path.join(VERIF, 'evidence')
        os.makedirs(self.evdir, exist_ok=True)

    @property
    def thorough(self):
        return self.tier == 'thorough'

    def count(self, n=1):
        self.coverage['evaluations'] += n

    def nontrivial(self, key):
        """register a distinct non-trivial case by its key"""
        self.distinct.add(key if isinstance(key, (str, int, tuple)) else json.dumps(key, sort_keys=True, default=str))

    def sample(self, s, cap=6):
        if len(self.coverage['samples']) < cap:
            self.coverage['samples'].append(s)

    def note(self, s):
        if s not in self.notes:
            self.notes.append(s)

    def violation(self, what, replay, found_input=True):
        """record a violation; `replay` is a JSON-serialisable dict"""
        body = json.dumps(replay, sort_keys=True, default=str)
        h = hashlib.sha1(body.encode()).hexdigest()[:12]
        path = os.path.join(VERIF, 'replays', self.pid, h + '.json')
        with open(path, 'w') as fh:
            json.dump({'property': self.pid, 'what': what, 'found_failing_input': found_input, **replay},
                      fh, indent=1, default=str)
        self.violations.append({'what': what, 'replay': path, 'found_input': found_input})
        return path

    def finish(self):
        for k in self.known:
            print(k)
        seen = set()
        for v in self.violations:
            line = 'VIOLATION property=%s replay=%s' % (self.pid, v['replay'])
            if not v['found_input']:
                line += ' no-failing-input-found'
            if line not in seen:
                print(line)
                seen.add(line)
        cov = self.coverage
        cov['distinct_nontrivial'] = len(self.distinct)
        cov['obligations'] = self.obligations
        if self.discharged > 0:
            cov['discharged'] = self.discharged
        else:   # schema: a proof-level `discharged` must be >= 1; a broken run reports the count separately
            cov['discharged_count'] = 0
        cov['checker_cmd'] = 'cd /verif/coq && make (coqc 8.16.1, full .vo build) && coqc Props/%s.v [+ Props/%s<a-z>.v] (Print Assumptions)' % (self.pid, self.pid)
        cov['trusted_base'] = TRUSTED_BASE
        cov['axioms_reported_by_Print_Assumptions'] = self.axioms
        cov['broken_obligations_or_ties'] = self.broken
        cov.update(self.extra)
        if not cov['samples']:
            cov['samples'] = ['(none)']
        ev = {
            'property_id': self.pid, 'tier': self.tier, 'seed': self.seed, 'level': self.level,
            'coverage': cov,
            'assumptions': TRUSTED_BASE + self.notes,
            'wall_s': round(time.time() - self.t0, 2),
            'violations': len(self.violations),
        }
        with open(os.path.join(self.evdir, self.pid + '.json'), 'w') as fh:
            json.dump(ev, fh, indent=1, default=str)
        sys.stdout.flush()
        return 1 if self.violations else 0


# ---------------------------------------------------------------- regeneration + build
def generators():
    """every tr/gen_*.py module (auto-discovered) must offer generate_all(repo) -> {file: text}"""
    return sorted(os.path.basename(f)[:-3] for f in glob.glob(os.path.join(VERIF, 'tr', 'gen_*.py')))


def write_if_changed(path, text):
    old = open(path).read() if os.path.exists(path) else None
    if old != text:
        with open(path, 'w') as fh:
            fh.write(text)
        return True
    return False


def write_coqproject():
    """_CoqProject lists every .v under Base Gen Model Proofs Props (coqdep orders them)"""
    files = []
    for d in ('Base', 'Gen', 'Model', 'Proofs', 'Props'):
        files += sorted(os.path.relpath(f, COQ) for f in glob.glob(os.path.join(COQ, d, '*.v')))
    text = '-Q . SV\n' + '\n'.join(files) + '\n'
    if write_if_changed(os.path.join(COQ, '_CoqProject'), text) or not os.path.exists(os.path.join(COQ, 'Makefile')):
        sh('coq_makefile -f _CoqProject -o Makefile', cwd=COQ)


# Gen file -> properties whose TRANSLATOR tie it is.  When the translator refuses the current source for a file
# (fail-closed: a construct outside its fragment), those properties report it; every other property that merely
# builds on the file continues with the last accepted model (coq/GenSnapshot/, refreshed by tools/snapshot_gen.sh
# on the unchanged tree) and is tied to the code by its correspondence checks alone, which run on every check.
GEN_OWNERS = {'Symmetries.v': ('C17',), 'PhasePerm.v': ('C03',), 'OpOrder.v': ('C04',), 'CacheKey.v': ('C15',),
              'ModeCtx.v': ('C15',), 'HeapSites.v': ('C14',), 'Ham.v': ('C19',), 'LocalOpsData.v': ('C18',),
              'Ctor.v': ('C16',), 'Helpers.v': ('C05',), 'Interface.v': ('C08',), 'BinopGen.v': ('C08',), 'OddposGen.v': ('C04',), 'ReshapeGen.v': ('C07',), 'SectorsGen.v': ('C17',),
              'BlockwiseGen.v': ('C02',), 'PhasesGen.v': ('C09', 'C10'),
              'TruncGen.v': ('C13',), 'LocalAlgGen.v': ('C18',), 'CtorAlgGen.v': ('C16',), 'FtdotGen.v': ('C03',), 'FuseGen.v': ('C05',), 'LinalgGen.v': ('C11',), 'UnfuseGen.v': ('C05',), 'FusedTdotGen.v': ('C06',), 'ConcatGen.v': ('C05',)}
SNAP = os.path.join(COQ, 'GenSnapshot')
_GEN_ERRS = (SyntaxError, KeyError, IndexError, AttributeError, ValueError, TypeError, OSError, AssertionError)


def _owned_files(g):
    out = []
    for f in glob.glob(os.path.join(SNAP, '*.v')) + glob.glob(os.path.join(COQ, 'Gen', '*.v')):
        try:
            head = open(f).readline()
        except OSError:
            continue
        if 'tr/%s.py' % g in head and os.path.basename(f) not in out:
            out.append(os.path.basename(f))
    return out


def _fallback(fname):
    """put the last accepted model in place of a file the translator could not regenerate;
    without a snapshot the file is removed (never a stale success)"""
    snap = os.path.join(SNAP, fname)
    dst = os.path.join(COQ, 'Gen', fname)
    if os.path.exists(snap):
        write_if_changed(dst, open(snap).read())
        return True
    for ext in ('.v', '.vo', '.vok', '.vos', '.glob'):
        try:
            os.remove(dst[:-2] + ext)
        except OSError:
            pass
    return False


FALLBACK = {}      # Gen file -> translator error, for the files replaced by their snapshot in this run


def _dev_hash(texts):
    """identifies (regenerated model, hand-written development): the memo key for 'does not build with this model'"""
    import hashlib
    h = hashlib.sha1()
    for k in sorted(texts):
        h.update(k.encode()); h.update(texts[k].encode())
    for d in ('Base', 'Model', 'Proofs'):
        for f in sorted(glob.glob(os.path.join(COQ, d, '*.v'))):
            h.update(f.encode()); h.update(open(f, 'rb').read())
    return h.hexdigest()


_BADGEN = os.path.join(COQ, 'build', 'badgen')
_REGEN_KEY = [None]


def regen():
    """Regenerate Gen/*.v from the working tree.  Returns list of (generator, error)."""
    errs = []
    FALLBACK.clear()
    from pygallina import Unsupported
    catch = (Unsupported,) + _GEN_ERRS
    texts = {}
    for g in generators():
        try:
            mod = importlib.import_module(g)
            if hasattr(mod, 'generate_each'):
                for fname, thunk in mod.generate_each(REPO).items():
                    try:
                        texts[fname] = thunk()
                    except catch as e:
                        msg = '%s: %s' % (type(e).__name__, e)
                        errs.append((g + ':' + fname, msg))
                        FALLBACK[fname] = msg if _fallback(fname) else msg + ' (no snapshot: file removed)'
            else:
                texts.update(mod.generate_all(REPO))
        except catch as e:
            msg = '%s: %s' % (type(e).__name__, e)
            errs.append((g, msg))
            for fname in _owned_files(g):
                FALLBACK[fname] = msg if _fallback(fname) else msg + ' (no snapshot: file removed)'
    # a regenerated model with which the development is already known not to build (memo written by
    # standard_proof_phase in an earlier run on the same sources) is not built again: straight to the fallback
    _REGEN_KEY[0] = _dev_hash(texts)
    memo = os.path.join(_BADGEN, _REGEN_KEY[0] + '.json')
    known_bad = {}
    if os.path.exists(memo):
        try:
            known_bad = json.load(open(memo))
        except (OSError, ValueError):
            known_bad = {}
    for fname, text in texts.items():
        if fname in known_bad and _fallback(fname):
            FALLBACK[fname] = known_bad[fname]
        else:
            write_if_changed(os.path.join(COQ, 'Gen', fname), text)
    return errs


class Lock:
    def __enter__(self):
        self.fh = open(os.path.join(COQ, '.lock'), 'w')
        fcntl.flock(self.fh, fcntl.LOCK_EX)
        return self

    def __exit__(self, *a):
        fcntl.flock(self.fh, fcntl.LOCK_UN)
        self.fh.close()


def coq_make(timeout=1500):
    """Incremental full .vo build.  Returns (ok, failing_file or None, log)."""
    with Lock():
        write_coqproject()
        rc, out = sh('make -j%d -k' % NPROC, timeout=timeout, cwd=COQ)
    if rc == 0:
        return True, [], out
    failing = sorted(set(re.findall(r'File "\./([^"]+)", line \d+', out)))
    # a file that no longer compiles must not leave an old .vo behind (stale success)
    for f in failing:
        for ext in ('.vo', '.vok', '.vos'):
            try:
                os.remove(os.path.join(COQ, f[:-2] + ext))
            except OSError:
                pass
    return False, failing, out


def source_audit():
    """No axiom-declaring command anywhere in the development; `Context` (used
    for oracles / hypotheses) only inside a Section."""
    bad = []
    for f in glob.glob(os.path.join(COQ, '**', '*.v'), recursive=True):
        if os.sep + 'build' + os.sep in f:
            continue
        txt = open(f).read()
        txt_nc = re.sub(r'\(\*.*?\*\)', '', txt, flags=re.S)
        for m in FORBIDDEN.finditer(txt_nc):
            bad.append('%s: %s' % (os.path.relpath(f, COQ), m.group(0)))
        depth = 0
        for line in txt_nc.split('\n'):
            if re.match(r'\s*Section\s', line):
                depth += 1
            elif re.match(r'\s*End\s', line) and depth > 0:
                depth -= 1
            elif re.match(r'\s*Context\b', line) and depth == 0:
                bad.append('%s: Context outside a Section' % os.path.relpath(f, COQ))
    return bad


def props_audit(pid, timeout=900):
    """Compile Props/<pid>.v and any continuation files Props/<pid>[a-z].v alone and read the
    Print Assumptions output."""
    files = sorted(f for f in glob.glob(os.path.join(COQ, 'Props', pid + '*.v'))
                   if re.fullmatch(re.escape(pid) + r'[a-z]?\.v', os.path.basename(f)))
    rc_all, thms, prints, closed, axioms, logs = 0, [], [], 0, [], ''
    for f in files:
        rel = os.path.relpath(f, COQ)
        with Lock():
            rc, out = sh('coqc -Q . SV %s' % rel, timeout=timeout, cwd=COQ)
        src_nc = re.sub(r'\(\*.*?\*\)', '', open(f).read(), flags=re.S)
        thms += re.findall(r'^\s*(?:Theorem|Lemma|Corollary)\s+(\w+)', src_nc, flags=re.M)
        prints += re.findall(r'Print Assumptions\s+(\w+)', src_nc)
        closed += out.count('Closed under the global context')
        for m in re.finditer(r'Axioms:\s*\n((?:.+\n?)+?)(?=\n\S|\Z)', out):
            axioms.append(m.group(1).strip())
        rc_all = rc_all or rc
        logs += out
    if not files:
        rc_all = 1
        logs = 'no Props/%s.v' % pid
    return {'rc': rc_all, 'theorems': thms, 'printed': prints, 'closed': closed, 'axioms': axioms, 'log': logs,
            'files': [os.path.relpath(f, COQ) for f in files]}


def standard_proof_phase(ctx, gen_files_used=()):
    """regen -> make -> audit.  Records obligations; returns True when every
    obligation of this property is discharged."""
    ok = True
    errs = regen()
    good, failing, log = coq_make()
    if not good:
        # the development does not build with the model regenerated from the current source.  If a regenerated file
        # differs from the last accepted one, the proofs ABOUT that file are what broke: the properties owning its
        # translator tie report it (below); every other property goes on with the last accepted model, tied to the
        # code by its own correspondence checks in this very run.
        changed = []
        for f in sorted(glob.glob(os.path.join(COQ, 'Gen', '*.v'))):
            snap = os.path.join(SNAP, os.path.basename(f))
            if os.path.exists(snap) and open(snap).read() != open(f).read():
                changed.append(os.path.basename(f))
        # the translation named in the build log (imports of the failing files, error messages) is tried first
        changed.sort(key=lambda f: (0 if ('Gen.' + f[:-2]) in log or (f[:-2] + '.') in log else 1, f))
        regen_text = {f: open(os.path.join(COQ, 'Gen', f)).read() for f in changed}
        msg = ('the proofs about the model regenerated from the current source no longer check '
               '(files failing to build: %s)' % (failing or '?'))

        def memo(files):
            try:
                os.makedirs(_BADGEN, exist_ok=True)
                with open(os.path.join(_BADGEN, _REGEN_KEY[0] + '.json'), 'w') as fh:
                    json.dump({f: msg for f in files}, fh)
            except OSError:
                pass
        # one file at a time first (only the responsible translation is replaced), then all of them together
        fixed = None
        for fname in changed:
            _fallback(fname)
            good2, failing2, log2 = coq_make()
            if good2:
                fixed = [fname]
                break
            write_if_changed(os.path.join(COQ, 'Gen', fname), regen_text[fname])
        if fixed is None and len(changed) > 1:
            for fname in changed:
                _fallback(fname)
            good2, failing2, log2 = coq_make()
            if good2:
                fixed = list(changed)
            else:
                for fname in changed:
                    write_if_changed(os.path.join(COQ, 'Gen', fname), regen_text[fname])
        if fixed is not None:
            for fname in fixed:
                FALLBACK[fname] = msg
            good, log = True, log2
            ctx.extra['coq_build_failures_with_regenerated_model'] = failing or ['?']
            failing = []
            memo(fixed)
        elif changed:
            coq_make()      # back to the regenerated files: the failure stands
    # Only what Props/<pid>.v depends on decides this property: a generator or proof
    # file of another slice that fails is recorded, and becomes this property's
    # broken obligation exactly when Props/<pid>.v no longer compiles because of it.
    if errs:
        ctx.extra['translator_errors'] = ['%s: %s' % ge for ge in errs]
    if FALLBACK:
        ctx.extra['translator_fallback'] = dict(FALLBACK)
        mine = [f for f in FALLBACK if ctx.pid in GEN_OWNERS.get(f, ())]
        if mine:
            ctx.broken.append('translator tie of %s broken for %s: %s; the theorems now speak about the last accepted model '
                              '(coq/GenSnapshot)' % (ctx.pid, ', '.join('Gen/' + f for f in mine), '; '.join(FALLBACK[f] for f in mine)))
            ok = False
    if not good:
        ctx.extra['coq_build_failures'] = failing or ['?']
        ctx.extra['coq_log_tail'] = log[-1500:]
    bad = source_audit()
    if bad:
        ctx.broken.append('forbidden tokens: %s' % '; '.join(bad))
        ok = False
    a = props_audit(ctx.pid)
    ctx.obligations = max(len(a['theorems']), 1)
    ctx.discharged = min(a['closed'], len(a['theorems'])) if a['rc'] == 0 else 0
    ctx.axioms = a['axioms']
    ctx.extra['theorems'] = a['theorems']
    if a['rc'] != 0:
        ctx.broken.append('Props/%s.v does not compile (translator errors: %s; files failing to build: %s)' % (
            ctx.pid, ['%s: %s' % ge for ge in errs] or 'none', failing or 'none'))
        ctx.extra['props_log_tail'] = a['log'][-1500:]
        ok = False
    elif set(a['printed']) != set(a['theorems']):
        ctx.broken.append('Print Assumptions missing for: %s' % sorted(set(a['theorems']) - set(a['printed'])))
        ok = False
    elif a['closed'] != len(a['theorems']) or a['axioms']:
        ctx.broken.append('theorems depending on axioms: %s' % a['axioms'])
        ok = False
    if ok and ctx.thorough:
        # independent re-check of the compiled property files and everything they depend on
        mods = ' '.join('SV.' + f[:-2].replace('/', '.') for f in a.get('files', []))
        with Lock():
            rc, out = sh('coqchk -silent -o -Q . SV %s' % mods, timeout=3000, cwd=COQ)
        summary = out[out.find('CONTEXT SUMMARY'):] if 'CONTEXT SUMMARY' in out else out[-800:]
        ctx.extra['coqchk'] = {'rc': rc, 'summary': summary.strip()[:1500]}
        if rc != 0 or '* Axioms: <none>' not in summary.replace('\n  ', ' '):
            if rc != 0 or 'Axioms: <none>' not in summary:
                ctx.broken.append('coqchk does not accept Props/%s (rc %s) or reports axioms' % (ctx.pid, rc))
                ok = False
    return ok


# ---------------------------------------------------------------- cases.v correspondence
CASE_HDR = 'From SV Require Import Base.Prelude.\n'


def run_cases(ctx, name, imports, preamble, exprs, shard=300, timeout=900):
    """Each expr is a Gallina term of type bool: true = model agrees with the
    implementation on that case.  Returns sorted list of failing indices, or
    None if a shard failed to compile (reported by the caller)."""
    if not exprs:
        return []
    files = []
    for k in range(0, len(exprs), shard):
        part = exprs[k:k + shard]
        fn = os.path.join(BUILD, 'cases_%s_%s_%d.v' % (ctx.pid, name, k // shard))
        with open(fn, 'w') as fh:
            fh.write(CASE_HDR + imports + '\nOpen Scope Z_scope.\n' + preamble + '\n')
            fh.write('Definition cs : list bool := [\n' + ';\n'.join(part) + '\n].\n')
            fh.write('Eval vm_compute in (bad_indices cs).\n')
        files.append((k, fn))
    procs = []
    failing = []
    err = None
    env = dict(os.environ)
    pending = list(files)
    running = []
    while pending or running:
        while pending and len(running) < NPROC:
            k, fn = pending.pop(0)
            p = subprocess.Popen('ulimit -s unlimited 2>/dev/null; timeout %d coqc -Q %s SV -w none %s' % (timeout, COQ, fn),
                                 shell=True, cwd=BUILD, stdout=subprocess.PIPE, stderr=subprocess.STDOUT, text=True, env=env)
            running.append((k, fn, p))
        k, fn, p = running.pop(0)
        out, _ = p.communicate()
        m = re.search(r'=\s*\[(.*?)\]\s*:\s*list Z', out, flags=re.S)
        if p.returncode != 0 or not m:
            err = 'cases file %s failed: %s' % (os.path.basename(fn), out[-800:])
            continue
        body = m.group(1).strip()
        if body:
            for tok in body.replace('\n', ' ').split(';'):
                tok = tok.strip().strip('()').replace('%Z', '')
                failing.append(k + int(tok))
        for ext in ('.vo', '.vok', '.vos', '.glob'):
            try:
                os.remove(fn[:-2] + ext)
            except OSError:
                pass
        aux = os.path.join(os.path.dirname(fn), '.' + os.path.basename(fn)[:-2] + '.aux')
        if os.path.exists(aux):
            os.remove(aux)
    if err:
        ctx.extra.setdefault('cases_errors', []).append(err)
        return None
    return sorted(failing)


def load_known_findings():
    p = os.path.join(VERIF, 'known_findings.json')
    if os.path.exists(p):
        return json.load(open(p))
    return {'findings': [], 'fixed': []}
