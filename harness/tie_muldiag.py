"""Tie of `f_mul_diag` (the model of `FermionicArray.multiply_diagonal`, which is the inherited
`AbelianArray.multiply_diagonal`: raw blocks scaled, pending signs and labels untouched) to the
implementation.  The definition exists twice, in two proof files the C09b / C11b theorems are
stated over:

    Proofs/LinalgProofs2.v     f_mul_diag G R y w axis := with_base y (a_multiply_diagonal (fbase y) w axis)
    Proofs/LinalgLazyProofs.v  f_mul_diag G R u s      := with_base u (a_multiply_diagonal (fbase u) s 1)

Both are evaluated by vm_compute (one cases file per copy, so a proof file that does not build
is named precisely) on random LAZY fermionic arrays (pending signs from gen.rand_lazy, odd and
even charge, labels) and block vectors that lack some of the axis' charges (and sometimes carry
charges the axis does not have), and compared with `x.multiply_diagonal(v, axis)`:
index tables, charge, dict of raw blocks, pending-sign table (entries of dropped sectors
remain), labels (`farray_eqb_strict`).

    tie(ctx, sr) -> list of broken-tie strings
    tie_muldiag.found -> after tie(): concrete failing inputs (dicts for ctx.violation) rejected by
        an implementation-only oracle (numpy broadcasting on the input's own blocks; no Coq, no
        library arithmetic): wrong / surplus / missing result blocks, changed sign table, labels,
        tables or charge, or an exception

    python harness/tie_muldiag.py [n_cases] [seed]     standalone self-test (exit 1 on any disagreement)
"""
import os
import sys

sys.path.insert(0, os.path.dirname(os.path.abspath(__file__)))
import numpy as np  # noqa: E402

import common  # noqa: E402
import gen  # noqa: E402
import refsym  # noqa: E402

IMPORTS_BASE = ('From SV Require Import Base.Sym Base.Tensor Gen.PhasePerm Model.SymInst Model.Sectors Model.Array Model.Arith '
                'Model.Fermi.\n')
COPIES = [
    # (name of the cases file, extra import, head of the model term (applied to G R X V), takes an axis)
    ('muldiag2', 'From SV Require Proofs.LinalgProofs2.\n', 'SV.Proofs.LinalgProofs2.f_mul_diag', True),
    ('muldiaglazy', 'From SV Require Proofs.LinalgLazyProofs.\n', 'SV.Proofs.LinalgLazyProofs.f_mul_diag', False),
]
SYMS = ['Z2', 'U1', 'Z2Z2', 'U1U1', 'Z4']

found = []


def ch_json(c):
    return list(c) if isinstance(c, tuple) else c


def describe(x):
    return {'class': type(x).__name__, 'charge': ch_json(x.charge),
            'indices': [{'chargemap': [[ch_json(c), n] for c, n in ix.chargemap.items()], 'dual': ix.dual} for ix in x.indices],
            'blocks': [[[ch_json(c) for c in s], np.asarray(b).tolist() if not np.iscomplexobj(b) else
                        [[v.real, v.imag] for v in np.asarray(b).reshape(-1)]] for s, b in x.blocks.items()],
            'phases': [[ch_json(c) for c in s] for s, p in x.phases.items() if p == -1],
            'oddpos': [[o.label, bool(o.dual)] for o in x.oddpos]}


def describe_vec(v):
    return [[ch_json(c), [[complex(t).real, complex(t).imag] for t in np.asarray(b).reshape(-1)]] for c, b in v.blocks.items()]


def gvec(v, ring):
    return '[' + '; '.join('(%s, %s)' % (gen.gch(c), gen.gtensor(b, ring)) for c, b in v.blocks.items()) + ']'


def oracle(x, v, axis, y):
    """implementation-only: what multiply_diagonal must return, computed on x's own blocks"""
    if type(y) is not type(x):
        return 'result class %s' % type(y).__name__
    if y.charge != x.charge:
        return 'charge changed'
    if [(list(ix.chargemap.items()), ix.dual) for ix in y.indices] != [(list(ix.chargemap.items()), ix.dual) for ix in x.indices]:
        return 'index tables changed'
    if [(o.label, o.dual) for o in y.oddpos] != [(o.label, o.dual) for o in x.oddpos]:
        return 'labels changed'
    if {s for s, p in y.phases.items() if p == -1} != {s for s, p in x.phases.items() if p == -1}:
        return 'pending-sign table changed: %r -> %r' % (sorted(x.phases), sorted(y.phases))
    want = {}
    shape = [1] * x.ndim
    shape[axis] = -1
    for s, b in x.blocks.items():
        vb = v.blocks.get(s[axis])
        if vb is not None:
            want[s] = np.asarray(b) * np.asarray(vb).reshape(shape)
    if set(want) != set(y.blocks):
        extra = sorted(set(y.blocks) - set(want))
        if extra:
            return 'sectors %r are stored in the result although the vector has no block of their charge on axis %d' % (extra, axis)
        return 'sectors %r are missing from the result' % (sorted(set(want) - set(y.blocks)),)
    for s, w in want.items():
        g = np.asarray(y.blocks[s])
        if g.shape != w.shape or not np.array_equal(g, w):
            return 'block %r is not the input block scaled along axis %d' % (s, axis)
    return None


def make_case(rng, sr, sym):
    nd = rng.choice([1, 2, 2, 2, 3, 3, 4])
    cplx = rng.random() < 0.25
    x = gen.rand_array(rng, sr, sym, ndim=nd, fermionic=True, cplx=cplx, maxsize=2 if nd >= 3 else 3,
                       keep=rng.choice([1.0, 1.0, 1.0, 0.8, 0.6]))
    x = gen.rand_lazy(rng, sr, x, steps=rng.choice([0, 1, 2, 2, 3, 3]))
    axis = 1 if (nd >= 2 and rng.random() < 0.6) else rng.randrange(nd)
    tab = x.indices[axis].chargemap
    regime = rng.choice(['all', 'some', 'some', 'some', 'some', 'few', 'extra'])
    p = {'all': 1.0, 'some': 0.65, 'few': 0.3, 'extra': 0.65}[regime]
    vc = cplx and rng.random() < 0.5
    vb = {c: gen.rand_data(rng, (d,), vc, -2, 2) for c, d in tab.items() if rng.random() < p}
    if not vb and rng.random() < 0.8:       # an entirely empty vector only now and then
        c = rng.choice(list(tab))
        vb[c] = gen.rand_data(rng, (tab[c],), vc, -2, 2)
    if regime == 'extra':
        for c in gen.SMALL[sym]:
            if c not in tab and rng.random() < 0.5:
                vb[c] = gen.rand_data(rng, (rng.randint(1, 2),), vc, -2, 2)
    items = list(vb.items())
    rng.shuffle(items)
    return x, sr.BlockVector(dict(items)), axis


def tie(ctx, sr, n=None, stats=None):
    rng = ctx.rng
    del found[:]
    if n is None:
        n = 500 if ctx.thorough else 150
    stats = stats if stats is not None else {}
    for k in ('cases', 'axis1', 'pending_signs', 'odd_charge', 'dropped_sectors', 'dropped_sector_with_sign', 'vector_extra_charge',
              'complex', 'all_dropped', 'raised'):
        stats.setdefault(k, 0)
    broken, exprs, meta = [], {name: [] for name, _, _, _ in COPIES}, {name: [] for name, _, _, _ in COPIES}
    k = 0
    while stats['cases'] < n and k < 4 * n:
        sym = SYMS[k % len(SYMS)]
        k += 1
        x, v, axis = make_case(rng, sr, sym)
        if not x.blocks:
            continue
        rep = {'op': 'FermionicArray.multiply_diagonal', 'symmetry': sym, 'x': describe(x), 'v': describe_vec(v), 'axis': axis}
        try:
            y = x.multiply_diagonal(v, axis)
        except Exception as e:      # noqa: BLE001
            stats['raised'] += 1
            broken.append('multiply_diagonal raised %s: %s where f_mul_diag returns a value (symmetry %s, axis %d)' % (
                type(e).__name__, e, sym, axis))
            found.append(dict(rep, raised='%s: %s' % (type(e).__name__, e)))
            continue
        try:
            bad_y = oracle(x, v, axis, y)
        except Exception as e:      # noqa: BLE001
            bad_y = 'result unusable: %s: %s' % (type(e).__name__, e)
        if bad_y:
            found.append(dict(rep, error=bad_y))
        try:
            ring = 'GRing' if (gen.ring_of(x, y) == 'GRing' or any(np.iscomplexobj(b) for b in v.blocks.values())) else 'ZRing'
            A = '%s %s' % (sym, ring)
            X, Y, V = gen.gfarray(x, sym, ring), gen.gfarray(y, sym, ring), gvec(v, ring)
        except Exception as e:      # noqa: BLE001
            broken.append('result of multiply_diagonal cannot be serialised: %s' % e)
            continue
        for name, _, head, with_axis in COPIES:
            if not with_axis and axis != 1:
                continue
            exprs[name].append('farray_eqb_strict %s (%s %s %s %s%s) %s' % (A, head, A, X, V, ' %d%%nat' % axis if with_axis else '', Y))
            meta[name].append((sym, axis, str(sorted(x.blocks)), str(sorted(v.blocks)), str(sorted(x.phases))))
        dropped = [s for s in x.blocks if s[axis] not in v.blocks]
        stats['cases'] += 1
        stats['axis1'] += axis == 1
        stats['pending_signs'] += bool(x.phases)
        stats['odd_charge'] += bool(refsym.par(sym, x.charge))
        stats['dropped_sectors'] += bool(dropped)
        stats['dropped_sector_with_sign'] += any(x.phases.get(s, 1) == -1 for s in dropped)
        stats['all_dropped'] += len(dropped) == len(x.blocks)
        stats['vector_extra_charge'] += any(c not in x.indices[axis].chargemap for c in v.blocks)
        stats['complex'] += ring == 'GRing'
        if dropped and x.phases:
            ctx.nontrivial(('muldiag', sym, axis, str(sorted(x.blocks)), str(sorted(v.blocks)), str(sorted(x.phases))))
    ndis = 0
    for name, extra_import, head, _ in COPIES:
        ctx.count(len(exprs[name]))
        bad = common.run_cases(ctx, name, IMPORTS_BASE + extra_import, '', exprs[name], shard=60)
        if bad is None:
            broken.append('cases.v (%s vs FermionicArray.multiply_diagonal) did not evaluate' % head)
        else:
            ndis += len(bad)
            broken += ['%s disagrees with FermionicArray.multiply_diagonal (symmetry %s, axis %d, sectors %s, vector charges %s, '
                       'pending signs %s)' % ((head,) + meta[name][i]) for i in bad[:6]]
            if bad:
                ctx.extra.setdefault('muldiag_disagreeing_cases', []).extend(exprs[name][i][:3000] for i in bad[:1])
    ctx.extra['tie_muldiag'] = {'model_cases': {name: len(exprs[name]) for name, _, _, _ in COPIES}, 'disagreements': ndis,
                                'oracle_failures': len(found), 'case_classes': {k: v for k, v in stats.items() if k != 'cases'}}
    return broken


def main(argv):
    n = int(argv[1]) if len(argv) > 1 else 200
    seed = int(argv[2]) if len(argv) > 2 else 0
    os.environ.setdefault('PYTHONHASHSEED', '0')
    sys.path.insert(0, common.REPO)
    import symmray as sr
    ctx = common.Ctx('C11', 'quick', seed)
    ctx.rng.seed(seed * 7919 + 11)
    stats = {}
    broken = tie(ctx, sr, n=n, stats=stats)
    print('tie_muldiag self-test: implementation %s' % os.path.dirname(sr.__file__))
    print('cases: %d   classes: %s' % (stats.get('cases', 0), {k: v for k, v in sorted(stats.items()) if k != 'cases'}))
    for b in broken:
        print('BROKEN-TIE: ' + b)
    for f in found[:5]:
        print('FAILING-INPUT: symmetry %s axis %d: %s' % (f['symmetry'], f['axis'], f.get('error') or f.get('raised')))
    print('oracle failures: %d' % len(found))
    for e in ctx.extra.get('cases_errors', []):
        print('CASES-ERROR: ' + e)
    print('result: %s' % ('%d disagreement(s)' % len(broken) if broken else 'model and implementation agree on all cases'))
    return 1 if (broken or found) else 0


if __name__ == '__main__':
    sys.exit(main(sys.argv))
