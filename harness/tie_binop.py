"""Run-time tie of Gen/BinopGen.v (tr/gen_binop.py: the compiled
`BlockBase._binary_blockwise_op` / `apply_to_arrays` and the table read off the
arithmetic dunder methods) to the implementation: for the operand pairs the C08
harness generates, the generated function — run with the policy the GENERATED
table gives for the method and the exact integer / Gaussian-integer ring of the
harness — must return the sector list of `x + y`, `x - y` (None exactly when it
raises), `x * y`, `x += y`, `x -= y`, `x *= y`, `x * s`, `-x` IN THE SAME BLOCK
ORDER with the same block entries; the in-place flag of the table must say
whether the returned object is the left operand itself.

Own cases shard and own imports: when Gen/BinopGen.v is missing (translator
refused, no snapshot) only this tie is reported broken, the others survive.
Nothing here draws from ctx.rng (the streams of the other ties are unchanged)."""
import numpy as np

import common
import gen

IMPORTS = ('From SV Require Import Base.Sym Base.Tensor Model.SymInst Model.Sectors Model.Array Model.Arith Gen.BinopGen.\n'
           'From Coq Require Import String.\n')

PREAMBLE = '''
Definition gb_blocks (G : Symmetry) (R : Ring) := list (list (C G) * tensor R).
Definition gb_op (R : Ring) (op : string) : option (tensor R -> tensor R -> tensor R) :=
  if String.eqb op "add" then Some (tadd R) else if String.eqb op "sub" then Some (tsub R)
  else if String.eqb op "mul" then Some (tmul R) else None.
(* the method `name` as the generated table + the generated function describe it *)
Definition gb_run (G : Symmetry) (R : Ring) (name : string) (bx bo : gb_blocks G R) : option (gb_blocks G R) :=
  match lookup String.eqb name dunder_policy with
  | Some (op, m, _) => match gb_op R op with
                       | Some f => binary_blockwise_op_gen (list_eqb (ceqb G)) f m bx bo
                       | None => None
                       end
  | None => None
  end.
(* same sectors in the same order with the same entries; None = raised *)
Definition gb_same (G : Symmetry) (R : Ring) (a b : option (gb_blocks G R)) : bool :=
  match a, b with
  | Some p, Some q => blocks_eqb_strict G R p q
  | None, None => true
  | _, _ => false
  end.
Definition gb_inplace (name : string) (observed : bool) : bool :=
  match lookup String.eqb name dunder_policy with Some (_, _, i) => Bool.eqb i observed | None => false end.
Definition gb_map (G : Symmetry) (R : Ring) (f : tensor R -> tensor R) (bx : gb_blocks G R) : option (gb_blocks G R) :=
  apply_to_arrays_gen (list_eqb (ceqb G)) f bx.
'''


def gblocks(blocks, ring):
    return '[' + '; '.join('(%s, %s)' % (gen.gsec(s), gen.gtensor(b, ring)) for s, b in blocks.items()) + ']'


class Collector:
    def __init__(self, ctx):
        self.ctx = ctx
        self.exprs, self.meta = [], []
        self.by_op = {}
        self.order_sensitive = 0

    def _add(self, op, expr, sym, k, detail=''):
        self.exprs.append(expr)
        self.meta.append((op, sym, k, detail))
        self.by_op[op] = self.by_op.get(op, 0) + 1
        self.ctx.count()

    def add_pair(self, x, y, sym, ring, k, scalar=None):
        """x, y: two arrays on the same indices (left unchanged)"""
        A = '%s %s' % (sym, ring)
        try:
            BX, BY = gblocks(x.blocks, ring), gblocks(y.blocks, ring)
        except ValueError:
            return
        only_y = [s for s in y.blocks if s not in x.blocks]
        if len(only_y) >= 1 and len(x.blocks) >= 1:
            self.order_sensitive += 1

        def want(thunk):
            """-> (Gallina option of the result's block list, the object returned)"""
            try:
                r = thunk()
            except Exception:
                return 'None', None
            try:
                return '(Some %s)' % gblocks(r.blocks, ring), r
            except ValueError:
                return None, r

        def binary(op, name, thunk):
            w, r = want(thunk)
            if w is None:
                return None
            self._add(op, 'gb_same %s (gb_run %s "%s"%%string %s %s) %s' % (A, A, name, BX, BY, w), sym, k,
                      'sectors x %s, sectors y %s' % (list(x.blocks), list(y.blocks)))
            return r
        r = binary('x + y', '__add__', lambda: x + y)
        if r is not None:
            self._add('x + y is x', 'gb_inplace "__add__"%%string %s' % ('true' if r is x else 'false'), sym, k)
        binary('x - y', '__sub__', lambda: x - y)
        r = binary('x * y', '__mul__', lambda: x * y)
        if r is not None:
            self._add('x * y is x', 'gb_inplace "__mul__"%%string %s' % ('true' if r is x else 'false'), sym, k)

        def inplace(op, name, f):
            z = x.copy()
            z0 = z
            try:
                z = f(z)
            except Exception:
                z = None
            try:
                w = 'None' if z is None else '(Some %s)' % gblocks(z.blocks, ring)
            except ValueError:
                return
            self._add(op, 'gb_same %s (gb_run %s "%s"%%string %s %s) %s' % (A, A, name, BX, BY, w), sym, k,
                      'sectors x %s, sectors y %s' % (list(x.blocks), list(y.blocks)))
            if z is not None:
                self._add(op + ' is x', 'gb_inplace "%s"%%string %s' % (name, 'true' if z is z0 else 'false'), sym, k)

        def iadd(z):
            z += y
            return z

        def isub(z):
            z -= y
            return z

        def imul(z):
            z *= y
            return z
        inplace('x += y', '__iadd__', iadd)
        inplace('x -= y', '__isub__', isub)
        inplace('x *= y', '__imul__', imul)
        # scalar multiple and negation: apply_to_arrays on a copy
        if scalar is not None:
            sv = gen.gtensor(np.asarray(complex(scalar) if ring == 'GRing' else float(scalar)), ring)
            w, _ = want(lambda: x * scalar)
            if w is not None:
                self._add('x * s', 'gb_same %s (gb_map %s (tscale %s (Tensor.get %s %s [])) %s) %s' % (A, A, ring, ring, sv, BX, w), sym, k)
        w, _ = want(lambda: -x)
        if w is not None:
            self._add('-x', 'gb_same %s (gb_map %s (tneg %s) %s) %s' % (A, A, ring, BX, w), sym, k)

    def run(self):
        """-> list of broken-tie messages"""
        ctx = self.ctx
        bad = common.run_cases(ctx, 'binopgen', IMPORTS, PREAMBLE, self.exprs, shard=150)
        out = []
        if bad is None:
            out.append('cases.v (Gen/BinopGen.v: generated _binary_blockwise_op / dunder table vs implementation) did not evaluate')
        elif bad:
            out += ['Gen.BinopGen (generated from block_core.py) disagrees with the implementation on `%s` '
                    '(sector list, block order or entries; symmetry %s, case %d %s)' % self.meta[i] for i in bad[:10]]
            ctx.extra['disagreeing_binopgen_cases'] = [self.exprs[i][:2500] for i in bad[:3]]
        tie = ctx.extra.setdefault('tie', {})
        tie['generated_binop_cases'] = len(self.exprs)
        tie['generated_binop_cases_by_operation'] = dict(self.by_op)
        tie['generated_binop_pairs_with_right_only_blocks'] = self.order_sensitive
        return out
