"""C06 — contraction commutes with fusing, and all contraction strategies agree."""
import json

import numpy as np

import common
import gen
import refsym
import replaylib as rl
from c09 import value_eq

IMPORTS = ('From SV Require Import Base.Sym Base.Tensor Gen.PhasePerm Model.SymInst Model.Sectors Model.Array Model.Arith Model.Fermi Model.Fused.\n')
# the statements of Props/C06c.v (fuse free legs before / after contraction) use a re-numbering of axes
# (slot_pos / index_of), a_fuse and a_unfuse on pruned fused legs: tied here on the same inputs
IMPORTS_FC = IMPORTS + 'From SV Require Import Proofs.FuseGroups Proofs.FuseCommuteProofs.\n'
# run-time tie of the TRANSLATED fused contraction path and front end (Gen/FusedTdotGen.v, tr/gen_fusedtdot.py): own shard
# and imports, so that the hand-model ties above keep working when the generated file is missing.  Whole record compared:
# index tables incl. sub-index info, charge, blocks in dict order.
GEN_IMPORTS = 'From Coq Require Import String.\n' + IMPORTS + 'From SV Require Import Gen.BlockwiseGen Gen.FusedTdotGen.\n'
GEN_PREAMBLE = '''Definition aeq_strict (G : Symmetry) (R : Ring) (x y : aarray G R) : bool :=
  list_eqb (index_eqb G) (indices G R x) (indices G R y) && ceqb G (charge G R x) (charge G R y)
  && blocks_eqb_strict G R (blocks G R x) (blocks G R y).
Definition td_is_array (G : Symmetry) (R : Ring) (r : option (td_result G R)) (y : aarray G R) : bool :=
  match r with Some (TdArray c) => aeq_strict G R c y | _ => false end.
Definition td_is_scalar (G : Symmetry) (R : Ring) (r : option (td_result G R)) (y : tensor R) : bool :=
  match r with Some (TdScalar t) => tensor_eqb R t y | _ => false end.
Definition td_is_zero (G : Symmetry) (R : Ring) (r : option (td_result G R)) : bool :=
  match r with Some TdZero => true | _ => false end.
Definition td_is_raise (G : Symmetry) (R : Ring) (r : option (td_result G R)) : bool :=
  match r with None => true | _ => false end.
'''
SYMS = ['Z2', 'U1', 'Z2Z2', 'U1U1']
MODES = {'auto': 'MAuto', 'fused': 'MFused', 'blockwise': 'MBlockwise'}


def describe(x):
    d = {'class': type(x).__name__, 'charge': x.charge,
         'indices': [([list(kv) for kv in ix.chargemap.items()], ix.dual, ix.subinfo is not None) for ix in x.indices],
         'blocks': {str(k): np.asarray(v).tolist() for k, v in x.blocks.items()}}
    if hasattr(x, 'phases'):
        d['phases'] = [str(s) for s, p in x.phases.items() if p == -1]
        d['oddpos'] = [repr(o) for o in x.oddpos]
    return d


def same_structure(x, y):
    """same rank, same index tables, directions and sub-index tables (recursively)"""
    def ix_eq(i, j):
        if i.chargemap != j.chargemap or i.dual != j.dual or (i.subinfo is None) != (j.subinfo is None):
            return False
        if i.subinfo is not None:
            if dict(i.subinfo.extents) != dict(j.subinfo.extents) or len(i.subinfo.indices) != len(j.subinfo.indices):
                return False
            return all(ix_eq(a, b) for a, b in zip(i.subinfo.indices, j.subinfo.indices))
        return True
    return x.ndim == y.ndim and all(ix_eq(i, j) for i, j in zip(x.indices, y.indices))


def same_result(x, y):
    """same structure and same values, an absent block being equal to a zero block"""
    if not same_structure(x, y) or x.charge != y.charge:
        return False
    if hasattr(x, 'oddpos') and [(o.label, o.dual) for o in x.oddpos] != [(o.label, o.dual) for o in y.oddpos]:
        return False
    px, py = getattr(x, 'phases', {}), getattr(y, 'phases', {})
    for s in set(x.blocks) | set(y.blocks):
        a = np.asarray(x.blocks[s]) * (-1 if px.get(s, 1) == -1 else 1) if s in x.blocks else None
        b = np.asarray(y.blocks[s]) * (-1 if py.get(s, 1) == -1 else 1) if s in y.blocks else None
        if a is None:
            a = np.zeros_like(b)
        if b is None:
            b = np.zeros_like(a)
        if a.shape != b.shape or not np.array_equal(a, b):
            return False
    return True


def rand_pair(rng, sr, sym, cplx, fermionic):
    nda, ndb = rng.randint(2, 4), rng.randint(2, 4)
    ncon = rng.randint(1, min(nda, ndb) - (1 if rng.random() < 0.7 else 0))
    ncon = max(1, min(ncon, 3))
    if rng.random() < 0.4 and min(nda, ndb) >= 2:
        ncon = 2
    axa = rng.sample(range(nda), ncon)
    axb = rng.sample(range(ndb), ncon)
    cma = [gen.rand_chargemap(rng, sym, maxsize=2) for _ in range(nda)]
    dua = [rng.random() < 0.5 for _ in range(nda)]
    cmb = [gen.rand_chargemap(rng, sym, maxsize=2) for _ in range(ndb)]
    dub = [rng.random() < 0.5 for _ in range(ndb)]
    for i, j in zip(axa, axb):
        cmb[j] = dict(cma[i]); dub[j] = not dua[i]
    kw = dict(cplx=cplx, lo=-2, hi=2, keep=rng.choice([1.0, 0.8, 0.6, 0.5, ('drop', 1), ('drop', 1), ('drop', 2)]))
    if ncon >= 2 and rng.random() < 0.6:
        # dense-ish tables on the contracted legs so that a fused charge has several sub-sectors
        for i, j in zip(axa, axb):
            cma[i] = gen.rand_chargemap(rng, sym, maxcharges=3, maxsize=2)
            while len(cma[i]) < 2:
                cma[i] = gen.rand_chargemap(rng, sym, maxcharges=3, maxsize=2)
            cmb[j] = dict(cma[i])
    if fermionic:
        a = gen.rand_lazy(rng, sr, gen.rand_array(rng, sr, sym, chargemaps=cma, duals=dua, fermionic=True, oddpos=rng.randint(1, 9), **kw))
        b = gen.rand_lazy(rng, sr, gen.rand_array(rng, sr, sym, chargemaps=cmb, duals=dub, fermionic=True, oddpos=rng.randint(11, 19), **kw))
    else:
        a = gen.rand_array(rng, sr, sym, chargemaps=cma, duals=dua, **kw)
        b = gen.rand_array(rng, sr, sym, chargemaps=cmb, duals=dub, **kw)
    return a, b, axa, axb


def gaxes_spec(axa, axb):
    z = lambda l: '[' + '; '.join(gen.gnum(v) for v in l) + ']'
    return '(inr (%s, %s))' % (z(axa), z(axb))


def gmode(m):
    return 'None' if m is None else '(Some "%s"%%string)' % m


def gen_front_case(sr, gexprs, gmeta, gen_broken, a, b, axes, axes_spec, sym, ring, what, k, modes=('blockwise', 'fused', 'auto', None)):
    """the generated tensordot_abelian against sr.tensordot on one abelian pair: every mode, preserve_array=True (whole record,
    block order included) and, for a rank-0 result, the scalar return path"""
    A = '%s %s' % (sym, ring)
    dm = sr.get_default_tensordot_mode() if hasattr(sr, 'get_default_tensordot_mode') else 'auto'
    for m in modes:
        try:
            c = sr.tensordot(a, b, axes=axes, mode=m, preserve_array=True)
        except Exception as e:
            gen_broken.append('tensordot(mode=%r) raised on a contractible pair (symmetry %s, case %d): %s: %s' % (m, sym, k, type(e).__name__, e))
            continue
        head = 'gen_tensordot_abelian %s %s %s %s %s ' % (A, gen.garray(a, sym, ring), gen.garray(b, sym, ring), axes_spec, gmode(m))
        call = {p: head + p + ' "%s"%%string' % dm for p in ('true', 'false')}
        gexprs.append('td_is_array %s (%s) %s' % (A, call['true'], gen.garray(c, sym, ring)))
        gmeta.append(('gen_tensordot_abelian[%s, mode=%r]' % (what, m), sym, k))
        if c.ndim == 0:
            v = sr.tensordot(a, b, axes=axes, mode=m)
            if () in c.blocks:
                gexprs.append('td_is_scalar %s (%s) %s' % (A, call['false'], gen.gtensor(v, ring)))
            else:
                gexprs.append('td_is_zero %s (%s) && %s' % (A, call['false'], 'true' if (isinstance(v, float) and v == 0.0) else 'false'))
            gmeta.append(('gen_tensordot_abelian[%s, scalar path, mode=%r]' % (what, m), sym, k))


def run(ctx):
    import symmray as sr
    import symmray.abelian_core as ac
    ok = common.standard_proof_phase(ctx)
    rng = ctx.rng
    n_cases = 900 if ctx.thorough else 160
    exprs, meta, found = [], [], []
    gexprs, gmeta, gen_broken = [], [], []
    via_fused = getattr(ac, '_tensordot_via_fused', None)
    drop_mis = getattr(ac, 'drop_misaligned_sectors', None)
    fc_exprs, fc_meta = [], []
    stats = {'prefused_only_free_leg': 0, 'prefused_one_of_two': 0, 'different_sectors': 0, 'fermionic': 0, 'odd': 0, 'vector_or_scalar_side': 0}
    for k in range(n_cases):
        sym = SYMS[k % len(SYMS)]
        cplx = rng.random() < 0.25
        ferm = rng.random() < 0.5
        a, b, axa, axb = rand_pair(rng, sr, sym, cplx, ferm)
        stats['fermionic'] += ferm
        if ferm:
            stats['odd'] += bool(a.oddpos or b.oddpos)
        la = [i for i in range(a.ndim) if i not in axa]
        rb = [j for j in range(b.ndim) if j not in axb]
        if not la or not rb:
            stats['vector_or_scalar_side'] += 1
        if {tuple(s[i] for i in axa) for s in a.blocks} != {tuple(s[j] for j in axb) for s in b.blocks}:
            stats['different_sectors'] += 1
        desc = {'symmetry': sym, 'a': describe(a), 'b': describe(b), 'axes': [axa, axb]}

        def rp(oracle, **pr):
            # complete, re-executable description of this case (only built when something is found)
            return rl.record(oracle, {'a': a, 'b': b}, {'symmetry': sym, 'fermionic': ferm, 'axes': [axa, axb], **pr})
        ring = gen.ring_of(a, b)
        A = '%s %s' % (sym, ring)
        gar = (lambda x: gen.gfarray(x, sym, ring)) if ferm else (lambda x: gen.garray(x, sym, ring))
        eqb = 'farray_eqb' if ferm else 'aarray_eqb'
        tdm = 'f_tensordot2' if ferm else 'a_tensordot2'
        # ---- (1) strategies agree: fused / blockwise / auto
        try:
            res = {m: sr.tensordot(a, b, axes=(axa, axb), mode=m, preserve_array=True) for m in ('blockwise', 'fused', 'auto')}
            ctx.count(3)
            for m in ('fused', 'auto'):
                if not same_result(res[m], res['blockwise']):
                    found.append({'op': 'tensordot mode=%s vs blockwise' % m, **desc, 'replay': rp('strategies')})
            for m in ('blockwise', 'fused'):
                exprs.append('match %s %s %s %s %s %s with Some c => %s %s c %s | None => false end' % (
                    tdm, A, gar(a), gar(b), gaxes_spec(axa, axb), MODES[m], eqb, A, gar(res[m])))
                meta.append(('tensordot-' + m, sym, k))
        except Exception as e:
            found.append({'op': 'tensordot', **desc, 'raised': '%s: %s' % (type(e).__name__, e), 'replay': rp('strategies')})
            continue
        c0 = res['blockwise']
        if not ferm:
            # ---- the TRANSLATED front end and fused path on this pair (negative axes now and then)
            neg = rng.random() < 0.3
            axa_in = [x - a.ndim if neg and rng.random() < 0.5 else x for x in axa]
            axb_in = [x - b.ndim if neg and rng.random() < 0.5 else x for x in axb]
            gen_front_case(sr, gexprs, gmeta, gen_broken, a, b, (axa_in, axb_in), gaxes_spec(axa_in, axb_in), sym, ring, 'random pair', k)
            if via_fused is not None:
                try:
                    cf = via_fused(a, b, tuple(la), tuple(axa), tuple(axb), tuple(rb))
                    gexprs.append('aeq_strict %s (gen_tensordot_via_fused %s %s %s %s %s %s %s) %s' % (
                        A, A, gar(a), gar(b), gen.gnatlist(la), gen.gnatlist(axa), gen.gnatlist(axb), gen.gnatlist(rb), gar(cf)))
                    gmeta.append(('gen_tensordot_via_fused', sym, k))
                except Exception as e:
                    gen_broken.append('_tensordot_via_fused raised on a contractible pair (symmetry %s, case %d): %s: %s' % (sym, k, type(e).__name__, e))
            if drop_mis is not None:
                try:
                    a2, b2 = drop_mis(a, b, tuple(axa), tuple(axb))
                    for x2, groups in ((a2, (tuple(la), tuple(axa))), (b2, (tuple(axb), tuple(rb)))):
                        xf = sr.AbelianArray.fuse(x2, *groups, expand_empty=False)
                        gexprs.append('aeq_strict %s (gen_fuse %s %s [%s; %s]) %s' % (
                            A, A, gar(x2), gen.gnatlist(groups[0]), gen.gnatlist(groups[1]), gar(xf)))
                        gmeta.append(('gen_fuse', sym, k))
                except Exception as e:
                    gen_broken.append('fuse(.., expand_empty=False) raised on an aligned operand (symmetry %s, case %d): %s: %s' % (sym, k, type(e).__name__, e))
        # ---- (2) a free leg that was fused beforehand stays fused, all strategies agree
        if len(la) >= 2:
            g = tuple(sorted(rng.sample(la, 2)))
            try:
                af = a.fuse(g)
                new_pos = {}
                position = min(g)
                order = [ax for ax in range(position) if ax not in g] + [g] + [ax for ax in range(position, a.ndim) if ax not in g]
                for p, ax in enumerate(order):
                    if ax == g:
                        continue
                    new_pos[ax] = p
                axa_f = [new_pos[i] for i in axa]
                rf = {m: sr.tensordot(af, b, axes=(axa_f, axb), mode=m, preserve_array=True) for m in ('blockwise', 'fused', 'auto')}
                ctx.count(3)
                if len(la) == 2:
                    stats['prefused_only_free_leg'] += 1
                else:
                    stats['prefused_one_of_two'] += 1
                ctx.nontrivial(('prefused', sym, ferm, str(sorted(a.blocks)), str(sorted(b.blocks)), str(axa), str(axb), str(g)))
                for m in ('fused', 'auto'):
                    if not same_result(rf[m], rf['blockwise']):
                        found.append({'op': 'tensordot with a pre-fused free leg, mode=%s vs blockwise' % m, **desc, 'prefused_axes': g,
                                      'rank_fused_mode': rf[m].ndim, 'rank_blockwise': rf['blockwise'].ndim,
                                      'replay': rp('prefused', prefused_axes=g)})
                # fusing free legs before or after contraction is equivalent: unfusing the pre-fused
                # leg of the result gives the plain contraction (values compared in the operands' free tables)
                cand = rf['blockwise']
                pos_c = [ax for ax in order if ax == g or (ax in la)].index(g)
                un = cand.unfuse(pos_c)
                un_raw = un
                legs_un = [ax for ax in order if ax == g or (ax in la)]
                legs_un = legs_un[:pos_c] + list(g) + legs_un[pos_c + 1:]
                perm = [legs_un.index(ax) for ax in la] + list(range(len(la), un.ndim))
                un = un.transpose(tuple(perm))
                free = [a.indices[i] for i in la] + [b.indices[j] for j in rb]
                d_after = gen.densify(c0, indices=free)
                d_before = gen.densify(un, indices=free)
                if not np.array_equal(d_after, d_before):
                    found.append({'op': 'fuse free legs before vs after contraction', **desc, 'prefused_axes': g,
                                  'replay': rp('prefused', prefused_axes=g)})
                after = c0.fuse(tuple(la.index(x) for x in g))
                if after.ndim != cand.ndim:
                    found.append({'op': 'fuse free legs before vs after contraction (rank)', **desc, 'prefused_axes': g,
                                  'replay': rp('prefused', prefused_axes=g)})
                if not ferm:
                    # tie of the objects the theorems of Props/C06c.v speak about, on this very input:
                    # the re-numbered contracted axes and the group's positions in the product, the model's
                    # fuse of the operand, and unfusing the fused leg of either route (pruned tables)
                    g_after = [la.index(x) for x in g]
                    axa_n = [x % a.ndim for x in axa]
                    fc_exprs.append('list_eqb Nat.eqb (map (slot_pos (slots %d%%nat [%s])) %s) %s && '
                                    'list_eqb Nat.eqb (map (fun ax => index_of ax (rest_axes %d%%nat %s)) %s) %s' % (
                                        a.ndim, gen.gnatlist(g), gen.gnatlist(axa_n), gen.gnatlist(axa_f),
                                        a.ndim, gen.gnatlist(axa_n), gen.gnatlist(g), gen.gnatlist(g_after)))
                    fc_meta.append(('slot_pos / index_of re-numbering', sym, k))
                    fc_exprs.append('aarray_eqb %s (a_fuse %s %s [%s]) %s' % (A, A, gar(a), gen.gnatlist(g), gar(af)))
                    fc_meta.append(('a_fuse of the free group', sym, k))
                    fc_exprs.append('match a_unfuse %s %s %d%%nat with Some u => aarray_eqb %s u %s | None => false end' % (
                        A, gar(cand), pos_c, A, gar(un_raw)))
                    fc_meta.append(('a_unfuse of the pre-fused result', sym, k))
                    fc_exprs.append('match a_unfuse %s (a_fuse %s %s [%s]) %d%%nat with Some u => aarray_eqb %s u %s | None => false end' % (
                        A, A, gar(c0), gen.gnatlist(g_after), pos_c, A, gar(after.unfuse(pos_c))))
                    fc_meta.append(('a_unfuse of the post-fused result', sym, k))
                for m in ('blockwise', 'fused'):
                    exprs.append('match %s %s %s %s %s %s with Some c => %s %s c %s | None => false end' % (
                        tdm, A, gar(af), gar(b), gaxes_spec(axa_f, axb), MODES[m], eqb, A, gar(rf[m])))
                    meta.append(('tensordot-prefused-' + m, sym, k))
                if not ferm:
                    # the TRANSLATED front end on the operand with a pre-fused free leg (the leg must stay fused), and the other way round
                    gen_front_case(sr, gexprs, gmeta, gen_broken, af, b, (axa_f, axb), gaxes_spec(axa_f, axb), sym, ring, 'pre-fused free leg', k,
                                   modes=('blockwise', 'fused', 'auto'))
                    gen_front_case(sr, gexprs, gmeta, gen_broken, b, af, (axb, axa_f), gaxes_spec(axb, axa_f), sym, ring, 'pre-fused free leg (right operand)', k,
                                   modes=('fused',))
            except Exception as e:
                found.append({'op': 'tensordot with a pre-fused free leg', **desc, 'prefused_axes': g, 'raised': '%s: %s' % (type(e).__name__, e),
                              'replay': rp('prefused', prefused_axes=g)})
        # ---- (3) contraction commutes with fusing the contracted legs (after aligning)
        if len(axa) >= 2:
            for fmode in (('insert', 'concat') if not ferm else (None,)):
                ctx.count()
                try:
                    a2, b2 = a.align_axes(b, (tuple(axa), tuple(axb)))
                    if fmode is None:
                        a3, b3 = a2.fuse(tuple(axa)), b2.fuse(tuple(axb))
                    else:
                        a3, b3 = a2.fuse(tuple(axa), mode=fmode), b2.fuse(tuple(axb), mode=fmode)
                    pa, pb = min(axa), min(axb)
                    if not a2.blocks or not b2.blocks:
                        continue
                    c1 = sr.tensordot(a3, b3, axes=([pa], [pb]), mode='blockwise', preserve_array=True)
                    # c1's free legs: a's free legs in order, then b's — same as c0
                    if not same_result(c1.sync_charges() if False else c1, c0):
                        found.append({'op': 'contract fused pair (strategy %s) vs contract all pairs' % fmode, **desc,
                                      'replay': rp('fuse_contracted', fuse_mode=fmode)})
                    ctx.nontrivial(('prefuse', sym, ferm, str(sorted(a.blocks)), str(sorted(b.blocks)), str(axa), str(axb), fmode))
                except Exception as e:
                    found.append({'op': 'align + fuse + contract', **desc, 'fuse_mode': fmode, 'raised': '%s: %s' % (type(e).__name__, e),
                                  'replay': rp('fuse_contracted', fuse_mode=fmode)})
        if k < 2:
            ctx.sample(desc)
    # ---- exhaustive single-block removal on small rank-4 x rank-3 structures (two free + two
    # contracted legs, every leg with >= 2 charges): every strategy and the pre-fused route must agree
    for rep in range(6 if ctx.thorough else 2):
        for sym in ('Z2', 'U1'):
            ferm = rep % 2 == 1
            cms = [gen.rand_chargemap(rng, sym, maxcharges=2, maxsize=2) for _ in range(5)]
            for cm in cms:
                while len(cm) < 2:
                    cm.update(gen.rand_chargemap(rng, sym, maxcharges=2, maxsize=2))
            dus = [rng.random() < 0.5 for _ in range(5)]
            kw = dict(lo=-2, hi=2, keep=1.0, fermionic=ferm)
            a_full = gen.rand_array(rng, sr, sym, chargemaps=cms[:4], duals=dus[:4], oddpos=3, **kw)
            b_full = gen.rand_array(rng, sr, sym, chargemaps=[cms[2], cms[3], cms[4]], duals=[not dus[2], not dus[3], dus[4]], oddpos=7, **kw)
            for which, full in (('a', a_full), ('b', b_full)):
                for sdrop in list(full.blocks):
                    x = full.copy()
                    del x.blocks[sdrop]
                    aa, bb = (x, b_full) if which == 'a' else (a_full, x)
                    for axes in (([2, 3], [0, 1]), ([3, 2], [1, 0])):
                        ctx.count()
                        try:
                            r = {m: sr.tensordot(aa, bb, axes=axes, mode=m, preserve_array=True) for m in ('blockwise', 'fused')}
                            okk = same_result(r['fused'], r['blockwise'])
                            a2, b2 = aa.align_axes(bb, (tuple(axes[0]), tuple(axes[1])))
                            if a2.blocks and b2.blocks:
                                c1 = sr.tensordot(a2.fuse(tuple(axes[0])), b2.fuse(tuple(axes[1])), axes=([2], [0]), mode='blockwise', preserve_array=True)
                                okk = okk and same_result(c1, r['blockwise'])
                            if not okk:
                                found.append({'op': 'strategies / pre-fused route disagree with one block removed', 'symmetry': sym,
                                              'a': describe(aa), 'b': describe(bb), 'axes': list(axes), 'removed_block': [which, list(map(str, sdrop))],
                                              'replay': rl.record('single_drop', {'a': aa, 'b': bb}, {'symmetry': sym, 'axes': list(axes)})})
                        except Exception as e:
                            found.append({'op': 'contraction with one block removed', 'symmetry': sym, 'a': describe(aa), 'b': describe(bb),
                                          'axes': list(axes), 'raised': '%s: %s' % (type(e).__name__, e),
                                          'replay': rl.record('single_drop', {'a': aa, 'b': bb}, {'symmetry': sym, 'axes': list(axes)})})
            ctx.nontrivial(('single-drop', sym, ferm, str(cms), str(dus)))
    # ---- the translated front end: int axes, full contraction (scalar return path, also without any aligned block), refusals
    for rep in range(40 if ctx.thorough else 12):
        sym = SYMS[rep % len(SYMS)]
        nd = rng.randint(1, 3)
        cm = [gen.rand_chargemap(rng, sym, maxsize=2) for _ in range(nd)]
        du = [rng.random() < 0.5 for _ in range(nd)]
        a = gen.rand_array(rng, sr, sym, chargemaps=cm, duals=du, lo=-2, hi=2, keep=rng.choice([1.0, 0.7, 0.5]))
        kk = rng.randint(0, nd) if rep % 3 else nd
        perm = list(range(nd - kk, nd)) + list(range(nd - kk))
        b = a.conj().transpose(tuple(perm))
        if rep % 4 == 3 and b.blocks:
            # sparser second operand: possibly nothing aligned
            b = b.copy()
            for sct in list(b.blocks)[::2]:
                del b.blocks[sct]
        ring = gen.ring_of(a, b)
        ctx.count(4)
        gen_front_case(sr, gexprs, gmeta, gen_broken, a, b, kk, '(inl %d%%nat)' % kk, sym, ring, 'int axes %d of rank %d' % (kk, nd), rep)
        if nd >= 2:
            # axes of different lengths: ValueError
            try:
                sr.tensordot(a, b, axes=([0, 1], [0]), preserve_array=True)
                gexprs.append('false')
            except ValueError:
                gexprs.append('td_is_raise %s %s (gen_tensordot_abelian %s %s %s %s (inr ([0; 1], [0])) (Some "auto"%%string) true "auto"%%string)' % (
                    sym, ring, sym, ring, gen.garray(a, sym, ring), gen.garray(b, sym, ring)))
            except Exception:
                gexprs.append('false')
            gmeta.append(('gen_tensordot_abelian[axes of different lengths]', sym, rep))
        try:
            sr.tensordot(a, b, axes=kk, mode='blockwize', preserve_array=True)
            gexprs.append('false')
        except ValueError:
            gexprs.append('td_is_raise %s %s (gen_tensordot_abelian %s %s %s %s (inl %d%%nat) (Some "blockwize"%%string) true "auto"%%string)' % (
                sym, ring, sym, ring, gen.garray(a, sym, ring), gen.garray(b, sym, ring), kk))
        except Exception:
            gexprs.append('false')
        gmeta.append(('gen_tensordot_abelian[unknown mode]', sym, rep))
    bad_idx = common.run_cases(ctx, 'fused', IMPORTS, '', exprs, shard=30)
    tie_broken = []
    if bad_idx is None:
        tie_broken.append('cases.v (fused/blockwise contraction model vs implementation) did not evaluate')
    elif bad_idx:
        tie_broken += ['Model.%s disagrees with the implementation (symmetry %s, case %d)' % meta[i] for i in bad_idx[:10]]
        ctx.extra['disagreeing_cases'] = [exprs[i][:3000] for i in bad_idx[:2]]
    bad_fc = common.run_cases(ctx, 'fusecommute', IMPORTS_FC, '', fc_exprs, shard=40)
    if bad_fc is None:
        tie_broken.append('cases.v (re-numbering / fuse / unfuse used by the fuse-before-or-after theorems) did not evaluate')
    elif bad_fc:
        tie_broken += ['Model %s disagrees with the implementation (symmetry %s, case %d)' % fc_meta[i] for i in bad_fc[:10]]
        ctx.extra['disagreeing_fuse_commute_cases'] = [fc_exprs[i][:3000] for i in bad_fc[:2]]
    # ---- the translated fused path / front end against the implementation
    bad_gen = common.run_cases(ctx, 'fusedtdot_gen', GEN_IMPORTS, GEN_PREAMBLE, gexprs, shard=40)
    tie_broken += gen_broken[:5]
    if bad_gen is None:
        tie_broken.append('cases.v (Gen/FusedTdotGen.v, the translated fused contraction path and front end, vs implementation) did not evaluate')
    elif bad_gen:
        tie_broken += ['Gen.FusedTdotGen.%s disagrees with the implementation (symmetry %s, case %d)' % gmeta[i] for i in bad_gen[:10]]
        ctx.extra['disagreeing_gen_cases'] = [gexprs[i][:3000] for i in bad_gen[:2]]
    seen = set()
    for f in found:
        if f['op'] in seen or len(seen) >= 5:
            continue
        seen.add(f['op'])
        ctx.violation('%s' % f['op'], {'oracle': 'strategies / fusing routes compared on the implementation', **f, 'run': rl.run_info(ctx)})
    ctx.broken += tie_broken
    if (not ok or tie_broken) and not found:
        ctx.violation('proof obligation or tie of C06 no longer checks',
                      {'broken': ctx.broken, 'replay': rl.record('proof_phase')}, found_input=False)
    ctx.extra['case_classes'] = stats
    ctx.extra['tie'] = {'model_cases': len(exprs), 'fuse_commute_cases': len(fc_exprs), 'fusedtdot_gen_cases': len(gexprs)}
    ctx.coverage['rule'] = ('random contractible pairs (rank 2-4, four symmetries, abelian and fermionic with pending signs and odd parity, sparse '
                            'operands whose stored sectors differ) x all strategies; a free leg fused beforehand; fusing the contracted legs after '
                            'align_axes with both fuse strategies; non-trivial = pre-fused leg or pre-fused contracted pair; distinct by structure')


# ------------------------------------------------------------------ replay
def _differ(x, y):
    """why same_result(x, y) is False, for the report"""
    if not same_structure(x, y):
        return 'index structure differs (rank %d vs %d)' % (x.ndim, y.ndim)
    if x.charge != y.charge:
        return 'charge %r vs %r' % (x.charge, y.charge)
    if hasattr(x, 'oddpos') and [(o.label, o.dual) for o in x.oddpos] != [(o.label, o.dual) for o in y.oddpos]:
        return 'odd-position labels %r vs %r' % (x.oddpos, y.oddpos)
    return 'values differ'


def _strategies(sr, a, b, axa, axb):
    """section (1) of the check: fused and auto against blockwise"""
    try:
        res = {m: sr.tensordot(a, b, axes=(axa, axb), mode=m, preserve_array=True) for m in ('blockwise', 'fused', 'auto')}
    except Exception as e:
        return None, [{'what': 'tensordot(a, b, axes=%r) raises in one of the strategies' % ((axa, axb),), 'expected': 'a result',
                       'got': '%s: %s' % (type(e).__name__, e)}]
    fails = []
    for m in ('fused', 'auto'):
        if not same_result(res[m], res['blockwise']):
            fails.append({'what': 'tensordot(a, b, axes=%r, mode=%r) vs mode=\'blockwise\': %s' % ((axa, axb), m, _differ(res[m], res['blockwise'])),
                          'expected': describe(res['blockwise']), 'got': describe(res[m])})
    return res, fails


def _rp_strategies(sr, ins, pr, r):
    return _strategies(sr, ins['a'], ins['b'], *pr['axes'])[1]


def _rp_prefused(sr, ins, pr, r):
    """section (2): a free leg of `a` fused beforehand"""
    a, b = ins['a'], ins['b']
    axa, axb = pr['axes']
    g = tuple(pr['prefused_axes'])
    la = [i for i in range(a.ndim) if i not in axa]
    rb = [j for j in range(b.ndim) if j not in axb]
    res, fails = _strategies(sr, a, b, axa, axb)
    if res is None:
        return fails
    fails = []          # the plain strategies are another record's business
    c0 = res['blockwise']
    try:
        af = a.fuse(g)
        new_pos = {}
        position = min(g)
        order = [ax for ax in range(position) if ax not in g] + [g] + [ax for ax in range(position, a.ndim) if ax not in g]
        for p, ax in enumerate(order):
            if ax == g:
                continue
            new_pos[ax] = p
        axa_f = [new_pos[i] for i in axa]
        rf = {m: sr.tensordot(af, b, axes=(axa_f, axb), mode=m, preserve_array=True) for m in ('blockwise', 'fused', 'auto')}
        for m in ('fused', 'auto'):
            if not same_result(rf[m], rf['blockwise']):
                fails.append({'what': 'tensordot(a.fuse(%r), b, axes=%r, mode=%r) vs blockwise: %s' % (g, (axa_f, axb), m, _differ(rf[m], rf['blockwise'])),
                              'expected': 'rank %d, %s' % (rf['blockwise'].ndim, describe(rf['blockwise'])['blocks']),
                              'got': 'rank %d, %s' % (rf[m].ndim, describe(rf[m])['blocks'])})
        cand = rf['blockwise']
        pos_c = [ax for ax in order if ax == g or (ax in la)].index(g)
        un = cand.unfuse(pos_c)
        legs_un = [ax for ax in order if ax == g or (ax in la)]
        legs_un = legs_un[:pos_c] + list(g) + legs_un[pos_c + 1:]
        perm = [legs_un.index(ax) for ax in la] + list(range(len(la), un.ndim))
        un = un.transpose(tuple(perm))
        free = [a.indices[i] for i in la] + [b.indices[j] for j in rb]
        d_after = gen.densify(c0, indices=free)
        d_before = gen.densify(un, indices=free)
        if not np.array_equal(d_after, d_before):
            fails.append({'what': 'fusing free legs %r before the contraction and unfusing afterwards vs the plain contraction' % (g,),
                          'expected': d_after.tolist() if d_after.size < 300 else 'large', 'got': d_before.tolist() if d_before.size < 300 else 'large'})
        after = c0.fuse(tuple(la.index(x) for x in g))
        if after.ndim != cand.ndim:
            fails.append({'what': 'rank of fuse-before vs fuse-after the contraction', 'expected': after.ndim, 'got': cand.ndim})
    except Exception as e:
        fails.append({'what': 'tensordot with the free legs %r fused beforehand raises' % (g,), 'expected': 'a result', 'got': '%s: %s' % (type(e).__name__, e)})
    return fails


def _rp_fuse_contracted(sr, ins, pr, r):
    """section (3): align, fuse the contracted legs, contract the single fused pair"""
    a, b = ins['a'], ins['b']
    axa, axb = pr['axes']
    fmode = pr.get('fuse_mode')
    res, fails = _strategies(sr, a, b, axa, axb)
    if res is None:
        return fails
    c0 = res['blockwise']
    try:
        a2, b2 = a.align_axes(b, (tuple(axa), tuple(axb)))
        if fmode is None:
            a3, b3 = a2.fuse(tuple(axa)), b2.fuse(tuple(axb))
        else:
            a3, b3 = a2.fuse(tuple(axa), mode=fmode), b2.fuse(tuple(axb), mode=fmode)
        pa, pb = min(axa), min(axb)
        if not a2.blocks or not b2.blocks:
            return []
        c1 = sr.tensordot(a3, b3, axes=([pa], [pb]), mode='blockwise', preserve_array=True)
        if not same_result(c1, c0):
            return [{'what': 'contract the fused pair (fuse strategy %s) vs contract all pairs: %s' % (fmode, _differ(c1, c0)),
                     'expected': describe(c0), 'got': describe(c1)}]
    except Exception as e:
        return [{'what': 'align + fuse (%s) + contract raises' % fmode, 'expected': 'a result', 'got': '%s: %s' % (type(e).__name__, e)}]
    return []


def _rp_single_drop(sr, ins, pr, r):
    aa, bb = ins['a'], ins['b']
    axes = tuple(pr['axes'])
    try:
        rr = {m: sr.tensordot(aa, bb, axes=axes, mode=m, preserve_array=True) for m in ('blockwise', 'fused')}
        fails = []
        if not same_result(rr['fused'], rr['blockwise']):
            fails.append({'what': 'tensordot(a, b, axes=%r): fused vs blockwise: %s' % (axes, _differ(rr['fused'], rr['blockwise'])),
                          'expected': describe(rr['blockwise']), 'got': describe(rr['fused'])})
        a2, b2 = aa.align_axes(bb, (tuple(axes[0]), tuple(axes[1])))
        if a2.blocks and b2.blocks:
            c1 = sr.tensordot(a2.fuse(tuple(axes[0])), b2.fuse(tuple(axes[1])), axes=([2], [0]), mode='blockwise', preserve_array=True)
            if not same_result(c1, rr['blockwise']):
                fails.append({'what': 'align + fuse + contract vs blockwise: %s' % _differ(c1, rr['blockwise']),
                              'expected': describe(rr['blockwise']), 'got': describe(c1)})
        return fails
    except Exception as e:
        return [{'what': 'contraction with one block removed raises', 'expected': 'a result', 'got': '%s: %s' % (type(e).__name__, e)}]


ORACLES = {'strategies': _rp_strategies, 'prefused': _rp_prefused, 'fuse_contracted': _rp_fuse_contracted, 'single_drop': _rp_single_drop}


def replay(path):
    """re-run the recorded failing case against $SYMMRAY_REPO: 1 = still fails, 0 = passes now"""
    import sys
    return rl.dispatch(path, 'C06', ORACLES, sys.modules[__name__])
